import time
from mc.checks import c17
c17.init_worker("quick")
spc=c17._W["spaces"]["s1xs1"]
import cProfile
t=time.time(); n=0
for l in range(0,282,13):
    for r in range(0,282,17):
        n+=1; c17.check_pair("s1xs1",l,r,False)
print("pairs no solve",n,(time.time()-t)/n)
t=time.time(); n=0; cl=0
for l in range(0,282,13):
    for r in range(0,282,17):
        n+=1; res=c17._solve(spc["ex_l"][l],spc["ex_r"][r]); cl+= res is not None
print("solve only",n,(time.time()-t)/n, cl)
t=time.time(); n=0
for l in range(0,282,13):
    n+=1; c17.check_expand("s1xs1",l)
print("expand",n,(time.time()-t)/n)
