from fractions import Fraction as F
from psyclone.psyir.frontend.fortran import FortranReader
from mc.fortsem.interp import *
src='''
module m
 integer, parameter :: wp=kind(1.0d0)
 real(wp) :: g(3)
contains
subroutine s(n,m,a,b,x)
 integer, intent(in) :: n, m
 real, intent(inout) :: a(0:m)
 real, intent(inout) :: b(n)
 real(wp) :: x
 integer :: i,k
 logical :: l
 type tt
   real :: f(2)
   integer :: q
 end type
 type(tt) :: st
 l = .false.
 st%f(1) = 0.5
 do i=1,n,2
   a(i) = mod(i,2) + max(a(i-1), real(x), 2.0) * 3 ** 2 / n
   if (a(i) > 1 .and. .not. l) then
      b(i) = sum(a(1:n)) - st%f(1)
   else
      exit
   end if
 end do
 a(1:n) = b(:) + 1
 st%q = size(a,1) + lbound(a,1)
 call t(a(1), k)
 x = real(k, wp) + 1.5e0_wp + 2_4 + st%q
 do while (k<30)
   k = k + 1
 end do
 g(2) = k
 a(n:1:-1) = a(1:n)
end subroutine
subroutine t(y, j)
 real :: y
 integer :: j
 j = int(y)
 return
end subroutine
end module
'''
p=FortranReader().psyir_from_source(src)
it=Interp(p)
n=make_scalar('n','int',4)
a=make_array('a','real',[(0,5)],[F(k) for k in range(6)])
b=make_array('b','real',[(1,4)],[F(k,2) for k in range(4)])
x=make_scalar('x','real',F(3))
it.run("s",[n,make_scalar("m","int",5),a,b,x])
print([c.v for c in a.cells]); print([c.v for c in b.cells]); print(x.v, it.steps)
