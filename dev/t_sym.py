import time, itertools
from psyclone.psyir.frontend.fortran import FortranReader
from psyclone.core import SymbolicMaths
from psyclone.psyir.nodes import Assignment
leaves=['i','j','n','1','2','3']
def size1():
    out=[]
    for a,b in itertools.product(leaves,leaves):
        for op in ['+','-','*','/']:
            out.append(f"{a} {op} {b}")
        for f in ['mod','min','max']:
            out.append(f"{f}({a}, {b})")
    for a in leaves:
        out.append(f"-{a}"); out.append(f"{a}**2"); out.append(f"a({a})")
    return out
E1=leaves+size1()
print(len(E1))
src="subroutine s(i,j,n,a,r)\n integer :: i,j,n,r\n integer :: a(-50:50)\n"+"".join(f" r = {e}\n" for e in E1)+"end subroutine\n"
t=time.time(); p=FortranReader().psyir_from_source(src); print('parse',time.time()-t)
ex=[a.rhs for a in p.walk(Assignment)]
sm=SymbolicMaths.get()
import random
t=time.time(); n=0; eq=0; ne=0
for k in range(0,len(ex),7):
    for l in range(0,len(ex),11):
        n+=1
        if sm.equal(ex[k],ex[l]): eq+=1
        if sm.never_equal(ex[k],ex[l]): ne+=1
print(n,'pairs',time.time()-t, eq, ne)
