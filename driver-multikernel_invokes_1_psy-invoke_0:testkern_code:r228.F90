              program multikernel_invokes_1_psy_invoke_0testkern_coder228
                use read_kernel_data_mod, only : ReadKernelDataType
                use testkern_mod, only : testkern_code
                use constants_mod, only : i_def, l_def, r_bl, r_def, r_double, r_ncdf, r_second, r_single, r_solver, r_tran, r_um
                use compare_variables_mod, only : compare, compare_init, compare_summary
                integer(kind=i_def) :: loop1_start
                integer(kind=i_def) :: loop1_stop
                integer(kind=i_def) :: nlayers
                real(kind=r_def) :: a
                real(kind=r_def), allocatable, dimension(:) :: f1_data
                real(kind=r_def), allocatable, dimension(:) :: f2_data
                real(kind=r_def), allocatable, dimension(:) :: m1_data
                real(kind=r_def), allocatable, dimension(:) :: m2_data
                integer(kind=i_def) :: ndf_w1
                integer(kind=i_def) :: undf_w1
                integer(kind=i_def), allocatable, dimension(:,:) :: map_w1
                integer(kind=i_def) :: cell
                integer(kind=i_def) :: ndf_w2
                integer(kind=i_def) :: undf_w2
                integer(kind=i_def), allocatable, dimension(:,:) :: map_w2
                integer(kind=i_def) :: ndf_w3
                integer(kind=i_def) :: undf_w3
                integer(kind=i_def), allocatable, dimension(:,:) :: map_w3
                type(ReadKernelDataType) :: extract_psy_data
                integer(kind=i_def) :: cell_post
                real(kind=r_def), allocatable, dimension(:) :: f1_data_post

                call extract_psy_data%OpenRead('multikernel_invokes_1_psy', 'invoke_0:testkern_code:r228')
                call extract_psy_data%ReadVariable('a', a)
                call extract_psy_data%ReadVariable('f1_data', f1_data)
                call extract_psy_data%ReadVariable('f2_data', f2_data)
                call extract_psy_data%ReadVariable('loop1_start', loop1_start)
                call extract_psy_data%ReadVariable('loop1_stop', loop1_stop)
                call extract_psy_data%ReadVariable('m1_data', m1_data)
                call extract_psy_data%ReadVariable('m2_data', m2_data)
                call extract_psy_data%ReadVariable('map_w1', map_w1)
                call extract_psy_data%ReadVariable('map_w2', map_w2)
                call extract_psy_data%ReadVariable('map_w3', map_w3)
                call extract_psy_data%ReadVariable('ndf_w1', ndf_w1)
                call extract_psy_data%ReadVariable('ndf_w2', ndf_w2)
                call extract_psy_data%ReadVariable('ndf_w3', ndf_w3)
                call extract_psy_data%ReadVariable('nlayers', nlayers)
                call extract_psy_data%ReadVariable('undf_w1', undf_w1)
                call extract_psy_data%ReadVariable('undf_w2', undf_w2)
                call extract_psy_data%ReadVariable('undf_w3', undf_w3)
                call extract_psy_data%ReadVariable('cell_post', cell_post)
                cell = 0
                call extract_psy_data%ReadVariable('f1_data_post', f1_data_post)
                do cell = loop1_start, loop1_stop, 1
                  call testkern_code(nlayers, a, f1_data, f2_data, m1_data, m2_data, ndf_w1, undf_w1, map_w1(:,cell), ndf_w2, &
&undf_w2, map_w2(:,cell), ndf_w3, undf_w3, map_w3(:,cell))
                enddo
                call compare_init(2)
                call compare('cell', cell, cell_post)
                call compare('f1_data', f1_data, f1_data_post)
                call compare_summary()

              end program multikernel_invokes_1_psy_invoke_0testkern_coder228
