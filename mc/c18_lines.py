"""Enumerator of free-form Fortran lines for C18 and the reference notion of
"a line that can be wrapped".

A *shape* is (head, indentation, separator, item pattern, tail). The line of a
shape with ``n`` items is

    indentation + head.pre + sep.join(item_1 .. item_n) + head.post + tail

where item_k is produced by the k-th element (cyclically) of the pattern.
Every line is valid free-form Fortran in the context ``unit()`` builds for it
(this is checked with gfortran by the ``gf`` work items of the check).
"""
import itertools

# ---------------------------------------------------------------------------
# identifiers and items
# ---------------------------------------------------------------------------
_LETTERS = "abcdefghjklmnopqrstuvwxyz"     # no 'i' (loop variable prefix)
LONG_COMPONENT = "this_is_a_very_long_component_n"      # 31 characters
assert len(LONG_COMPONENT) == 31


def ident(kind, idx):
    """A unique identifier of length 1 (2 from the 26th on), 8 or 31."""
    if kind == "s":
        if idx < len(_LETTERS):
            return _LETTERS[idx]
        idx -= len(_LETTERS)
        return _LETTERS[idx // 10 % len(_LETTERS)] + str(idx % 10)
    if kind == "m":
        return f"fld_{idx:04d}"
    if kind == "l":
        return f"this_is_a_very_long_name_ab_{idx:03d}"
    raise ValueError(kind)


LITERALS = {
    "lit_sp": "'hello wide world'",
    "lit_q": "'it''s'",
    "lit_dq": "\"say \"\"hi\"\" now\"",
    "lit_bang": "'bang ! here'",
    "lit_amp": "'amp & here'",
    "lit_mix": "'a, b+c=d) e'",
    "lit_gap": "'a" + " " * 44 + "b'",
    # The other kind of quote inside a literal is an ordinary character; an
    # odd number of them must not confuse whoever tracks character context.
    "lit_oq": "\"Don't\"",
    "lit_oq_bang": "\"Don't panic! now\"",
    "lit_oq_amp": "'say \"hi & bye'",
    "lit_oq_even": "'a \"quoted\" word'",
}


def item(kind, idx):
    """The text of the idx-th item of the given kind."""
    if kind in ("s", "m", "l"):
        return ident(kind, idx)
    if kind in LITERALS:
        return LITERALS[kind]
    if kind == "num":
        return "1.0e+5"
    if kind == "expr":
        return f"{ident('s', idx)}+{ident('m', idx)}"
    if kind == "fn":
        return f"fun({ident('m', idx)}, 2)"
    if kind == "pw":
        return f"{ident('m', idx)}**2"
    if kind == "par":
        return f"({ident('s', idx)} - 1)"
    if kind == "ren_s":
        return f"{ident('s', idx)} => mv"
    if kind == "ren_m":
        return f"{ident('m', idx)}=>mv"
    if kind == "ren_l":
        return f"{ident('l', idx)} => mv"
    if kind == "eq_s":
        return f"{ident('s', idx)} == {ident('s', idx + 1)}"
    if kind == "ge_m":
        return f"{ident('m', idx)}>={ident('m', idx + 1)}"
    if kind == "ne_l":
        return f"{ident('l', idx)} /= {ident('s', idx)}"
    if kind == "c_s":
        return "nxt"
    if kind == "c_m":
        return "next_one"
    if kind == "c_l":
        return LONG_COMPONENT
    if kind == "w_s":
        return "ab"
    if kind == "w_m":
        return "comment8"
    if kind == "w_l":
        return "an_unbroken_word_of_31_letters_"
    if kind == "w_dot":
        return "e.g."
    if kind == "w_q":
        return "it's"
    if kind == "w_amp":
        return "a&b"
    if kind == "w_bang":
        return "x!y"
    raise ValueError(kind)


# ---------------------------------------------------------------------------
# heads
# ---------------------------------------------------------------------------
IDS = ["s", "m", "l"]
LITS = ["lit_sp", "lit_q", "lit_dq", "lit_bang", "lit_amp", "lit_mix",
        "lit_gap", "lit_oq", "lit_oq_bang", "lit_oq_amp", "lit_oq_even"]
TAILS = {
    "t0": "",
    "t1": " ! c",
    "t2": " ! note: it's a longer trailing comment, split here & there (maybe)",
    "t3": "",
}
# "t3": the statement/directive is already continued in the input: the line
# ends with '&' and its last item (and the head's closing text) is on a
# second line.
ALL_TAILS = ["t0", "t1", "t2", "t3"]
DIRECTIVE_TAILS = ["t0", "t3"]
STRUCT_TAILS = ["t0", "t1", "t2"]
INDENTS = [0, 6, 40]

# name: (class, pre, post, item kinds, separators, tails, context)
# class is the kind of line as Fortran sees it: "statement" = the statement
# kinds the limiter documents (INTEGER, REAL, TYPE, CALL, SUBROUTINE, USE),
# "omp"/"acc" directives, "comment", "other" = any other statement.
HEADS = {
    "decl_int": ("statement", "integer :: ", "", IDS, [", ", ","], ALL_TAILS,
                 "decl"),
    "decl_real": ("statement", "real, dimension(10,10) :: ", "", IDS,
                  [", ", ","], ALL_TAILS, "decl"),
    "decl_type": ("statement", "type(node_type) :: ", "", IDS, [", ", ","],
                  ALL_TAILS, "decl_t"),
    "call": ("statement", "call sub_name(", ")",
             IDS + LITS + ["num", "expr", "fn"], [", ", ","], ALL_TAILS,
             "exec"),
    "use": ("statement", "use c18_m, only: ", "", ["ren_s", "ren_m", "ren_l"],
            [", ", ","], ALL_TAILS, "decl"),
    "subr": ("statement", "subroutine sub_name(", ")", IDS, [", ", ","],
             ALL_TAILS, "subr"),
    "call_bound": ("statement", "call ptr", "%bound()", ["c_s", "c_m", "c_l"],
                   ["%"], STRUCT_TAILS, "struct"),
    "assign": ("other", "res = ", "", IDS + ["num", "fn", "pw", "par"],
               [" + ", "+", "*"], ALL_TAILS, "exec"),
    "concat": ("other", "cvar = ", "", LITS + ["s", "m"], [" // ", "//"],
               ALL_TAILS, "char"),
    "ifthen": ("other", "if (", ") then", ["eq_s", "ge_m", "ne_l"],
               [" .and. ", ".or."], ALL_TAILS, "if"),
    "print": ("other", "print *, ", "", LITS + ["s", "l"], [", ", ","],
              ALL_TAILS, "char"),
    "dealloc": ("other", "deallocate(ptr", ")", ["c_s", "c_m", "c_l"], ["%"],
                STRUCT_TAILS, "struct"),
    "assign_struct": ("other", "ptr", "%val = 1", ["c_s", "c_m", "c_l"], ["%"],
                      STRUCT_TAILS, "struct"),
    "omp_pdo": ("omp", "!$omp parallel do default(shared), private(",
                ") schedule(static)", IDS, [", ", ","], DIRECTIVE_TAILS,
                "omp"),
    "omp_upper": ("omp", "!$OMP PARALLEL DO PRIVATE(", ")", IDS, [", ", ","],
                  DIRECTIVE_TAILS, "omp"),
    "acc_kernels": ("acc", "!$acc kernels copyin(", ")", IDS, [", ", ","],
                    DIRECTIVE_TAILS, "acc_kernels"),
    "acc_enter": ("acc", "!$ACC enter data create(", ")", IDS, [", ", ","],
                  DIRECTIVE_TAILS, "acc_exec"),
    "comment": ("comment", "! ", "",
                ["w_s", "w_m", "w_l", "w_dot", "w_q", "w_amp", "w_bang"],
                [" ", ", ", "."], ["t0"], None),
}
HEAD_ORDER = list(HEADS)

MAX_LEN = 132 + 70
MIN_LEN = 40 - 2


def patterns(kinds, depth):
    """All item patterns of length 1..depth that are not a repetition of a
    shorter pattern (cycling such a pattern gives the same lines)."""
    out = []
    for size in range(1, depth + 1):
        for pat in itertools.product(kinds, repeat=size):
            if any(size % sub == 0 and pat == pat[:sub] * (size // sub)
                   for sub in range(1, size)):
                continue
            out.append(pat)
    return out


def build(head, indent, sep, pattern, tail, count):
    """The text of the shape with ``count`` items (two lines for tail t3)."""
    cls, pre, post, _kinds, _seps, _tails, _ctx = HEADS[head]
    size = count + 1 if tail == "t3" else count
    items = [item(pattern[k % len(pattern)], k) for k in range(size)]
    if sep == "%":
        body = pre + "".join("%" + it for it in items)
        return " " * indent + body + post + TAILS[tail]
    if tail == "t3":
        lead = {"omp": "!$omp& ", "acc": "!$acc& "}.get(cls, "  ")
        return (" " * indent + pre + sep.join(items[:-1]) + sep.rstrip() +
                " &\n" + " " * indent + lead + items[-1] + post)
    return " " * indent + pre + sep.join(items) + post + TAILS[tail]


def first_line_length(head, indent, sep, pattern, tail, count):
    """Length of the (first) line of the shape: what is stretched."""
    return len(build(head, indent, sep, pattern, tail, count).split("\n")[0])


def counts(head, indent, sep, pattern, tail):
    """Item counts whose lines have MIN_LEN <= length <= MAX_LEN."""
    out = []
    num = 1
    while True:
        length = first_line_length(head, indent, sep, pattern, tail, num)
        if length > MAX_LEN:
            break
        if length >= MIN_LEN:
            out.append(num)
        num += 1
    return out


# ---------------------------------------------------------------------------
# what "can be wrapped" means (reference for judging a refusal)
# ---------------------------------------------------------------------------
# Continuation marks and the strings after which the limiter documents that it
# may break each class of line (doc/user_guide/line_length.rst and
# line_length_test.py::test_break_types_multi_line). The reference below asks
# whether ANY choice of such break points gives pieces that fit; it does not
# imitate the limiter's choice.
MARKS = {"statement": ("&", "&"), "other": ("&", "&"),
         "omp": ("!$omp& ", " &"), "acc": ("!$acc& ", " &"),
         "comment": ("!& ", "")}
KEYS = {"statement": (", ", ",", " "), "other": (" ", ",", "=", "+", ")"),
        "omp": (" ", ",", ")", "="), "acc": (" ", ",", ")", "="),
        "comment": (" ", ".", ",")}


def _breakable(body, cls, limit, split_blank_runs=True):
    start_mark, end_mark = MARKS[cls]
    size = len(body)
    first = size - len(body.lstrip())
    cuts = set()
    for key in KEYS[cls]:
        pos = body.find(key, first + 1)
        while pos >= 0:
            cut = pos + len(key)
            if cut < size and (split_blank_runs or body[cut] != " "):
                cuts.add(cut)
            pos = body.find(key, pos + 1)
    cuts = sorted(cuts)
    cap_first = limit - len(end_mark)
    cap_mid = limit - len(start_mark) - len(end_mark)
    cap_last = limit - len(start_mark)
    # A continuation line that holds nothing but blanks is only accepted for
    # statements (where the blanks may be part of a character literal).
    blank_ok = cls in ("statement", "other")
    reached = []
    for cut in cuts:
        if cut <= cap_first or any(
                cut - prev <= cap_mid and
                (blank_ok or body[prev:cut].strip()) for prev in reached):
            reached.append(cut)
    return any(size - cut <= cap_last and (blank_ok or body[cut:].strip())
               for cut in reached)


def wrappable(line, cls, limit):
    """None if no placement of break points after the documented break
    strings makes the line fit, else a word saying how it can be made to
    fit: ``fits``, ``fits-without-indentation``, ``breakable`` (every piece
    can start with a non-blank), ``breakable-around-blank-run`` (the same,
    and the line contains a run of 20 or more blanks) or
    ``breakable-only-in-blank-run`` (some continuation line has to start
    with blanks of the original line)."""
    bare = line.lstrip()
    if len(line) <= limit:
        return "fits"
    if len(bare) <= limit:
        return "fits-without-indentation"
    if _breakable(line, cls, limit, False) or \
            _breakable(bare, cls, limit, False):
        if " " * 20 in bare:
            return "breakable-around-blank-run"
        return "breakable"
    if _breakable(line, cls, limit) or _breakable(bare, cls, limit):
        return "breakable-only-in-blank-run"
    return None


# ---------------------------------------------------------------------------
# compilation context of a line (for the gfortran cross-check)
# ---------------------------------------------------------------------------
SUPPORT_MODULE = f"""module c18_m
  implicit none
  type :: node_type
    integer :: val
    type(node_type), pointer :: nxt => null()
    type(node_type), pointer :: next_one => null()
    type(node_type), pointer :: {LONG_COMPONENT} => null()
  contains
    procedure, nopass :: bound
  end type node_type
  real :: mv
contains
  subroutine bound()
  end subroutine bound
end module c18_m
"""


def unit(head, text, number):
    """A module that contains ``text`` (the line, possibly wrapped over
    several physical lines) in a context in which it is valid."""
    ctx = HEADS[head][6]
    if ctx == "subr":
        # The line itself is the subroutine statement: a module per unit
        # keeps the (fixed) subroutine name local.
        return (f"module mu{number}\ncontains\n{text}\n"
                f"end subroutine sub_name\nend module mu{number}\n")
    pre, post = {
        "decl": ("", ""),
        "decl_t": ("use c18_m, only: node_type\n", ""),
        "exec": ("external sub_name\n", ""),
        "char": ("implicit character(len=8) (a-z)\n", ""),
        "if": ("", "end if\n"),
        "struct": ("use c18_m, only: node_type\n"
                   "type(node_type), pointer :: ptr\n", ""),
        "omp": ("", "do idx_loop = 1, 2\nend do\n!$omp end parallel do\n"),
        "acc_kernels": ("", "res = 1\n!$acc end kernels\n"),
        "acc_exec": ("", ""),
    }[ctx]
    return (f"subroutine us{number}(sub_name)\n{pre}{text}\n{post}"
            f"end subroutine us{number}\n")
