"""C19, thorough tier: compile and run the test harness that PSyAD generates
(``create_test=True``) together with the tangent-linear and adjoint modules.

The three texts are compiled exactly as written.  The harness initialises its
data with the ``random_number`` intrinsic, which gfortran seeds differently in
every process; to make the verdict reproducible the two libgfortran entry
points behind ``random_number`` for default reals are defined in a small C
object that is linked in front of libgfortran: a fixed linear congruential
sequence of multiples of 1/16 in (0, 1).
"""
import os
import shutil
import subprocess

RANDOM_C = r"""
#include <stddef.h>
/* gfortran (>= 8) array descriptor */
typedef struct { ptrdiff_t stride, lbound, ubound; } dim_t;
typedef struct { size_t elem_len; int version; signed char rank, type;
                 short attribute; } dtype_t;
typedef struct { void *base; size_t offset; dtype_t dtype; ptrdiff_t span;
                 dim_t dim[7]; } desc_t;
static unsigned long state = 12345u;
static float nextv(void) {
  state = (state * 1103515245u + 12345u) & 0x7fffffffu;
  return (float)(1 + ((state >> 8) % 15)) / 16.0f;
}
void _gfortran_random_r4(float *x) { *x = nextv(); }
static void fill(desc_t *d, int r, float *p) {
  ptrdiff_t n = d->dim[r].ubound - d->dim[r].lbound + 1, i;
  for (i = 0; i < n; i++) {
    float *q = p + i * d->dim[r].stride;
    if (r == 0) *q = nextv(); else fill(d, r - 1, q);
  }
}
void _gfortran_arandom_r4(desc_t *d) {
  if (d->dtype.rank > 0) fill(d, d->dtype.rank - 1, (float *)d->base);
}
"""

FFLAGS = ["-O0", "-fcheck=bounds"]


class HarnessToolError(Exception):
    """gcc/gfortran are not usable: a harness error, never a verdict."""


def build_random_object(workdir):
    """Compile the deterministic random_number replacement once."""
    src = os.path.join(workdir, "c19_random.c")
    obj = os.path.join(workdir, "c19_random.o")
    with open(src, "w", encoding="utf-8") as fout:
        fout.write(RANDOM_C)
    proc = subprocess.run(["gcc", "-c", "-O1", src, "-o", obj],
                          capture_output=True, text=True, check=False)
    if proc.returncode != 0 or not os.path.exists(obj):
        raise HarnessToolError(f"gcc failed: {proc.stderr[:500]}")
    # self-test: the replacement must be picked up and be reproducible
    test = os.path.join(workdir, "c19_random_test.f90")
    with open(test, "w", encoding="utf-8") as fout:
        fout.write("program t\n real :: x\n real :: a(0:2,2)\n"
                   " call random_number(x)\n call random_number(a)\n"
                   " write(*,'(7F8.4)') x, a\nend program t\n")
    exe = os.path.join(workdir, "c19_random_test.x")
    proc = subprocess.run(["gfortran", test, obj, "-o", exe],
                          capture_output=True, text=True, check=False)
    if proc.returncode != 0:
        raise HarnessToolError(f"gfortran failed: {proc.stderr[:500]}")
    out = subprocess.run([exe], capture_output=True, text=True, check=False)
    want = "  0.6875  0.5000  0.3750  0.2500  0.3750  0.2500  0.8750"
    if out.stdout.rstrip("\n") != want:
        raise HarnessToolError(f"random_number replacement not effective: "
                               f"{out.stdout!r}")
    return obj


def run_harness(workdir, random_obj, tl_src, ad_src, test_src, tag="h"):
    """-> (outcome, detail) with outcome in
    'passed' | 'failed' | 'compile-error' | 'runtime-error' | 'no-verdict'."""
    sub = os.path.join(workdir, tag)
    shutil.rmtree(sub, ignore_errors=True)
    os.makedirs(sub)
    try:
        names = []
        for name, text in (("tl.f90", tl_src), ("adj.f90", ad_src),
                           ("harness.f90", test_src)):
            with open(os.path.join(sub, name), "w", encoding="utf-8") as fout:
                fout.write(text)
            names.append(name)
        proc = subprocess.run(["gfortran"] + FFLAGS + names +
                              [random_obj, "-o", "harness.x"], cwd=sub,
                              capture_output=True, text=True, check=False,
                              timeout=300)
        if proc.returncode != 0:
            lines = [ln for ln in proc.stderr.split("\n") if "Error" in ln]
            return "compile-error", (lines[0] if lines else proc.stderr[:300])
        try:
            run = subprocess.run(["./harness.x"], cwd=sub, capture_output=True,
                                 text=True, check=False, timeout=120)
        except subprocess.TimeoutExpired:
            return "runtime-error", "timeout"
        text = run.stdout
        if run.returncode != 0:
            err = [ln for ln in run.stderr.split("\n") if ln.strip()]
            return "runtime-error", " / ".join(err[:3])[:300]
        if "PASSED" in text:
            return "passed", " ".join(text.split())[:200]
        if "FAILED" in text:
            return "failed", " ".join(text.split())[:200]
        return "no-verdict", text[:200]
    finally:
        shutil.rmtree(sub, ignore_errors=True)
