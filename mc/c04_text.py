"""C04 helper: an independent, text-level reading of free-form Fortran as the
FortranWriter (and the declaration corpus) produce it.

Nothing of PSyclone or fparser is used here.  Three services:

* ``parse(text)``        -> list of program units (module / program / subroutine /
                            function, nested through CONTAINS) with their USE
                            statements, declarations (in order, with the names each
                            declaration depends on) and referenced names;
* ``check(text)``        -> list of problems: a name declared / imported more than
                            once in one unit, a referenced name that is neither
                            declared, imported nor host associated, a declaration
                            that depends on an entity declared on a later line;
* ``alpha_compare(a, b)``-> whether two texts are equal up to a per-unit bijective
                            renaming of identifiers (used to detect captured
                            references: see mc/checks/c04.py).

The reader is deliberately simple: it understands the statement shapes that occur
in the corpus and in writer output, and raises ``TextHarnessError`` on anything it
cannot classify, so that nothing is guessed.
"""
import re


class TextHarnessError(Exception):
    """The text reader met something it does not understand."""


# ---------------------------------------------------------------------------
# lexical level
# ---------------------------------------------------------------------------
_IDENT = re.compile(r"[a-z][a-z0-9_]*")
_NUM_KIND = re.compile(
    r"(?<![a-z0-9_])(?:\d+\.?\d*|\.\d+)(?:[ed][+-]?\d+)?_([a-z][a-z0-9_]*)")
_NUMBER = re.compile(
    r"(?<![a-z0-9_])(?:\d+\.?\d*|\.\d+)(?:[ed][+-]?\d+)?(?:_\d+)?")
_DOTTED = re.compile(r"\.[a-z]+\.")

TYPE_KEYWORDS = ("integer", "real", "double precision", "doubleprecision",
                 "complex", "logical", "character", "type(", "class(",
                 "procedure(")

ATTR_WORDS = {
    "parameter", "dimension", "intent", "in", "out", "inout", "allocatable",
    "pointer", "target", "save", "optional", "public", "private", "protected",
    "value", "contiguous", "external", "intrinsic", "volatile",
    "asynchronous", "bind", "c", "kind", "len", "codimension", "nopass",
    "pass", "deferred", "non_overridable", "abstract", "extends", "sequence",
}

STMT_WORDS = {
    "do", "end", "enddo", "endif", "endwhere", "if", "then", "else", "elseif",
    "call", "where", "elsewhere", "select", "case", "default", "print",
    "write", "read", "allocate", "deallocate", "return", "stop", "exit",
    "cycle", "continue", "while", "block", "goto", "go", "to", "open",
    "close", "inquire", "nullify", "forall", "concurrent", "associate",
    "format", "endselect", "endblock", "error", "rewind", "backspace",
    "flush", "wait", "sync", "all", "images", "critical", "null",
}

# names that never need a declaration: intrinsic procedures (F2008 + the usual
# extensions that appear in the corpus)
INTRINSICS = set("""
abs achar acos acosh adjustl adjustr aimag aint all allocated anint any asin
asinh associated atan atan2 atanh bessel_j0 bessel_j1 bessel_jn bessel_y0
bessel_y1 bessel_yn bge bgt bit_size ble blt btest ceiling char cmplx
command_argument_count conjg cos cosh count cpu_time cshift date_and_time dble
digits dim dot_product dprod dshiftl dshiftr eoshift epsilon erf erfc
erfc_scaled execute_command_line exp exponent extends_type_of findloc floor
fraction gamma get_command get_command_argument get_environment_variable huge
hypot iachar iall iand iany ibclr ibits ibset ichar ieor image_index index int
ior iparity is_contiguous is_iostat_end is_iostat_eor ishft ishftc kind lbound
lcobound leadz len len_trim lge lgt lle llt log log10 log_gamma logical maskl
maskr matmul max maxexponent maxloc maxval merge merge_bits min minexponent
minloc minval mod modulo move_alloc mvbits nearest new_line nint norm2 not
null num_images pack parity popcnt poppar precision present product radix
random_number random_seed range real repeat reshape rrspacing same_type_as
scale scan selected_char_kind selected_int_kind selected_real_kind set_exponent
shape shifta shiftl shiftr sign sin sinh size spacing spread sqrt storage_size
sum system_clock tan tanh this_image tiny trailz transfer transpose trim ubound
ucobound unpack verify float dfloat sngl iabs dabs dsqrt dexp dlog dsin dcos
amax1 amin1 max0 min0 idint ifix isign dsign
""".split())


def _strip_strings(line):
    """Replaces character literals by '' and cuts a trailing comment.
    Returns (code, comment-or-None)."""
    out = []
    quote = None
    idx = 0
    while idx < len(line):
        char = line[idx]
        if quote:
            if char == quote:
                if idx + 1 < len(line) and line[idx + 1] == quote:
                    idx += 2
                    continue
                quote = None
                out.append("''")
            idx += 1
            continue
        if char in "'\"":
            quote = char
            idx += 1
            continue
        if char == "!":
            return "".join(out), line[idx:]
        out.append(char)
        idx += 1
    return "".join(out), None


def logical_lines(text):
    """-> list of (first line number, kind, code) where kind is 'code' or
    'directive'; comments and blank lines are dropped, continuation lines
    joined, everything lower-cased, character literals emptied."""
    out = []
    pending = None
    for lineno, raw in enumerate(text.split("\n"), start=1):
        stripped = raw.strip()
        if not stripped:
            continue
        low = stripped.lower()
        if low.startswith("!$omp") or low.startswith("!$acc"):
            if pending is None:
                out.append((lineno, "directive", low))
                continue
        if stripped.startswith("#"):
            continue
        code, _comment = _strip_strings(stripped)
        code = code.strip().lower()
        if not code:
            continue
        if pending is not None:
            if code.startswith("&"):
                code = code[1:].lstrip()
            first, sofar = pending
            code = sofar + " " + code
            lineno_first = first
        else:
            lineno_first = lineno
        if code.endswith("&"):
            pending = (lineno_first, code[:-1].rstrip())
            continue
        pending = None
        # several statements on one line
        for part in _split_top(code, ";"):
            part = part.strip()
            if part:
                out.append((lineno_first, "code", part))
    if pending is not None:
        raise TextHarnessError("dangling continuation line")
    return out


def _split_top(text, sep):
    """Splits at separators that are not inside parentheses / brackets."""
    parts = []
    depth = 0
    cur = []
    idx = 0
    while idx < len(text):
        char = text[idx]
        if char in "([":
            depth += 1
        elif char in ")]":
            depth -= 1
        if depth == 0 and text.startswith(sep, idx):
            parts.append("".join(cur))
            cur = []
            idx += len(sep)
            continue
        cur.append(char)
        idx += 1
    parts.append("".join(cur))
    return parts


def idents(code, keep_members=False):
    """Identifiers referenced in a piece of code, in order: kind suffixes of
    literals are kept, numbers / dotted operators / component names after '%' /
    keyword names of keyword arguments (``name=`` inside parentheses) are
    dropped."""
    found = []
    kinds = [(m.start(), m.group(1)) for m in _NUM_KIND.finditer(code)]
    code2 = _NUM_KIND.sub(lambda m: " " * len(m.group(0)), code)
    code2 = _NUMBER.sub(lambda m: " " * len(m.group(0)), code2)
    code2 = _DOTTED.sub(lambda m: " " * len(m.group(0)), code2)
    depth_at = []
    depth = 0
    for char in code2:
        if char in "([":
            depth += 1
        elif char in ")]":
            depth -= 1
        depth_at.append(depth)
    for mat in _IDENT.finditer(code2):
        start, stop = mat.span()
        before = code2[:start].rstrip()
        if before.endswith("%") and not keep_members:
            continue
        after = code2[stop:].lstrip()
        if depth_at[start] > 0 and after.startswith("=") and \
                not after.startswith("==") and not after.startswith("=>"):
            # keyword argument / implied-do variable
            continue
        found.append((start, mat.group(0)))
    found += kinds
    found.sort()
    return [name for _pos, name in found]


# ---------------------------------------------------------------------------
# program units
# ---------------------------------------------------------------------------
class Decl:
    """One declared entity."""
    def __init__(self, name, line, seq, deps, kind, soft=()):
        self.name = name
        self.line = line          # line number of the statement
        self.seq = seq            # position in declaration order of the unit
        self.deps = list(deps)    # names its kind / bounds / initial value use
        self.kind = kind          # var | type | interface | procedure | enum
        self.soft = set(soft)     # deps that may be declared later (pointers)


class Unit:
    def __init__(self, kind, name, line, parent=None):
        self.kind = kind
        self.name = name
        self.line = line
        self.parent = parent
        self.children = []
        self.args = []
        self.result = None
        self.header_typed = False
        self.uses = []        # (line, module, wildcard, [(local, remote)])
        self.decls = []       # Decl, in order
        self.attr_refs = []   # (line, name): names in attribute statements
        self.refs = []        # (line, name): executable part
        self.calls = set()    # names used as CALL targets
        self.implicit_none = False
        self.first_line = line
        self.last_line = line

    def declared(self):
        out = {}
        for dcl in self.decls:
            out.setdefault(dcl.name, []).append(dcl)
        return out

    def walk(self):
        yield self
        for child in self.children:
            yield from child.walk()


_UNIT_START = re.compile(
    r"^(?P<prefix>(?:(?:pure|elemental|impure|recursive|module|"
    r"integer|real|logical|complex|double\s*precision|character"
    r")(?:\s*\([^)]*\))?\s+)*)"
    r"(?P<kind>subroutine|function)\s+(?P<name>[a-z]\w*)\s*"
    r"(?:\((?P<args>[^)]*)\))?\s*(?P<rest>.*)$")
_TYPE_DEF = re.compile(
    r"^type\s*(?:,(?P<attrs>[^:]*))?(?:::)?\s*(?P<name>[a-z]\w*)$")
_END = re.compile(r"^end\s*(module|program|subroutine|function|type|interface|"
                  r"enum|block|do|if|where|select|associate)?\b\s*([a-z]\w*)?")


def _type_spec_end(code):
    """Length of the leading type-spec of a declaration statement or 0."""
    for key in TYPE_KEYWORDS:
        if code.startswith(key):
            if key.endswith("("):
                pos = len(key) - 1
            else:
                pos = len(key)
                nxt = code[pos:pos + 1]
                if nxt and (nxt.isalnum() or nxt == "_"):
                    continue
                rest = code[pos:].lstrip()
                pos = len(code) - len(rest)
                if rest.startswith("*") and not key.endswith("("):
                    # real*8, character*10
                    mat = re.match(r"\*\s*(\d+|\([^)]*\))", rest)
                    if mat:
                        return pos + mat.end()
                if not rest.startswith("("):
                    return pos
            depth = 0
            for idx in range(pos, len(code)):
                if code[idx] == "(":
                    depth += 1
                elif code[idx] == ")":
                    depth -= 1
                    if depth == 0:
                        return idx + 1
            raise TextHarnessError(f"unbalanced type-spec in '{code}'")
    return 0


def _is_declaration(code):
    if code.startswith(("type(", "class(", "procedure(")):
        return True
    end = _type_spec_end(code)
    if not end:
        return False
    rest = code[end:].lstrip()
    if rest.startswith("function"):
        return False
    return bool(rest) and (rest[0] in ",:" or rest[0].isalpha())


def _parse_entities(text):
    """'a(n), b = 3, c*4' -> [(name, dependency code, is_pointer_init)]"""
    out = []
    for ent in _split_top(text, ","):
        ent = ent.strip()
        if not ent:
            continue
        mat = re.match(r"^([a-z]\w*)\s*(.*)$", ent)
        if not mat:
            raise TextHarnessError(f"cannot read entity '{ent}'")
        out.append((mat.group(1), mat.group(2)))
    return out


def _decl_statement(unit, line, code, in_type=None):
    """Parses one type declaration statement into Decl objects (or, inside a
    derived-type definition, returns the names the component depends on)."""
    end = _type_spec_end(code)
    spec = code[:end]
    rest = code[end:].strip()
    if "::" in rest:
        attrs, ents = _split_top(rest, "::")[0], "::".join(
            _split_top(rest, "::")[1:])
    else:
        attrs, ents = "", rest
    spec_names = [n for n in idents(spec)
                  if n not in ATTR_WORDS and n not in
                  ("integer", "real", "double", "precision", "doubleprecision",
                   "complex", "logical", "character", "type", "class",
                   "procedure")]
    attr_list = [a.strip() for a in _split_top(attrs, ",") if a.strip()]
    attr_names = []
    attr_keys = set()
    for attr in attr_list:
        word = re.match(r"[a-z_]+", attr).group(0)
        attr_keys.add(word)
        if word in ("dimension", "codimension"):
            attr_names += idents(attr[len(word):])
    soft = set()
    if (code.startswith(("type(", "class(", "procedure("))
            and ("pointer" in attr_keys or "allocatable" in attr_keys)):
        soft = set(spec_names)
    common = spec_names + attr_names
    result = []
    for name, tail in _parse_entities(ents):
        deps = common + [n for n in idents(tail) if n != name]
        result.append((name, deps, soft))
    if in_type is not None:
        return result
    for name, deps, soft in result:
        kind = "procedure" if code.startswith("procedure(") else "var"
        unit.decls.append(Decl(name, line, len(unit.decls), deps, kind, soft))
    return result


def parse(text):
    """-> list of top-level Units."""
    lines = logical_lines(text)
    top = []
    stack = []          # open units
    idx = 0

    def cur():
        return stack[-1] if stack else None

    in_spec = {}        # unit id -> still in specification part

    while idx < len(lines):
        line, kind, code = lines[idx]
        idx += 1
        unit = cur()
        if kind == "directive":
            continue
        # ---- unit boundaries ------------------------------------------
        mat = re.match(r"^(module|program)\s+([a-z]\w*)$", code)
        if mat and not code.startswith("module procedure"):
            new = Unit(mat.group(1), mat.group(2), line, unit)
            (unit.children if unit else top).append(new)
            stack.append(new)
            in_spec[id(new)] = True
            continue
        mat = _UNIT_START.match(code)
        if mat and not _is_declaration_not_function(code):
            new = Unit(mat.group("kind"), mat.group("name"), line, unit)
            args = mat.group("args") or ""
            new.args = [a.strip() for a in args.split(",") if a.strip()]
            rest = mat.group("rest") or ""
            res = re.search(r"result\s*\(\s*([a-z]\w*)\s*\)", rest)
            if res:
                new.result = res.group(1)
            prefix = mat.group("prefix") or ""
            if re.search(r"\b(integer|real|logical|complex|double|character)",
                         prefix):
                new.header_typed = True
                new.header_deps = [n for n in idents(prefix) if n not in (
                    "pure", "elemental", "impure", "recursive", "module",
                    "integer", "real", "logical", "complex", "double",
                    "precision", "character", "kind", "len")]
            (unit.children if unit else top).append(new)
            stack.append(new)
            in_spec[id(new)] = True
            continue
        if unit is None:
            raise TextHarnessError(f"statement outside any unit: '{code}'")
        mat = _END.match(code)
        if mat and (mat.group(1) in ("module", "program", "subroutine",
                                     "function") or code == "end"):
            unit.last_line = line
            stack.pop()
            continue
        if code == "contains":
            in_spec[id(unit)] = False
            continue
        if not in_spec[id(unit)]:
            if re.match(r"^([a-z]\w*\s*:\s*)?block$", code):
                idx = _block_construct(unit, lines, idx)
                continue
            _exec_statement(unit, line, code)
            continue
        # ---- specification part ------------------------------------------
        if code.startswith("use ") or code.startswith("use,"):
            _use_statement(unit, line, code)
            continue
        if code.startswith("implicit"):
            unit.implicit_none = code.replace(" ", "") == "implicitnone"
            continue
        if code.startswith("import"):
            continue
        mat = re.match(r"^(abstract\s+)?interface\b\s*(.*)$", code)
        if mat:
            idx = _interface_block(unit, line, mat.group(2).strip(), lines, idx)
            continue
        mat = _TYPE_DEF.match(code)
        if mat and not code.startswith("type("):
            idx = _type_block(unit, line, mat, lines, idx)
            continue
        if code.startswith("enum"):
            idx = _enum_block(unit, line, lines, idx)
            continue
        if _is_declaration(code):
            _decl_statement(unit, line, code)
            continue
        if _attribute_statement(unit, line, code):
            continue
        if unit.kind == "module":
            raise TextHarnessError(
                f"unclassified statement in module specification part: "
                f"'{code}'")
        # first executable statement
        in_spec[id(unit)] = False
        if re.match(r"^([a-z]\w*\s*:\s*)?block$", code):
            idx = _block_construct(unit, lines, idx)
            continue
        _exec_statement(unit, line, code)
    if stack:
        raise TextHarnessError(f"unit '{stack[-1].name}' is not closed")
    return top


def _block_construct(unit, lines, idx):
    """BLOCK ... END BLOCK (only ever written verbatim from a CodeBlock): the
    entities declared inside are local to the construct; every other name is a
    reference of the enclosing unit."""
    local = Unit("block", "block", lines[idx - 1][0], None)
    depth = 1
    while idx < len(lines):
        lno, kind, code = lines[idx]
        idx += 1
        if kind != "code":
            continue
        if re.match(r"^([a-z]\w*\s*:\s*)?block$", code):
            depth += 1
            continue
        if re.match(r"^end\s*block\b", code):
            depth -= 1
            if depth == 0:
                names = set(d.name for d in local.decls)
                for dcl in local.decls:
                    for dep in dcl.deps:
                        if dep not in names:
                            unit.refs.append((dcl.line, dep))
                for lno2, name in local.refs:
                    if name not in names:
                        unit.refs.append((lno2, name))
                unit.calls |= local.calls
                return idx
            continue
        if _is_declaration(code):
            _decl_statement(local, lno, code)
        else:
            _exec_statement(local, lno, code)
    raise TextHarnessError("block construct is not closed")


def _is_declaration_not_function(code):
    """'real function f(x)' is a unit start, 'real :: function_x' is not."""
    if "::" in code:
        head = _split_top(code, "::")[0]
        return "function" not in head.split() and "subroutine" not in \
            head.split()
    return False


_GENERIC_SPEC = re.compile(r"^(operator|assignment|read|write)\s*\(")


def _use_statement(unit, line, code):
    mat = re.match(r"^use\s*(?:,\s*(?:non_)?intrinsic\s*)?(?:::)?\s*"
                   r"([a-z]\w*)\s*(.*)$", code)
    if not mat:
        raise TextHarnessError(f"cannot read '{code}'")
    module, rest = mat.group(1), mat.group(2).strip()
    names = []
    wildcard = True
    if rest.startswith(","):
        rest = rest[1:].strip()
        omat = re.match(r"^only\s*:\s*(.*)$", rest)
        if omat:
            wildcard = False
            rest = omat.group(1)
        for item in _split_top(rest, ","):
            item = item.strip()
            if not item:
                continue
            if "=>" in item:
                local, remote = [x.strip() for x in item.split("=>", 1)]
            else:
                local = remote = item
            if _GENERIC_SPEC.match(local):
                continue
            names.append((local, remote))
    elif rest:
        raise TextHarnessError(f"cannot read '{code}'")
    unit.uses.append((line, module, wildcard, names))


def _interface_block(unit, line, name, lines, idx):
    """Consumes lines up to END INTERFACE.  Declares the generic name and the
    procedures that have interface bodies; module procedures are references."""
    if name and not _GENERIC_SPEC.match(name):
        unit.decls.append(Decl(name, line, len(unit.decls), [], "interface"))
    depth = 0
    while idx < len(lines):
        lno, kind, code = lines[idx]
        idx += 1
        if kind != "code":
            continue
        if re.match(r"^end\s*interface\b", code):
            return idx
        mat = _UNIT_START.match(code)
        if mat and not _is_declaration_not_function(code):
            if depth == 0:
                unit.decls.append(Decl(mat.group("name"), lno,
                                       len(unit.decls), [], "procedure"))
            depth += 1
            continue
        if re.match(r"^end\s*(subroutine|function)\b", code) or code == "end":
            depth -= 1
            continue
        if depth == 0:
            mat = re.match(r"^(?:module\s+)?procedure\s*(?:::)?\s*(.*)$", code)
            if mat:
                for name2 in _split_top(mat.group(1), ","):
                    unit.attr_refs.append((lno, name2.strip()))
                continue
            raise TextHarnessError(f"cannot read '{code}' in interface block")
    raise TextHarnessError("interface block is not closed")


def _type_block(unit, line, mat, lines, idx):
    name = mat.group("name")
    deps = []
    soft = set()
    attrs = mat.group("attrs") or ""
    ext = re.search(r"extends\s*\(\s*([a-z]\w*)\s*\)", attrs)
    if ext:
        deps.append(ext.group(1))
    in_bound = False
    while idx < len(lines):
        lno, kind, code = lines[idx]
        idx += 1
        if kind != "code":
            continue
        if re.match(r"^end\s*type\b", code):
            dcl = Decl(name, line, len(unit.decls), deps, "type", soft)
            unit.decls.append(dcl)
            return idx
        if code == "contains":
            in_bound = True
            continue
        if code in ("private", "public", "sequence"):
            continue
        if in_bound:
            # procedure [(iface)] [, attrs] :: a => b, c ; generic :: g => a, b
            body = code.split("::", 1)[1] if "::" in code else \
                re.sub(r"^(procedure|generic|final)\b", "", code)
            for item in _split_top(body, ","):
                item = item.strip()
                tgt = item.split("=>", 1)[1].strip() if "=>" in item else item
                if tgt and code.startswith(("procedure", "final")):
                    unit.attr_refs.append((lno, tgt))
            continue
        if _is_declaration(code):
            for cname, cdeps, csoft in _decl_statement(unit, lno, code,
                                                       in_type=name):
                for dep in cdeps:
                    if dep == name or dep == cname:
                        continue
                    deps.append(dep)
                    if dep in csoft:
                        soft.add(dep)
            continue
        raise TextHarnessError(f"cannot read '{code}' in type definition")
    raise TextHarnessError("type definition is not closed")


def _enum_block(unit, line, lines, idx):
    while idx < len(lines):
        lno, kind, code = lines[idx]
        idx += 1
        if kind != "code":
            continue
        if re.match(r"^end\s*enum\b", code):
            return idx
        mat = re.match(r"^enumerator\s*(?:::)?\s*(.*)$", code)
        if not mat:
            raise TextHarnessError(f"cannot read '{code}' in enum")
        for name, tail in _parse_entities(mat.group(1)):
            unit.decls.append(Decl(name, lno, len(unit.decls),
                                   idents(tail), "enum"))
    raise TextHarnessError("enum is not closed")


_ATTR_STMT = re.compile(
    r"^(public|private|protected|save|optional|external|intrinsic|volatile|"
    r"asynchronous|target|pointer|allocatable|contiguous|value|dimension|"
    r"intent\s*\([^)]*\)|bind\s*\([^)]*\))\b\s*(?:::)?\s*(.*)$")


def _attribute_statement(unit, line, code):
    """Statements of the specification part that give attributes to names
    declared elsewhere.  Returns True when the statement was one of them."""
    mat = _ATTR_STMT.match(code)
    if mat:
        word, rest = mat.group(1), mat.group(2).strip()
        for item in _split_top(rest, ","):
            item = item.strip()
            if not item or item.startswith("/") or _GENERIC_SPEC.match(item):
                continue
            name = re.match(r"[a-z]\w*", item)
            if not name:
                raise TextHarnessError(f"cannot read '{code}'")
            if word == "external":
                unit.decls.append(Decl(name.group(0), line, len(unit.decls),
                                       [], "procedure"))
            elif word == "intrinsic":
                continue
            else:
                unit.attr_refs.append((line, name.group(0)))
                for dep in idents(item[name.end():]):
                    unit.attr_refs.append((line, dep))
        return True
    if code.startswith("parameter"):
        body = code[len("parameter"):].strip()
        if not (body.startswith("(") and body.endswith(")")):
            raise TextHarnessError(f"cannot read '{code}'")
        for item in _split_top(body[1:-1], ","):
            for name in idents(item.replace("=", " = ")):
                unit.attr_refs.append((line, name))
        return True
    if code.startswith(("common", "namelist")):
        body = re.sub(r"/[^/]*/", ",", code.split(None, 1)[1]
                      if " " in code else "")
        body = re.sub(r"^(common|namelist)", "", body)
        for name in idents(body):
            unit.attr_refs.append((line, name))
        return True
    if code.startswith("data ") or code.startswith("equivalence"):
        body = code.split(None, 1)[1] if " " in code else ""
        body = re.sub(r"/[^/]*/", " ", body)
        for name in idents(body):
            unit.attr_refs.append((line, name))
        return True
    if re.match(r"^\d+\s+format\b", code) or code.startswith("format"):
        return True
    return False


def _exec_statement(unit, line, code):
    code = re.sub(r"^\d+\s+", "", code)         # statement label
    if re.match(r"^(\d+\s+)?format\s*\(", code):
        return
    # construct names  'outer: do'
    code = re.sub(r"^[a-z]\w*\s*:\s*(?=(do|if|select|where|block|associate)\b)",
                  "", code)
    cmat = re.match(r"^call\s+([a-z]\w*)\s*(\(|$)", code)
    if cmat:
        unit.calls.add(cmat.group(1))
    if re.match(r"^(write|read|print|open|close|inquire|rewind|backspace|"
                r"flush)\b", code):
        # control lists: unit=, fmt=, iostat= ... are keyword arguments and
        # dropped by idents(); a bare format label is a number
        pass
    for name in idents(code):
        if name in STMT_WORDS:
            continue
        unit.refs.append((line, name))


# ---------------------------------------------------------------------------
# the checker
# ---------------------------------------------------------------------------
class Problem:
    def __init__(self, kind, name, unit, detail, line=None, other=None):
        self.kind = kind
        self.name = name
        self.unit = unit
        self.detail = detail
        self.line = line
        self.other = other

    def __repr__(self):
        return f"{self.kind}:{self.name}@{self.unit} ({self.detail})"


def _module_exports(mod):
    """Names a module makes available by use association (declared names,
    contained procedures and what it imports itself by name); None when the
    module has a wildcard import of a module we cannot see."""
    names = set(d.name for d in mod.decls)
    names |= set(ch.name for ch in mod.children)
    for _line, _module, _wild, items in mod.uses:
        names |= set(local for local, _remote in items)
    return names


def check(text, known_modules=None):
    """-> (list of Problem, info dict).  ``known_modules``: {name: set of
    exported names} for modules that are not defined in the text."""
    units = parse(text)
    modules = dict(known_modules or {})
    open_modules = set()
    for top in units:
        if top.kind == "module":
            modules[top.name] = _module_exports(top)
    # modules that re-export a wildcard import of an unknown module export an
    # unknown set of names
    changed = True
    while changed:
        changed = False
        for top in units:
            if top.kind != "module" or top.name in open_modules:
                continue
            for _line, module, wild, _items in top.uses:
                if wild and (module not in modules or module in open_modules):
                    open_modules.add(top.name)
                    changed = True
                elif wild:
                    before = len(modules[top.name])
                    modules[top.name] |= modules[module]
                    changed = changed or len(modules[top.name]) != before
    problems = []
    n_decl = 0
    n_refs = 0
    for top in units:
        for unit in top.walk():
            n_decl += len(unit.decls)
            n_refs += len(unit.refs)
            problems += _check_unit(unit, modules, open_modules)
    return problems, {"units": sum(1 for t in units for _ in t.walk()),
                      "declarations": n_decl, "references": n_refs}


def _imports(unit, modules, open_modules):
    """-> (names imported by name {name: [(line, module)]}, names imported
    through resolvable wildcards, unresolvable wildcard present?)"""
    by_name = {}
    wild_names = set()
    unknown = False
    for line, module, wild, items in unit.uses:
        for local, _remote in items:
            by_name.setdefault(local, []).append((line, module))
        if wild:
            if module in modules and module not in open_modules:
                renamed = set(remote for _local, remote in items)
                wild_names |= (modules[module] - renamed)
            else:
                unknown = True
    return by_name, wild_names, unknown


def _check_unit(unit, modules, open_modules):
    problems = []
    declared = unit.declared()
    by_name, wild_names, unknown = _imports(unit, modules, open_modules)
    uname = f"{unit.kind} {unit.name}"

    # -- exactly once ---------------------------------------------------------
    for name, dcls in declared.items():
        if len(dcls) > 1:
            problems.append(Problem(
                "declared-twice", name, uname,
                f"'{name}' is declared {len(dcls)} times (lines "
                f"{', '.join(str(d.line) for d in dcls)})", dcls[1].line))
        if name in by_name:
            problems.append(Problem(
                "declared-and-imported", name, uname,
                f"'{name}' is declared on line {dcls[0].line} and imported "
                f"from '{by_name[name][0][1]}'", dcls[0].line))
    for name, where in by_name.items():
        if len(where) > 1:
            mods = sorted(set(m for _l, m in where))
            kind = "imported-twice" if len(mods) == 1 else \
                "imported-from-two-modules"
            problems.append(Problem(
                kind, name, uname,
                f"'{name}' is imported {len(where)} times (from "
                f"{', '.join(mods)})", where[1][0]))

    # -- everything referenced is declared / imported / host associated ----------
    def visible(name, start):
        """Is the name known in `start` or one of its hosts?  -> True, False
        or None (an unresolvable wildcard import could provide it)."""
        maybe = False
        scope = start
        while scope is not None:
            s_by, s_wild, s_unknown = (by_name, wild_names, unknown) \
                if scope is unit else _imports(scope, modules, open_modules)
            s_decl = declared if scope is unit else scope.declared()
            if name in s_decl or name in s_by or name in s_wild:
                return True
            if any(ch.name == name for ch in scope.children):
                return True
            if scope.name == name:
                return True
            if s_unknown:
                maybe = True
            scope = scope.parent
        return None if maybe else False

    own_names = set(declared)
    header = []
    if unit.kind in ("subroutine", "function"):
        header = [(unit.line, a) for a in unit.args]
        if unit.kind == "function":
            res = unit.result or unit.name
            if not unit.header_typed:
                header.append((unit.line, res))
    for line, name in header:
        if name not in own_names:
            problems.append(Problem(
                "undeclared", name, uname,
                f"dummy argument / result '{name}' has no declaration",
                line))
    seen = set()
    everything = [(ln, nm, "stmt") for ln, nm in unit.refs] + \
        [(ln, nm, "attr") for ln, nm in unit.attr_refs]
    for dcl in unit.decls:
        everything += [(dcl.line, dep, "decl") for dep in dcl.deps]
    for line, name, _where in everything:
        if name in seen or name in INTRINSICS:
            continue
        seen.add(name)
        vis = visible(name, unit)
        if vis is False:
            if name in unit.calls:
                # an external subroutine needs no declaration
                continue
            problems.append(Problem(
                "undeclared", name, uname,
                f"'{name}' (line {line}) is neither declared, imported nor "
                f"host associated", line))

    # -- declare before use in declarations ------------------------------------
    pos = {}
    for dcl in unit.decls:
        pos.setdefault(dcl.name, dcl.seq)
    for dcl in unit.decls:
        for dep in dcl.deps:
            if dep in INTRINSICS and dep not in pos:
                continue
            if dep not in pos:
                continue            # imported / host: always earlier
            if dep in dcl.soft:
                continue
            other = unit.decls[pos[dep]]
            if other.kind in ("procedure", "interface"):
                continue
            if pos[dep] > dcl.seq:
                problems.append(Problem(
                    "declared-after-use", dep, uname,
                    f"the declaration of '{dcl.name}' (line {dcl.line}) uses "
                    f"'{dep}', which is declared later (line {other.line})",
                    dcl.line, other=dcl.name))
    if unit.kind == "function" and unit.header_typed:
        for dep in getattr(unit, "header_deps", []):
            if dep in pos:
                problems.append(Problem(
                    "declared-after-use", dep, uname,
                    f"the function statement of '{unit.name}' uses '{dep}', "
                    f"which is declared inside the function", unit.line,
                    other=unit.name))
    return problems


# ---------------------------------------------------------------------------
# equality up to renaming
# ---------------------------------------------------------------------------
_TOKEN = re.compile(r"[a-z][a-z0-9_]*|\d+|\S")


def _unit_lines(text):
    """-> list of (unit path, kind, code): every logical line with the name of
    the innermost program unit it belongs to."""
    out = []
    stack = []
    in_iface = 0
    for _line, kind, code in logical_lines(text):
        if kind == "code":
            if re.match(r"^(abstract\s+)?interface\b", code):
                in_iface += 1
            elif re.match(r"^end\s*interface\b", code):
                in_iface -= 1
            elif not in_iface:
                mat = re.match(r"^(module|program)\s+([a-z]\w*)$", code)
                umat = _UNIT_START.match(code)
                if mat and not code.startswith("module procedure"):
                    stack.append(mat.group(2))
                elif umat and not _is_declaration_not_function(code):
                    stack.append(umat.group("name"))
                    out.append(("/".join(stack), kind, code))
                    continue
                else:
                    emat = _END.match(code)
                    if emat and (emat.group(1) in (
                            "module", "program", "subroutine", "function")
                            or code == "end"):
                        out.append(("/".join(stack), kind, code))
                        stack.pop()
                        continue
        out.append(("/".join(stack), kind, code))
    return out


def _directive_tokens(code):
    """A directive as (head tokens, {clause: sorted names}): variable lists of
    clauses are sets, so their order (PSyclone sorts them by name) is not
    compared."""
    clauses = []
    def repl(mat):
        names = [n.strip() for n in mat.group(2).split(",")]
        clauses.append((mat.group(1), names))
        return f"{mat.group(1)}(#{len(clauses) - 1})"
    head = re.sub(r"([a-z_]+)\s*\(([^()]*)\)", repl, code)
    return _TOKEN.findall(head), clauses


def _is_decl_line(code):
    return code.startswith("use ") or _is_declaration(code)


def alpha_compare(text_a, text_b):
    """Compares two texts.  Returns a dict:
      {"status": "equal" | "renamed" | "structure" | "capture",
       "detail": ..., "map": {unit: {a-name: b-name}}}
    All lines that are not declarations are compared position by position and
    give the identifier correspondence of each program unit; "capture": the
    correspondence within one unit is not one-to-one (two different names of
    one text correspond to one name of the other).  Declaration lines (type
    declarations and USE statements) are compared per unit as multisets under
    that correspondence, so that their order does not matter; a name that only
    occurs in declarations matches any such name.  Any other difference is
    "structure" (no verdict)."""
    la, lb = _unit_lines(text_a), _unit_lines(text_b)
    fwd, bwd = {}, {}
    renamed = False
    later = []

    def bind(unit, one, two, code):
        nonlocal renamed
        umap = fwd.setdefault(unit, {})
        rmap = bwd.setdefault(unit, {})
        if umap.get(one, two) != two:
            return (f"'{one}' corresponds to both '{umap[one]}' and '{two}' "
                    f"in {unit} (at: {code})", one)
        if rmap.get(two, one) != one:
            return (f"'{rmap[two]}' and '{one}' both correspond to '{two}' "
                    f"in {unit} (at: {code})", one)
        umap[one] = two
        rmap[two] = one
        if one != two:
            renamed = True
        return None

    ea = [x for x in la if not (x[1] == "code" and _is_decl_line(x[2]))]
    eb = [x for x in lb if not (x[1] == "code" and _is_decl_line(x[2]))]
    if len(ea) != len(eb):
        return {"status": "structure",
                "detail": f"{len(ea)} vs {len(eb)} executable statements"}
    for (ua, ka, ca), (ub, kb, cb) in zip(ea, eb):
        if ka != kb or ua != ub:
            return {"status": "structure",
                    "detail": f"'{ca}' vs '{cb}'"}
        if ka == "directive":
            later.append((ua, ca, cb))
            continue
        ta, tb = _TOKEN.findall(ca), _TOKEN.findall(cb)
        if len(ta) != len(tb):
            return {"status": "structure", "detail": f"'{ca}' vs '{cb}'"}
        for one, two in zip(ta, tb):
            ida = bool(_IDENT.fullmatch(one))
            idb = bool(_IDENT.fullmatch(two))
            if ida != idb or (not ida and one != two):
                return {"status": "structure", "detail": f"'{ca}' vs '{cb}'"}
            if ida:
                bad = bind(ua, one, two, ca)
                if bad:
                    return {"status": "capture", "detail": bad[0],
                            "name": bad[1]}
    for unit, ca, cb in later:
        (ha, cla), (hb, clb) = _directive_tokens(ca), _directive_tokens(cb)
        if ha != hb or len(cla) != len(clb):
            return {"status": "structure", "detail": f"'{ca}' vs '{cb}'"}
        for (na, lista), (nb, listb) in zip(cla, clb):
            if na != nb or len(lista) != len(listb):
                return {"status": "structure", "detail": f"'{ca}' vs '{cb}'"}
            umap = fwd.get(unit, {})
            mapped = sorted(umap.get(n, n) for n in lista)
            if mapped != sorted(listb):
                # names first seen in a directive: not decidable here
                unknown = [n for n in lista if n not in umap]
                if unknown:
                    return {"status": "structure",
                            "detail": f"'{ca}' vs '{cb}'"}
                return {"status": "capture", "name": lista[0],
                        "detail": f"clause {na}({', '.join(lista)}) "
                                  f"corresponds to {nb}({', '.join(listb)}) "
                                  f"in {unit}"}
    # declarations: multisets per unit under the correspondence
    units = sorted(set(x[0] for x in la) | set(x[0] for x in lb))
    for unit in units:
        def shapes(lines, mapping):
            out = []
            for uni, kind, code in lines:
                if uni != unit or kind != "code" or not _is_decl_line(code):
                    continue
                toks = []
                for tok in _TOKEN.findall(code):
                    if _IDENT.fullmatch(tok):
                        toks.append(mapping.get(tok, "?"))
                    else:
                        toks.append(tok)
                out.append(" ".join(toks))
            return sorted(out)
        # a name keeps its meaning in the enclosing units
        umap, rmap = {}, {}
        parts = unit.split("/")
        for depth in range(1, len(parts) + 1):
            umap.update(fwd.get("/".join(parts[:depth]), {}))
            rmap.update(bwd.get("/".join(parts[:depth]), {}))
        sha = shapes(la, umap)
        shb = shapes(lb, {v: v for v in rmap})
        if sha != shb:
            diff = [x for x in sha if x not in shb][:1] + \
                [x for x in shb if x not in sha][:1]
            return {"status": "structure",
                    "detail": f"declarations of {unit} differ: {diff}"}
    return {"status": "renamed" if renamed else "equal", "detail": "",
            "map": fwd}
