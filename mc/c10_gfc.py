"""C10 helper: gfortran as the "OpenMP/OpenACC-aware Fortran compiler".

Many generated routines are put into one file (each renamed to a unique name),
compiled once with ``-fopenmp -fopenacc``; diagnostics are attributed to routines
through the line ranges.  Two passes are needed because gfortran diagnoses
directive *nesting* (work-sharing inside work-sharing, parallel inside kernels,
teams outside target, ...) only in the middle end, which it never reaches when the
front end reported an error anywhere in the file, and never with -fsyntax-only:

  pass A  -fsyntax-only          parse/resolve errors (collapse, clauses, syntax)
  pass B  -c -O0 (no link)       nesting errors, on the routines that passed A,
                                 repeated without the failing routines until the
                                 remaining file compiles cleanly.

Every routine for which a batch pass reported an error is re-compiled ALONE and
only the stand-alone diagnostics are used for the verdict, so one routine can
neither contaminate nor mask another.  Warnings and "sorry, unimplemented" (a
limitation of this compiler, not of the code) are never errors.
"""
import os
import re
import subprocess

GFORTRAN = "/usr/bin/gfortran"
FLAGS = ["-fopenmp", "-fopenacc", "-ffree-line-length-none",
         "-fno-diagnostics-show-caret", "-fdiagnostics-color=never"]

_LOC = re.compile(r"^(.*?):(\d+):(\d+):\s*(.*)$")
_KIND = re.compile(r"^(Fatal Error|Error|Warning|sorry, unimplemented|"
                   r"internal compiler error|note):\s*(.*)$")


class CompilerHarnessError(Exception):
    """gfortran could not be run or its output could not be understood."""


def _run(args, cwd):
    try:
        proc = subprocess.run([GFORTRAN] + FLAGS + args, cwd=cwd,
                              capture_output=True, text=True, timeout=600,
                              check=False)
    except (OSError, subprocess.TimeoutExpired) as err:
        raise CompilerHarnessError(f"cannot run gfortran: {err}") from err
    return proc.returncode, proc.stderr


def parse_diagnostics(stderr):
    """-> list of (line, kind, message).  Raises if stderr has lines that fit
    no known shape while the compiler failed (so nothing is guessed)."""
    out = []
    line_no = None
    for raw in stderr.splitlines():
        if not raw.strip():
            continue
        mat = _LOC.match(raw)
        if mat:
            line_no = int(mat.group(2))
            rest = mat.group(4)
            if not rest:
                continue
            raw = rest
        kind = _KIND.match(raw.strip())
        if kind:
            out.append((line_no, kind.group(1), kind.group(2).strip()))
            continue
        if raw.startswith("compilation terminated") or \
                raw.startswith("f951:") or "In function" in raw or \
                raw.lstrip().startswith("|") or re.match(r"^\s*\d+ \|", raw) \
                or "Please submit a full bug report" in raw \
                or "See <" in raw or "with preprocessed source" in raw:
            if raw.startswith("f951:") and "internal compiler error" in raw:
                out.append((line_no, "internal compiler error", raw))
            continue
        # continuation of a multi-line message: ignore text, keep going
    return out


def rename(text, old, new):
    """Renames the routine in the emitted text (whole-word, case-insensitive)."""
    return re.sub(rf"\b{re.escape(old)}\b", new, text, flags=re.IGNORECASE)


def slug(message):
    """Compiler message -> stable short class name (identifiers, numbers and
    positions removed)."""
    low = message.lower()
    low = re.sub(r"at \(\d+\)", "", low)
    low = re.sub(r"['‘’`\"][^'‘’`\"]*['‘’`\"]", "X", low)
    low = re.sub(r"\d+", "N", low)
    words = re.findall(r"[a-z$!]+|X|N", low)
    return "-".join(words)[:70].strip("-")


def _compile_file(path, mode, cwd):
    if mode == "A":
        return _run(["-fsyntax-only", os.path.basename(path)], cwd)
    obj = os.path.basename(path) + ".o"
    res = _run(["-O0", "-c", "-o", obj, os.path.basename(path)], cwd)
    try:
        os.remove(os.path.join(cwd, obj))
    except OSError:
        pass
    return res


def _errors_of(diags):
    return [(ln, kind, msg) for ln, kind, msg in diags
            if kind in ("Error", "Fatal Error", "internal compiler error")]


def compile_alone(text, workdir, tag):
    """Stand-alone verdict for one routine.
    Returns {"errors": [(line, pass, message)], "unsupported": [...]}."""
    path = os.path.join(workdir, f"one_{tag}.f90")
    with open(path, "w", encoding="utf-8") as fout:
        fout.write(text)
    result = {"errors": [], "unsupported": []}
    for mode in ("A", "B"):
        code, err = _compile_file(path, mode, workdir)
        diags = parse_diagnostics(err)
        errs = _errors_of(diags)
        result["unsupported"] += [m for _l, k, m in diags
                                  if k == "sorry, unimplemented"]
        if code != 0 and not errs and not result["unsupported"]:
            raise CompilerHarnessError(
                f"gfortran failed (rc={code}) without a recognisable "
                f"diagnostic:\n{err[:2000]}")
        if errs:
            result["errors"] = [(ln, mode, msg) for ln, _k, msg in errs]
            break
        if result["unsupported"]:
            break
    os.remove(path)
    return result


def compile_batch(texts, workdir, tag):
    """texts: list of routine sources (already uniquely named).
    Returns list (same order) of {"errors": [...], "unsupported": [...]}.
    Also returns the number of gfortran invocations."""
    results = [None] * len(texts)
    runs = 0
    alive = list(range(len(texts)))
    for mode in ("A", "B"):
        while alive:
            path = os.path.join(workdir, f"batch_{tag}_{mode}.f90")
            ranges = []
            lineno = 1
            with open(path, "w", encoding="utf-8") as fout:
                for idx in alive:
                    body = texts[idx]
                    if not body.endswith("\n"):
                        body += "\n"
                    num = body.count("\n")
                    ranges.append((lineno, lineno + num - 1, idx))
                    fout.write(body)
                    lineno += num
            code, err = _compile_file(path, mode, workdir)
            runs += 1
            os.remove(path)
            diags = parse_diagnostics(err)
            bad = set()
            for lno, kind, _msg in diags:
                if kind not in ("Error", "Fatal Error",
                                "internal compiler error",
                                "sorry, unimplemented"):
                    continue
                hit = [i for lo, hi, i in ranges
                       if lno is not None and lo <= lno <= hi]
                if not hit:
                    raise CompilerHarnessError(
                        f"diagnostic without attributable line:\n{err[:2000]}")
                bad.add(hit[0])
            if code != 0 and not bad:
                raise CompilerHarnessError(
                    f"gfortran failed (rc={code}) without attributable "
                    f"diagnostics:\n{err[:2000]}")
            if not bad:
                break
            for idx in sorted(bad):
                results[idx] = compile_alone(texts[idx], workdir,
                                             f"{tag}_{idx}")
                runs += 2
            alive = [i for i in alive if i not in bad]
            if mode == "A":
                # one more A pass is not needed: front-end errors are reported
                # for every program unit of the file.  Re-run anyway so that
                # the set that goes on to pass B is known to be clean.
                continue
    for idx in alive:
        results[idx] = {"errors": [], "unsupported": []}
    return results, runs
