"""C10 helper: gfortran as the "OpenMP/OpenACC-aware Fortran compiler".

Many generated routines are put into one file (each renamed to a unique name),
compiled once with ``-fopenmp -fopenacc``; diagnostics are attributed to routines
through the line ranges.  Two passes are needed because gfortran diagnoses
directive *nesting* (work-sharing inside work-sharing, parallel inside kernels,
teams outside target, ...) only in the middle end, which it never reaches when the
front end reported an error anywhere in the file, and never with -fsyntax-only:

  pass A  -fsyntax-only          parse/resolve errors (collapse, clauses, syntax)
  pass B  -S -O0 (no assembler)     nesting errors, on the routines that passed A,
                                 repeated without the failing routines until the
                                 remaining file compiles cleanly.

Batch diagnostics are attributed to routines through line ranges and turned
into signatures; one routine per distinct signature is re-compiled ALONE and
must give the same signatures, otherwise every failing routine of the batch is
re-compiled alone and only the stand-alone diagnostics are used.  So one routine
can neither contaminate nor mask another.  Warnings and "sorry, unimplemented"
(a limitation of this compiler, not of the code) are never errors.
"""
import os
import re
import subprocess

GFORTRAN = "/usr/bin/gfortran"
FLAGS = ["-fopenmp", "-fopenacc", "-ffree-line-length-none", "-fmax-errors=0",
         "-fno-diagnostics-show-caret", "-fdiagnostics-color=never"]

_LOC = re.compile(r"^(.*?):(\d+):(\d+):\s*(.*)$")
_KIND = re.compile(r"^(Fatal Error|Error|Warning|sorry, unimplemented|"
                   r"internal compiler error|note):\s*(.*)$")


_UNSUPPORTED = re.compile(r"not (yet )?supported|not (yet )?implemented|"
                          r"unimplemented", re.IGNORECASE)


class CompilerHarnessError(Exception):
    """gfortran could not be run or its output could not be understood."""


def _run(args, cwd):
    try:
        env = dict(os.environ, TMPDIR=cwd, LC_ALL="C", LANG="C")
        proc = subprocess.run([GFORTRAN] + FLAGS + args, cwd=cwd, env=env,
                              capture_output=True, text=True, timeout=600,
                              check=False)
    except (OSError, subprocess.TimeoutExpired) as err:
        raise CompilerHarnessError(f"cannot run gfortran: {err}") from err
    return proc.returncode, proc.stderr


def parse_diagnostics(stderr):
    """-> list of (line, kind, message).  Raises if stderr has lines that fit
    no known shape while the compiler failed (so nothing is guessed)."""
    out = []
    line_no = None
    for raw in stderr.splitlines():
        if not raw.strip():
            continue
        mat = _LOC.match(raw)
        if mat:
            line_no = int(mat.group(2))
            rest = mat.group(4)
            if not rest:
                continue
            raw = rest
        kind = _KIND.match(raw.strip())
        if kind:
            what, msg = kind.group(1), kind.group(2).strip()
            if what == "Error" and _UNSUPPORTED.search(msg):
                # e.g. "OpenACC region inside of OpenACC routine, nested
                # parallelism not supported yet": a limit of this compiler
                what = "sorry, unimplemented"
            out.append((line_no, what, msg))
            continue
        if raw.startswith("compilation terminated") or \
                raw.startswith("f951:") or "In function" in raw or \
                raw.lstrip().startswith("|") or re.match(r"^\s*\d+ \|", raw) \
                or "Please submit a full bug report" in raw \
                or "See <" in raw or "with preprocessed source" in raw:
            if raw.startswith("f951:") and "internal compiler error" in raw:
                out.append((line_no, "internal compiler error", raw))
            continue
        # continuation of a multi-line message: ignore text, keep going
    return out


def rename(text, old, new):
    """Renames the routine in the emitted text (whole-word, case-insensitive)."""
    return re.sub(rf"\b{re.escape(old)}\b", new, text, flags=re.IGNORECASE)


def slug(message):
    """Compiler message -> stable short class name (identifiers, numbers and
    positions removed)."""
    low = message.lower()
    low = re.sub(r"at \(\d+\)", "", low)
    low = re.sub(r"['‘’`\"]([^'‘’`\"]*)['‘’`\"]",
                 lambda m: m.group(1) if re.fullmatch(r"[a-z ]+", m.group(1))
                 else "X", low)
    low = re.sub(r"\d+", "N", low)
    words = re.findall(r"[a-z$!]+|X|N", low)
    return "-".join(words)[:70].strip("-")


def _compile_file(path, mode, cwd):
    if mode == "A":
        return _run(["-fsyntax-only", os.path.basename(path)], cwd)
    # -S: the whole compiler proper runs (front end, OpenMP/OpenACC lowering
    # and expansion, code generation); only the assembler is skipped.
    obj = os.path.basename(path) + ".s"
    res = _run(["-O0", "-S", "-o", obj, os.path.basename(path)], cwd)
    try:
        os.remove(os.path.join(cwd, obj))
    except OSError:
        pass
    return res


def _errors_of(diags):
    return [(ln, kind, msg) for ln, kind, msg in diags
            if kind in ("Error", "Fatal Error", "internal compiler error")]


def compile_alone(text, workdir, tag):
    """Stand-alone verdict for one routine.
    Returns {"errors": [(line, pass, message)], "unsupported": [...]}."""
    path = os.path.join(workdir, f"one_{tag}.f90")
    with open(path, "w", encoding="utf-8") as fout:
        fout.write(text)
    result = {"errors": [], "unsupported": []}
    for mode in ("A", "B"):
        code, err = _compile_file(path, mode, workdir)
        diags = parse_diagnostics(err)
        errs = _errors_of(diags)
        result["unsupported"] += [m for _l, k, m in diags
                                  if k == "sorry, unimplemented"]
        if code != 0 and not errs and not result["unsupported"]:
            raise CompilerHarnessError(
                f"gfortran failed (rc={code}) without a recognisable "
                f"diagnostic:\n{err[:2000]}")
        if errs:
            result["errors"] = [(ln, mode, msg) for ln, _k, msg in errs]
            break
        if result["unsupported"]:
            break
    os.remove(path)
    return result


def compile_batch(texts, workdir, tag, sig_of=None):
    """texts: list of routine sources (already uniquely named).
    Returns (list (same order) of {"errors": [(line-in-routine, pass, msg)],
    "unsupported": [...]}, number of gfortran runs).

    Batch diagnostics are attributed to routines through line ranges.  Before
    they are trusted, ONE routine per distinct diagnostic signature
    (``sig_of(index, errors) -> set``) is re-compiled alone; if any stand-alone
    result differs from what the batch attributed to that routine, every failing
    routine of the batch is re-compiled alone and only those results are used.
    Failing routines are removed and the pass repeated until the remaining file
    compiles without error, so no error can be masked by another one."""
    results = [None] * len(texts)
    runs = 0
    alive = list(range(len(texts)))
    for mode in ("A", "B"):
        while alive:
            path = os.path.join(workdir, f"batch_{tag}_{mode}.f90")
            ranges = []
            lineno = 1
            with open(path, "w", encoding="utf-8") as fout:
                for idx in alive:
                    body = texts[idx]
                    if not body.endswith("\n"):
                        body += "\n"
                    num = body.count("\n")
                    ranges.append((lineno, lineno + num - 1, idx))
                    fout.write(body)
                    lineno += num
            code, err = _compile_file(path, mode, workdir)
            runs += 1
            os.remove(path)
            diags = parse_diagnostics(err)
            bad = {}
            for lno, kind, msg in diags:
                if kind not in ("Error", "Fatal Error",
                                "internal compiler error",
                                "sorry, unimplemented"):
                    continue
                hit = [(lo, i) for lo, hi, i in ranges
                       if lno is not None and lo <= lno <= hi]
                if not hit:
                    raise CompilerHarnessError(
                        f"diagnostic without attributable line:\n{err[:2000]}")
                low, idx = hit[0]
                rec = bad.setdefault(idx, {"errors": [], "unsupported": []})
                if kind == "sorry, unimplemented":
                    rec["unsupported"].append(msg)
                else:
                    rec["errors"].append((lno - low + 1, mode, msg))
            if code != 0 and not bad:
                raise CompilerHarnessError(
                    f"gfortran failed (rc={code}) without attributable "
                    f"diagnostics:\n{err[:2000]}")
            if not bad:
                break
            # ---- confirm one representative per signature stand-alone ----
            confirmed = set()
            trusted = True
            for idx in sorted(bad):
                sigs = frozenset(sig_of(idx, bad[idx]["errors"])) if sig_of \
                    else None
                if sigs is not None and sigs and sigs <= confirmed:
                    continue
                alone = compile_alone(texts[idx], workdir, f"{tag}_{idx}")
                runs += 2
                same = (sig_of is not None and
                        frozenset(sig_of(idx, alone["errors"])) == sigs and
                        bool(alone["unsupported"]) ==
                        bool(bad[idx]["unsupported"]))
                bad[idx] = alone
                if sigs is None:
                    continue
                if not same:
                    trusted = False
                    break
                confirmed |= sigs
            if not trusted:
                for idx in sorted(bad):
                    bad[idx] = compile_alone(texts[idx], workdir,
                                             f"{tag}_{idx}")
                    runs += 2
            for idx, rec in bad.items():
                results[idx] = rec
            alive = [i for i in alive if i not in bad]
            if mode == "A":
                # The front end diagnoses every program unit of the file
                # (-fmax-errors=0), so pass A needs no repetition; anything it
                # could have missed would stop pass B, which IS repeated until
                # the remaining file is clean.
                break
    for idx in alive:
        results[idx] = {"errors": [], "unsupported": []}
    return results, runs
