"""C26 machinery: transformation discovery, option spaces, nested-call fault
injection, deterministic fingerprints, raise-site map and attempt execution.

Nothing in here decides a verdict on its own except ``judge`` (fingerprint
before == fingerprint after whenever TransformationError propagated).
"""
import ast
import contextlib
import difflib
import functools
import importlib
import inspect
import io
import os
import pkgutil
import re
import sys

REPO = os.environ.get("VERIF_REPO", "/repo")
SRC = os.path.join(REPO, "src", "psyclone")

INJECT_MSG = "C26-INJECTED-REFUSAL"

# ---------------------------------------------------------------------------
# discovery of transformation classes
# ---------------------------------------------------------------------------
_ALL_CLASSES = None


def all_transformation_classes():
    """Every subclass of psyGen.Transformation defined in the psyclone
    package (tests excluded), abstract ones included; deterministic order."""
    global _ALL_CLASSES
    if _ALL_CLASSES is not None:
        return _ALL_CLASSES
    import psyclone
    from psyclone.psyGen import Transformation
    seen = {}
    for minfo in pkgutil.walk_packages(psyclone.__path__, "psyclone."):
        if ".tests" in minfo.name:
            continue
        try:
            mod = importlib.import_module(minfo.name)
        except Exception:  # pylint: disable=broad-except
            continue
        for _, obj in inspect.getmembers(mod, inspect.isclass):
            if issubclass(obj, Transformation) and \
                    obj.__module__ == mod.__name__:
                seen[(obj.__module__, obj.__name__)] = obj
    _ALL_CLASSES = [seen[k] for k in sorted(seen)]
    return _ALL_CLASSES


def concrete_transformation_names():
    """Names of the classes that can be instantiated (not abstract)."""
    names = []
    for cls in all_transformation_classes():
        if inspect.isabstract(cls) or cls.__name__ == "Transformation":
            continue
        names.append(cls.__name__)
    return names


def class_by_name(name):
    for cls in all_transformation_classes():
        if cls.__name__ == name:
            return cls
    raise KeyError(name)


# ---------------------------------------------------------------------------
# option spaces
# ---------------------------------------------------------------------------
_OPT_RE = re.compile(r"""options(?:\.get\(\s*|\[\s*)["']([\w-]+)["']""")
_DOC_RE = re.compile(r""":param\s+([^:]*?)\s*options\[["']([\w-]+)["']\]""")

# Values tried per option key (valid, boundary, out-of-range, wrong-typed).
# ("$t", [...]) encodes a tuple so that everything stays JSON-able.
KEY_VALUES = {
    "chunksize": [4, 1, 0, -2, 2.5, "4"],
    "tilesize": [4, 1, 0, -2, 2.5, "4"],
    "collapse": [2, 1, 0, -1, 3, "2", True],
    "depth": [1, 2, 0, -1, 5, "1"],
    "element_order": [0, 1, -1, "1"],
    "number_of_layers": [20, 1, 0, -3, "20"],
    "cellshape": ["quadrilateral", "triangle", 7],
    "position": ["before", "after", "inside", 3],
    "prefix": ["extract", "profile", "", "not_a_prefix", 5],
    "region_name": [{"$t": ["mod", "reg"]}, {"$t": ["mod"]}, "modreg",
                    {"$t": ["mod", 3]}, {"$t": ["", ""]}],
    "kernels": [[], [0], ["x"], 3],
}
TYPE_VALUES = {
    "bool": [True, False, "yes"],
    "int": [2, 0, -1, "2"],
    "str": ["x", "", 3],
    None: [True, False, 1, "x"],
}
# Options read by the code that are not spelled options["..."] in a docstring
# are still included (the space is a superset of "named in the docstrings").


def option_keys(cls):
    """{key: type-string-or-None} gathered from the docstrings and the code
    of the class and all its bases below Transformation."""
    from psyclone.psyGen import Transformation
    keys = {}
    for klass in cls.__mro__:
        if klass in (Transformation, object):
            continue
        try:
            text = inspect.getsource(klass)
        except (OSError, TypeError):
            continue
        for typ, key in _DOC_RE.findall(text):
            typ = typ.strip().lower() or None
            if typ and typ.startswith("bool"):
                typ = "bool"
            elif typ and typ.startswith("int"):
                typ = "int"
            elif typ and typ.startswith("str"):
                typ = "str"
            else:
                typ = None
            if keys.get(key) is None:
                keys[key] = typ
        for key in _OPT_RE.findall(text):
            keys.setdefault(key, None)
    return dict(sorted(keys.items()))


def option_values(key, typ):
    if key in KEY_VALUES:
        return KEY_VALUES[key]
    return TYPE_VALUES.get(typ, TYPE_VALUES[None])


def option_space(cls, tier):
    """List of JSON-able option descriptors.  "$call" selects how the options
    argument is passed: 'none' (apply(node)), 'dict' (default)."""
    keys = option_keys(cls)
    out = [{"$call": "none"}, {}, {"$call": "str"}, {"c26_unknown_option": 1}]
    singles = []
    for key, typ in keys.items():
        for val in option_values(key, typ):
            singles.append((key, val))
    out += [{k: v} for k, v in singles]
    # pairs: every pair of distinct keys; quick uses the first two values of
    # each key (the "valid" ones come first), thorough all values.
    klist = list(keys)
    width = 2 if tier == "quick" else 99
    maxpairs = 60 if tier == "quick" else 600
    pairs = []
    for i, key1 in enumerate(klist):
        for key2 in klist[i + 1:]:
            for val1 in option_values(key1, keys[key1])[:width]:
                for val2 in option_values(key2, keys[key2])[:width]:
                    pairs.append({key1: val1, key2: val2})
    capped = len(pairs) > maxpairs
    out += pairs[:maxpairs]
    # triples of keys with their first (valid) value, and all keys together
    triples = []
    for i, key1 in enumerate(klist):
        for j, key2 in enumerate(klist[i + 1:], i + 1):
            for key3 in klist[j + 1:]:
                triples.append({k: option_values(k, keys[k])[0]
                                for k in (key1, key2, key3)})
    maxtriples = 40 if tier == "quick" else 400
    capped = capped or len(triples) > maxtriples
    out += triples[:maxtriples]
    if len(klist) > 3:
        out.append({k: option_values(k, keys[k])[0] for k in klist})
    return out, capped


def decode_value(val):
    if isinstance(val, dict) and "$t" in val:
        return tuple(decode_value(v) for v in val["$t"])
    if isinstance(val, list):
        return [decode_value(v) for v in val]
    return val


def decode_options(desc):
    """-> (has_options_argument, options object)"""
    mode = desc.get("$call", "dict")
    if mode == "none":
        return False, None
    if mode == "str":
        return True, "not-a-dict"
    return True, {k: decode_value(v) for k, v in desc.items()
                  if not k.startswith("$")}


def options_key(desc):
    return ",".join(f"{k}={_short(v)}" for k, v in sorted(desc.items())) or "{}"


def _short(val):
    if isinstance(val, dict) and "$t" in val:
        return "(" + "/".join(_short(v) for v in val["$t"]) + ")"
    if isinstance(val, list):
        return "[" + "/".join(_short(v) for v in val) + "]"
    return repr(val)


def transformation_domain(cls):
    """'lfric' / 'gocean' for API-specific classes, else 'generic'."""
    mod, name = cls.__module__, cls.__name__
    if ".domain.lfric" in mod or name.startswith(("Dynamo", "LFRic")):
        return "lfric"
    if ".domain.gocean" in mod or name.startswith(("GOcean", "GOConst",
                                                   "GOMove", "GOOpenCL")):
        return "gocean"
    return "generic"


# Constructor variants (first entry = default construction).
CTOR_VARIANTS = {
    "OMPLoopTrans": [{}, {"omp_directive": "paralleldo"},
                     {"omp_directive": "teamsdistributeparalleldo"},
                     {"omp_directive": "loop"}],
    "OMPParallelLoopTrans": [{}, {"omp_schedule": "dynamic"}],
    "OMPTaskloopTrans": [{}, {"grainsize": 4}, {"num_tasks": 2},
                         {"nogroup": True}],
    "OMPSingleTrans": [{}, {"nowait": True}],
    "ACCParallelTrans": [{}, {"default_present": False}],
}


# ---------------------------------------------------------------------------
# nested-call counting / fault injection
# ---------------------------------------------------------------------------
class _Session:
    def __init__(self):
        self.active = False
        self.depth = 0
        self.calls = []
        self.stack = []
        self.inject_at = None
        self.injected = False


SESSION = _Session()
_INSTALLED = False


def _label_counts(calls, label):
    return sum(1 for c in calls if c["label"] == label)


def _nested(kind, callee, error_factory, orig, args, kwargs):
    ses = SESSION
    frame = sys._getframe(2)  # pylint: disable=protected-access
    caller = frame.f_code.co_qualname
    label = f"{caller}>{callee}"
    rec = {"kind": kind, "label": label,
           "n": _label_counts(ses.calls, label), "exit": "ok"}
    idx = len(ses.calls)
    # index of the outermost nested call this one is (transitively) made from
    rec["top"] = ses.stack[0] if ses.stack else idx
    ses.calls.append(rec)
    if ses.inject_at == idx:
        ses.injected = True
        rec["exit"] = "injected"
        raise error_factory()
    ses.depth += 1
    ses.stack.append(idx)
    try:
        return orig(*args, **kwargs)
    except BaseException as err:
        rec["exit"] = type(err).__name__
        rec["err"] = err
        raise
    finally:
        ses.depth -= 1
        ses.stack.pop()


def _wrap_trans_method(func, cls, meth):
    callee = f"{cls.__name__}.{meth}"

    @functools.wraps(func)
    def wrapper(*args, **kwargs):
        ses = SESSION
        if not ses.active:
            return func(*args, **kwargs)
        if ses.depth == 0:
            # the call under test itself
            ses.depth = 1
            try:
                return func(*args, **kwargs)
            finally:
                ses.depth = 0
        from psyclone.psyir.transformations import TransformationError
        return _nested(meth, callee,
                       lambda: TransformationError(INJECT_MSG),
                       func, args, kwargs)
    wrapper.c26_wrapped = True
    return wrapper


def _wrap_symtab_method(func, name):
    callee = f"SymbolTable.{name}"

    @functools.wraps(func)
    def wrapper(*args, **kwargs):
        ses = SESSION
        if not ses.active or ses.depth == 0:
            return func(*args, **kwargs)
        from psyclone.psyir.symbols import SymbolError
        return _nested(name, callee, lambda: SymbolError(INJECT_MSG),
                       func, args, kwargs)
    wrapper.c26_wrapped = True
    return wrapper


def install():
    """Wrap validate/apply of every transformation class (own definitions
    only) and SymbolTable.merge / rename_symbol.  Idempotent."""
    global _INSTALLED
    if _INSTALLED:
        return
    from psyclone.psyGen import Transformation
    from psyclone.psyir.symbols import SymbolTable
    for cls in all_transformation_classes():
        for meth in ("validate", "apply"):
            func = cls.__dict__.get(meth)
            if func is None or not inspect.isfunction(func):
                continue
            if getattr(func, "__isabstractmethod__", False):
                continue
            if cls is Transformation:
                continue  # the documented no-op validate never refuses
            if getattr(func, "c26_wrapped", False):
                continue
            setattr(cls, meth, _wrap_trans_method(func, cls, meth))
    for name in ("merge", "rename_symbol"):
        func = SymbolTable.__dict__[name]
        if not getattr(func, "c26_wrapped", False):
            setattr(SymbolTable, name, _wrap_symtab_method(func, name))
    _INSTALLED = True


@contextlib.contextmanager
def session(inject_at=None):
    ses = SESSION
    ses.active = True
    ses.depth = 0
    ses.calls = []
    ses.stack = []
    ses.inject_at = inject_at
    ses.injected = False
    try:
        yield ses
    finally:
        ses.active = False
        ses.depth = 0


# ---------------------------------------------------------------------------
# raise-site map (AST) of the transformation modules
# ---------------------------------------------------------------------------
_SITES = None


def transformation_module_files():
    files = [os.path.join(SRC, "transformations.py")]
    for sub in ("psyir/transformations", "psyad/transformations"):
        for dirpath, _, names in sorted(os.walk(os.path.join(SRC, sub))):
            files += [os.path.join(dirpath, n) for n in sorted(names)
                      if n.endswith(".py")]
    dom = os.path.join(SRC, "domain")
    for api in sorted(os.listdir(dom)):
        tdir = os.path.join(dom, api, "transformations")
        if os.path.isdir(tdir):
            files += [os.path.join(tdir, n) for n in sorted(os.listdir(tdir))
                      if n.endswith(".py")]
    return files


class _SiteVisitor(ast.NodeVisitor):
    def __init__(self, rel):
        self.rel = rel
        self.stack = []
        self.count = {}
        self.sites = []

    def _scoped(self, node):
        self.stack.append(node.name)
        self.generic_visit(node)
        self.stack.pop()

    visit_FunctionDef = _scoped
    visit_ClassDef = _scoped
    visit_AsyncFunctionDef = _scoped

    def visit_Raise(self, node):
        exc = node.exc
        name = None
        if isinstance(exc, ast.Call):
            fun = exc.func
            name = fun.id if isinstance(fun, ast.Name) else \
                getattr(fun, "attr", None)
        elif isinstance(exc, ast.Name):
            name = exc.id
        if name == "TransformationError":
            qual = ".".join(self.stack) or "<module>"
            num = self.count.get(qual, 0)
            self.count[qual] = num + 1
            self.sites.append({"file": self.rel, "line": node.lineno,
                               "end": node.end_lineno,
                               "id": f"{qual}#r{num}"})
        self.generic_visit(node)


def raise_sites():
    """[{file, line, end, id}] for every `raise TransformationError` in the
    transformation modules of the tree under test."""
    global _SITES
    if _SITES is None:
        _SITES = []
        for path in transformation_module_files():
            with open(path, encoding="utf-8") as fin:
                tree = ast.parse(fin.read())
            vis = _SiteVisitor(os.path.relpath(path, SRC))
            vis.visit(tree)
            _SITES += vis.sites
    return _SITES


_SITE_INDEX = None


def site_of(filename, lineno):
    """Site id for a traceback frame, or None."""
    global _SITE_INDEX
    if _SITE_INDEX is None:
        _SITE_INDEX = {}
        for site in raise_sites():
            for line in range(site["line"], site["end"] + 1):
                _SITE_INDEX[(site["file"], line)] = site
    try:
        rel = os.path.relpath(os.path.realpath(filename),
                              os.path.realpath(SRC))
    except ValueError:
        return None
    site = _SITE_INDEX.get((rel, lineno))
    return site


def carries_injection(err):
    """True if err is the injected refusal or was raised while handling it
    (re-raised / wrapped by the code under test)."""
    seen = set()
    while err is not None and id(err) not in seen:
        seen.add(id(err))
        if INJECT_MSG in str(getattr(err, "value", "")) and \
                innermost_site(err)[0] == "injected":
            return True
        err = err.__cause__ or err.__context__
    return False


def innermost_site(err):
    """(site-id, fully-qualified-site) of the innermost traceback frame."""
    tback = err.__traceback__
    last = None
    while tback is not None:
        last = tback
        tback = tback.tb_next
    if last is None:
        return "unknown", None
    code = last.tb_frame.f_code
    if code.co_filename == __file__ or \
            os.path.basename(code.co_filename) == "c26_core.py":
        return "injected", None
    site = site_of(code.co_filename, last.tb_lineno)
    if site:
        return site["id"], f"{site['file']}:{site['id']}"
    base = os.path.basename(code.co_filename)
    return f"outside:{base}:{code.co_qualname}", None


# ---------------------------------------------------------------------------
# fingerprints
# ---------------------------------------------------------------------------
def _table_text(table):
    out = [table.view()]
    try:
        out.append("args: " + ",".join(s.name for s in table.argument_list))
    except Exception as err:  # pylint: disable=broad-except
        out.append(f"args: <{type(err).__name__}>")
    tags = table.get_tags()
    out.append("tags: " + ",".join(f"{t}->{tags[t].name}"
                                   for t in sorted(tags)))
    out.append(f"default_visibility: {table.default_visibility}")
    return "\n".join(out)


def _skeleton(root):
    """Node-class skeleton + view() (deterministic text, no ids)."""
    from psyclone.psyir.nodes import Node
    lines = []
    for node in root.walk(Node):
        ann = ",".join(sorted(getattr(node, "annotations", []) or []))
        lines.append(f"{node.depth - root.depth}:{type(node).__name__}"
                     + (f"[{ann}]" if ann else ""))
    try:
        view = root.view(colour=False)
    except Exception as err:  # pylint: disable=broad-except
        view = f"<view raised {type(err).__name__}: {err}>"
    return "\n".join(lines) + "\n" + view


def _tables(root):
    from psyclone.psyir.nodes import ScopingNode
    out = []
    for node in root.walk(ScopingNode):
        out.append(_table_text(node.symbol_table))
    return "\n".join(out)


def _code(root):
    from psyclone.psyir.backend.fortran import FortranWriter
    try:
        return FortranWriter()(root)
    except Exception as err:  # pylint: disable=broad-except
        return f"<FortranWriter raised {type(err).__name__}: {err}>"


def fingerprint_psyir(root):
    """{component: text} for a language-level PSyIR tree."""
    return {"code": _code(root), "symtab": _tables(root),
            "tree": _skeleton(root)}


def kernel_state(psy_root):
    """Flags and (if already materialised) PSyIR of every coded kernel."""
    from psyclone.psyGen import CodedKern
    out = []
    for idx, kern in enumerate(psy_root.walk(CodedKern)):
        line = (f"kern{idx} {kern.name} modified={kern.modified} "
                f"module_inline={kern.module_inline}")
        out.append(line)
    return "\n".join(out)


def loaded_kernel_schedules(psy_root):
    """{kernel index: (code, symtab, tree)} for kernels whose PSyIR has been
    created (kernel PSyIR is created lazily and deterministically from the
    parse tree, so creation alone is not a change)."""
    from psyclone.psyGen import CodedKern
    out = {}
    for idx, kern in enumerate(psy_root.walk(CodedKern)):
        sched = getattr(kern, "_kern_schedule", None)
        if sched is not None:
            # the kernel's own file/module, or just the routine once it has
            # been module-inlined into the PSy-layer container
            top = sched if sched.root is psy_root else sched.root
            out[idx] = fingerprint_psyir(top)
    return out


def _class_skeleton(root):
    """Statement-level skeleton (Statement / Schedule / Container nodes):
    the bound expressions of DSL loops are replaced lazily on first query."""
    from psyclone.psyir.nodes import Statement, Schedule, Container
    lines = []
    for node in root.walk((Statement, Schedule, Container)):
        ann = ",".join(sorted(getattr(node, "annotations", []) or []))
        lines.append(f"{node.depth - root.depth}:{type(node).__name__}"
                     + (f"[{ann}]" if ann else ""))
    return "\n".join(lines)


def fingerprint_psy_fast(psy_root):
    """Non-mutating part of the PSy-layer fingerprint.  'tree' (class
    skeleton + kernel flags) is judged; 'lazy' (symbol tables and view()) is
    NOT judged by itself: DSL-level PSyIR materialises loop-bound expressions
    and tagged symbols on first query (e.g. by dependency analysis), which
    does not alter the generated code."""
    return {"tree": _class_skeleton(psy_root) + "\n" + kernel_state(psy_root),
            "lazy": _tables(psy_root) + "\n" + _skeleton(psy_root)}


# ---------------------------------------------------------------------------
# exact state dump (cheap pre-filter)
# ---------------------------------------------------------------------------
# Every instance attribute of every node, symbol table, symbol, datatype and
# auxiliary PSyclone object reachable from the root, written out without
# object identities.  Written code is a function of this state (and of the
# Config), so "dump unchanged" implies "fingerprint unchanged"; the converse
# does not hold (caches, lazily created attributes), which is why a changed
# dump is never judged by itself: the fingerprint is then computed and judged.
_DUMP_SKIP = frozenset(["_parent", "_children", "_ast", "_ast_end", "_node"])
_DUMP_OPAQUE_MODULES = ("fparser", "psyclone.parse", "psyclone.configuration",
                        "sympy")
_MAX_DUMP_DEPTH = 14


def state_dump(root):
    import enum
    from psyclone.psyir.nodes import Node
    from psyclone.psyir.symbols import Symbol, SymbolTable
    out = []
    emit = out.append
    inner = {id(n) for n in root.walk(Node)}
    visited = {}

    def attrs(obj, depth):
        try:
            items = vars(obj)
        except TypeError:
            emit(f"<{type(obj).__name__}>")
            return
        for key in sorted(items):
            if key in _DUMP_SKIP:
                continue
            val = items[key]
            emit(key)
            if key == "_argument_names":
                emit(repr([name for _, name in val]))
            elif key == "_fp2_nodes":
                emit(repr([str(x) for x in val]))
            else:
                value(val, depth + 1)

    def node(nod, depth):
        emit(f"{depth}:{type(nod).__name__}(")
        attrs(nod, depth)
        for child in nod.children:
            node(child, depth + 1)
        emit(")")

    def generic(obj, depth):
        oid = id(obj)
        if oid in visited:
            emit(f"<ref {type(obj).__name__} {visited[oid]}>")
            return
        visited[oid] = len(visited)
        if depth > _MAX_DUMP_DEPTH:
            emit(f"<deep {type(obj).__name__}>")
            return
        emit(f"{type(obj).__name__}{{")
        attrs(obj, depth)
        emit("}")

    def value(val, depth):
        if val is None or val is True or val is False:
            emit(repr(val))
            return
        typ = type(val)
        if typ in (int, float, str, bytes):
            emit(repr(val))
        elif isinstance(val, enum.Enum):
            emit(f"{typ.__name__}.{val.name}")
        elif isinstance(val, Node):
            if id(val) in inner:
                emit(f"<node {typ.__name__}>")
            elif id(val) in visited:
                emit(f"<ref {typ.__name__} {visited[id(val)]}>")
            else:
                visited[id(val)] = len(visited)
                node(val, depth)
        elif isinstance(val, Symbol):
            emit(f"<sym {typ.__name__} {val.name}>")
        elif isinstance(val, SymbolTable):
            if id(val) in visited:
                emit(f"<ref table {visited[id(val)]}>")
                return
            visited[id(val)] = len(visited)
            emit("table{")
            for key in sorted(vars(val)):
                if key in _DUMP_SKIP or key == "_symbols":
                    continue
                emit(key)
                value(vars(val)[key], depth + 1)
            for name, sym in vars(val)["_symbols"].items():
                emit(f"{name}={type(sym).__name__}{{")
                visited.setdefault(id(sym), len(visited))
                attrs(sym, depth + 1)
                emit("}")
            emit("}")
        elif isinstance(val, (list, tuple)):
            emit("[")
            for item in val:
                value(item, depth + 1)
            emit("]")
        elif isinstance(val, dict):
            emit("{")
            for key, item in val.items():
                if isinstance(key, (str, int)):
                    emit(repr(key))
                else:
                    value(key, depth + 1)
                value(item, depth + 1)
            emit("}")
        elif isinstance(val, (set, frozenset)):
            subs = []
            for item in val:
                mark = len(out)
                value(item, depth + 1)
                subs.append(" ".join(out[mark:]))
                del out[mark:]
            emit("set(" + ",".join(sorted(subs)) + ")")
        else:
            mod = typ.__module__ or ""
            if mod.startswith("psyclone") and \
                    not mod.startswith(_DUMP_OPAQUE_MODULES):
                generic(val, depth)
            else:
                emit(f"<{typ.__name__}>")

    node(root, 0)
    return "\n".join(out)


# ---------------------------------------------------------------------------
# exact snapshot via the C pickler (fast path of the pre-filter)
# ---------------------------------------------------------------------------
def _stub(*args):
    return args


def _make_pickler():
    import pickle
    import types

    class _Pickler(pickle.Pickler):
        """Serialises the complete object graph below the root (every
        attribute of every object, object sharing included).  fparser parse
        tree nodes, classes and functions are written by name only."""

        def reducer_override(self, obj):
            typ = type(obj)
            mod = typ.__module__ or ""
            if mod.startswith("fparser"):
                return (_stub, (typ.__name__,))
            if isinstance(obj, type):
                return (_stub, ("class", obj.__module__, obj.__qualname__))
            if isinstance(obj, tuple) and typ is not tuple:
                return (_stub, (typ.__name__,) + tuple(obj))
            if isinstance(obj, types.FunctionType) and obj is not _stub:
                return (_stub, ("func", obj.__qualname__))
            if mod == "abc" or "<locals>" in typ.__qualname__:
                return (_stub, ("inst", typ.__qualname__), dict(vars(obj)))
            return NotImplemented
    return _Pickler


_PICKLER = None


def snapshot(root):
    """Bytes that are equal for two states of the same tree object only if
    nothing reachable from it changed (pickle of the object graph; the
    textual state dump if something in the graph cannot be pickled)."""
    global _PICKLER
    if _PICKLER is None:
        _PICKLER = _make_pickler()
    buf = io.BytesIO()
    try:
        _PICKLER(buf, protocol=5).dump(root)
        return buf.getvalue()
    except RecursionError:
        raise
    except Exception:  # pylint: disable=broad-except
        return b"DUMP:" + state_dump(root).encode("utf-8", "replace")


def changed_components(before, after):
    return [name for name in sorted(before) if before[name] != after.get(name)]


def diff_excerpt(before, after, limit=12):
    out = []
    for name in changed_components(before, after):
        diff = list(difflib.unified_diff(
            before[name].splitlines(), after[name].splitlines(),
            lineterm="", n=0))
        body = [d for d in diff[2:] if not d.startswith("@@")]
        out.append(f"[{name}] " + " | ".join(body[:limit]))
    return " ;; ".join(out)


def diff_counts(before, after):
    """'+a-b' line counts of a text diff."""
    diff = list(difflib.unified_diff(before.splitlines(), after.splitlines(),
                                     lineterm="", n=0))[2:]
    add = sum(1 for d in diff if d.startswith("+"))
    rem = sum(1 for d in diff if d.startswith("-"))
    return f"+{add}-{rem}"


def _symbol_lines(text):
    """{(table header, symbol name): line} from the symbol-table component."""
    out = {}
    header = ""
    for line in text.splitlines():
        if line.startswith("Symbol Table of"):
            header = line.strip()
        elif line.startswith("  ") and ":" in line:
            name = line.strip().split(":", 1)[0]
            out[(header, name)] = line
        elif line.startswith(("args:", "tags:", "default_visibility:")):
            out[(header, "$" + line.split(":", 1)[0])] = line
    return out


def change_digest(before, after):
    """Short, seed-independent description of WHAT changed (used in
    signatures): statement-level node classes added/removed, symbols
    added/removed/modified; the code text only if neither of those differ."""
    parts = []
    if before.get("tree") != after.get("tree"):
        def top(lines):
            """statement-level classes at the smallest depth among lines"""
            found = []
            for line in lines:
                head, _, rest = line.partition(":")
                if head.isdigit():
                    cls = rest.split("[")[0]
                    if _is_statement(cls):
                        found.append((int(head), cls))
            if not found:
                return []
            low = min(d for d, _ in found)
            return sorted({c for d, c in found if d == low})
        diff = [d for d in difflib.unified_diff(
            before["tree"].splitlines(), after["tree"].splitlines(),
            lineterm="", n=0)][2:]
        plus = top([d[1:] for d in diff if d.startswith("+")])
        minus = top([d[1:] for d in diff if d.startswith("-")])
        parts.append("tree" + ("+" + ",".join(plus) if plus else "")
                     + ("-" + ",".join(minus) if minus else ""))
    if before.get("symtab") != after.get("symtab"):
        sb, sa = _symbol_lines(before["symtab"]), _symbol_lines(after["symtab"])
        plus = any(k not in sb and not k[1].startswith("$") for k in sa)
        minus = any(k not in sa and not k[1].startswith("$") for k in sb)
        mod = any(k in sb and sa[k] != sb[k] and not k[1].startswith("$")
                  for k in sa)
        # flags only (added / removed / modified): names and counts depend
        # on the seed program
        parts.append("sym" + ("+" if plus else "") + ("-" if minus else "")
                     + ("~" if mod else "")
                     + ("" if plus or minus or mod else "(args/tags)"))
    if not parts and before.get("code") != after.get("code"):
        diff = [d for d in difflib.unified_diff(
            before["code"].splitlines(), after["code"].splitlines(),
            lineterm="", n=0)][2:]
        add = [d[1:].strip() for d in diff if d.startswith("+")]
        rem = [d[1:].strip() for d in diff if d.startswith("-")]
        if add and not rem and all(a.startswith("!") for a in add):
            parts.append("code+comment")
        else:
            parts.append(f"code+{len(add)}-{len(rem)}")
    other = set()
    for name in sorted(before):
        if name in ("tree", "symtab", "code"):
            continue
        if before[name] != after.get(name):
            other.add(name.rstrip("0123456789"))
    parts += sorted(other)
    return "/".join(parts) or "none"


_STMT_CACHE = {}


def _is_statement(clsname):
    """True if the named node class is statement-level (a Statement,
    Schedule or Container subclass) - expression nodes are left out of the
    digest so that it does not depend on the seed's expressions."""
    if clsname not in _STMT_CACHE:
        import psyclone.psyir.nodes as nodes_mod
        from psyclone.psyir.nodes import Statement, Schedule, Container
        cls = getattr(nodes_mod, clsname, None)
        _STMT_CACHE[clsname] = cls is None or \
            issubclass(cls, (Statement, Schedule, Container))
    return _STMT_CACHE[clsname]


# ---------------------------------------------------------------------------
# targets
# ---------------------------------------------------------------------------
def node_path(node, root):
    path = []
    cur = node
    while cur is not root:
        path.append(cur.position)
        cur = cur.parent
        if cur is None:
            raise ValueError("node is not below root")
    return list(reversed(path))


def resolve_path(root, path):
    node = root
    for idx in path:
        node = node.children[idx]
    return node


def resolve_target(root, desc):
    """Target descriptor -> python object handed to apply()."""
    kind = desc["t"]
    if kind == "node":
        return resolve_path(root, desc["p"])
    if kind == "list":
        par = resolve_path(root, desc["p"])
        return list(par.children[desc["i"]:desc["j"]])
    if kind == "nodes":
        return [resolve_path(root, p) for p in desc["ps"]]
    if kind == "py":
        return desc["v"]
    raise ValueError(kind)


def target_key(desc):
    kind = desc["t"]
    if kind == "node":
        return "n" + ".".join(map(str, desc["p"]))
    if kind == "list":
        return "l" + ".".join(map(str, desc["p"])) + f"[{desc['i']}:{desc['j']}]"
    if kind == "nodes":
        return "L" + "+".join(".".join(map(str, p)) for p in desc["ps"])
    return "py" + repr(desc["v"])


def target_classes(root, desc):
    """Class signature of a target (used for the distinctness rule)."""
    kind = desc["t"]
    if kind == "py":
        return "py:" + type(desc["v"]).__name__
    obj = resolve_target(root, desc)
    if isinstance(obj, list):
        return "[" + ",".join(type(o).__name__ for o in obj) + "]"
    return type(obj).__name__


MAX_SIBLINGS_FULL = 7


def enumerate_targets(root, dedupe_expressions=False):
    """Every node, every consecutive list of children of every Schedule /
    Container, a few deliberately ill-formed lists and non-node objects.
    With dedupe_expressions (quick tier) expression-level nodes are reduced
    to one representative per structural context (own class, position,
    parent class, grand-parent class, classes of own children)."""
    from psyclone.psyir.nodes import Node, Schedule, Container, Statement
    single, lists = [], []
    contexts = set()
    for node in root.walk(Node):
        if dedupe_expressions and \
                not isinstance(node, (Statement, Schedule, Container)):
            par = node.parent
            ctx = (type(node).__name__, node.position,
                   type(par).__name__ if par else None,
                   type(par.parent).__name__ if par and par.parent else None,
                   tuple(type(c).__name__ for c in node.children))
            if ctx in contexts:
                continue
            contexts.add(ctx)
        single.append({"t": "node", "p": node_path(node, root)})
    for node in root.walk((Schedule, Container)):
        num = len(node.children)
        if num == 0:
            continue
        path = node_path(node, root)
        for i in range(num):
            for j in range(i + 1, num + 1):
                if num > MAX_SIBLINGS_FULL and j - i > 3 and \
                        not (i == 0 and j == num):
                    continue
                lists.append({"t": "list", "p": path, "i": i, "j": j})
    odd = [{"t": "py", "v": None}, {"t": "py", "v": "not-a-node"},
           {"t": "py", "v": 7}, {"t": "nodes", "ps": []}]
    scheds = [n for n in root.walk(Schedule) if len(n.children) >= 2]
    for sched in scheds[:3]:
        path = node_path(sched, root)
        odd.append({"t": "nodes", "ps": [path + [1], path + [0]]})
        odd.append({"t": "nodes", "ps": [path + [0], path + [0]]})
        if len(sched.children) >= 3:
            odd.append({"t": "nodes", "ps": [path + [0], path + [2]]})
    if len(scheds) >= 2:
        odd.append({"t": "nodes", "ps": [node_path(scheds[0], root) + [0],
                                         node_path(scheds[1], root) + [0]]})
    return single, lists, odd


def enumerate_pairs(root, cap):
    """Ordered pairs for two-node transformations (LoopFuse*, MoveTrans):
    all statements (children of Schedules) and all Loops."""
    from psyclone.psyir.nodes import Schedule, Loop
    pool = []
    for sched in root.walk(Schedule):
        for child in sched.children:
            pool.append(child)
    for loop in root.walk(Loop):
        if not any(loop is p for p in pool):
            pool.append(loop)
    paths = [node_path(n, root) for n in pool]
    pairs = [(a, b) for a in paths for b in paths]
    capped = len(pairs) > cap
    if capped:
        # keep pairs of nearby statements first (deterministic)
        pairs.sort(key=lambda ab: (abs(len(ab[0]) - len(ab[1])), ab))
        pairs = pairs[:cap]
    extra = [({"t": "py", "v": None}, {"t": "node", "p": paths[0]})] \
        if paths else []
    out = [({"t": "node", "p": a}, {"t": "node", "p": b}) for a, b in pairs]
    if paths:
        out.append(({"t": "node", "p": paths[0]}, {"t": "py", "v": None}))
    return out + extra, capped


# ---------------------------------------------------------------------------
# executing one attempt
# ---------------------------------------------------------------------------
def make_transformation(name, ctor, root=None):
    """Instantiates the named class; a ctor value {"$symbols": [names]} is
    resolved to the symbols of those names in the first Routine below root."""
    cls = class_by_name(name)
    kwargs = {}
    for key, val in (ctor or {}).items():
        if isinstance(val, dict) and "$symbols" in val:
            from psyclone.psyir.nodes import Routine
            table = root.walk(Routine)[0].symbol_table
            kwargs[key] = [table.lookup(n) for n in val["$symbols"]]
        else:
            kwargs[key] = decode_value(val)
    return cls(**kwargs)


def run_apply(trans, args, opt_desc, inject_at=None):
    """Calls trans.apply(*args[, options]) under a counting/injecting
    session.  Returns dict(outcome, site, fullsite, msg, calls, injected)."""
    from psyclone.psyir.transformations import TransformationError
    has_opt, opts = decode_options(opt_desc)
    sink = io.StringIO()
    res = {"outcome": "ok", "site": None, "fullsite": None, "msg": ""}
    with session(inject_at) as ses:
        try:
            with contextlib.redirect_stdout(sink):
                if has_opt:
                    trans.apply(*args, opts)
                else:
                    trans.apply(*args)
        except TransformationError as err:
            res["outcome"] = "TE"
            res["site"], res["fullsite"] = innermost_site(err)
            try:
                res["msg"] = str(err.value)[:300]
            except Exception as err2:  # pylint: disable=broad-except
                res["msg"] = f"<message raised {type(err2).__name__}>"
            res["err"] = err
        except RecursionError:
            raise
        except Exception as err:  # pylint: disable=broad-except
            res["outcome"] = "EXC:" + type(err).__name__
            res["site"], _ = innermost_site(err)
            res["msg"] = str(err)[:200]
            res["err"] = err
        res["calls"] = ses.calls
        res["injected"] = ses.injected
    return res
