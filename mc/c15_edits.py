"""C15 edit alphabet: enumeration of edit descriptors for one (original subtree,
copy) pair and their application through PSyclone's public API.

An edit descriptor is a small JSON-able dict:
    {"side": "o"|"c", "op": <name>, "idx": <handle index>, "what": <text>}
Handles are resolved once, right after copying, by position (walk order of
scoping nodes / table insertion order of symbols / walk order of nodes), and
kept as object handles so that later edits keep addressing the same object
even when names or positions have changed.  Only objects INSIDE the copied
subtree (side "o") or inside the copy (side "c") are ever edited: symbols
declared in enclosing scopes are legitimately shared by a copy of a non-root
subtree, so editing them is not an edit "to either tree".
"""

CORE_OPS = ("rename", "newsym", "settype", "setinit", "setiface", "specialise",
            "literal", "addstmt", "delstmt", "loopstop")
EXT_OPS = ("settype2", "setinit0", "access", "visibility", "constant",
           "newclash", "unitname", "loopstart", "loopstep", "loopvar",
           "callarg", "ompsched", "refsym")

# exceptions with which PSyclone may cleanly refuse an edit
_REFUSALS = None


def refusals():
    global _REFUSALS
    if _REFUSALS is None:
        from psyclone.psyir.symbols import SymbolError
        from psyclone.errors import GenerationError
        # the documented errors of rename_symbol / new_symbol / the symbol
        # property setters / the node-editing methods / the datatype
        # constructors (TypeError: e.g. an array-valued symbol used as an
        # array bound); anything else that an edit raises is reported as a
        # harness error and looked at.  The exception class is part of the
        # outcome class in the evidence.
        _REFUSALS = (SymbolError, GenerationError, KeyError, ValueError,
                     TypeError)
    return _REFUSALS


class Pair:
    """The original subtree ``t`` (inside ``root``), its copy ``c`` and the
    object handles of both sides."""

    def __init__(self, root, tnode, cnode):
        from psyclone.psyir.nodes import Node, ScopingNode
        self.root = root
        self.tree = {"o": tnode, "c": cnode}
        self.scopes = {}
        self.syms = {}
        self.nodes = {}
        for side, top in self.tree.items():
            self.scopes[side] = top.walk(ScopingNode)
            self.syms[side] = [(sidx, sym)
                               for sidx, sco in enumerate(self.scopes[side])
                               for sym in sco.symbol_table.symbols]
            self.nodes[side] = top.walk(Node)

    def other(self, side):
        return "c" if side == "o" else "o"

    def within(self, side, node):
        top = self.tree[side]
        while node is not None:
            if node is top:
                return True
            node = node.parent
        return False


def _int_scalar(sym):
    from psyclone.psyir.symbols import DataSymbol, ScalarType
    return (type(sym) is DataSymbol and isinstance(sym.datatype, ScalarType)
            and sym.datatype.intrinsic == ScalarType.Intrinsic.INTEGER)


def _partner(pair, side, sidx, sym, constant=None):
    """First integer scalar DataSymbol of this side (declared in the same or
    an enclosing copied scope) other than sym; None if there is none."""
    scope = pair.scopes[side][sidx]
    for oidx, other in pair.syms[side]:
        if other is sym or not _int_scalar(other):
            continue
        if constant is not None and other.is_constant != constant:
            continue
        onode = pair.scopes[side][oidx]
        node = scope
        while node is not None:
            if node is onode:
                return other
            node = node.parent
    return None


def enumerate_edits(pair, ops):
    """All edit descriptors (both sides) for the given operator names, in a
    deterministic order.  Enumerated from the structure right after copying."""
    from psyclone.psyir.nodes import (Literal, Schedule, Loop, Call, Routine,
                                      Container, Reference, Statement)
    from psyclone.psyir.nodes import OMPDoDirective
    from psyclone.psyir.symbols import (DataSymbol, Symbol, ArgumentInterface)
    out = []

    def add(side, opn, idx, what):
        if opn in ops:
            out.append({"side": side, "op": opn, "idx": idx, "what": what})

    for side in ("o", "c"):
        top = pair.tree[side]
        for idx, (sidx, sym) in enumerate(pair.syms[side]):
            what = f"{sym.name}@scope{sidx}"
            add(side, "rename", idx, what)
            if type(sym) is DataSymbol:
                add(side, "settype", idx, what)
                add(side, "settype2", idx, what)
                add(side, "setinit", idx, what)
                if sym.initial_value is not None:
                    add(side, "setinit0", idx, what)
                add(side, "constant", idx, what)
            if type(sym) is Symbol:
                add(side, "specialise", idx, what)
            add(side, "setiface", idx, what)
            if isinstance(sym.interface, ArgumentInterface):
                add(side, "access", idx, what)
            add(side, "visibility", idx, what)
        for idx, sco in enumerate(pair.scopes[side]):
            what = f"scope{idx}:{type(sco).__name__}"
            add(side, "newsym", idx, what)
            if sco.symbol_table.symbols:
                add(side, "newclash", idx, what)
            if isinstance(sco, (Routine, Container)):
                add(side, "unitname", idx, what)
        for idx, node in enumerate(pair.nodes[side]):
            what = f"node{idx}:{type(node).__name__}"
            if isinstance(node, Literal) and node is not top:
                add(side, "literal", idx, what)
            if isinstance(node, Schedule):
                add(side, "addstmt", idx, what)
            if (isinstance(node, Statement) and node is not top
                    and isinstance(node.parent, Schedule)):
                add(side, "delstmt", idx, what)
            if isinstance(node, Loop):
                add(side, "loopstop", idx, what)
                add(side, "loopstart", idx, what)
                add(side, "loopstep", idx, what)
                add(side, "loopvar", idx, what)
            if isinstance(node, Call) and isinstance(node, Statement):
                add(side, "callarg", idx, what)
            if isinstance(node, OMPDoDirective):
                add(side, "ompsched", idx, what)
            if type(node) is Reference and node is not top:
                add(side, "refsym", idx, what)
    return out


def edit_key(desc):
    return f"{desc['side']}.{desc['op']}@{desc['idx']}"


def touched(pair, desc):
    """Objects an edit directly acts on (used to explain a leak)."""
    side, opn, idx = desc["side"], desc["op"], desc["idx"]
    if opn in ("rename", "settype", "settype2", "setinit", "setinit0",
               "setiface", "specialise", "visibility", "constant"):
        return [pair.syms[side][idx][1]]
    if opn == "access":
        # the symbol is untouched: its interface object is modified in place
        return [pair.syms[side][idx][1].interface]
    if opn in ("newsym", "newclash"):
        return [pair.scopes[side][idx].symbol_table]
    if opn == "unitname":
        sco = pair.scopes[side][idx]
        return [sco, sco.symbol_table] + list(sco.symbol_table.symbols)
    node = pair.nodes[side][idx]
    res = [node]
    if node.parent is not None:
        res.append(node.parent)
    return res


def apply_edit(pair, desc):
    """Applies one edit.  Returns 'applied', 'inapplicable' (the target is no
    longer part of that side's tree) or 'refused:<Exception>'."""
    # pylint: disable=too-many-branches,too-many-statements,too-many-locals
    from psyclone.psyir.nodes import Literal, Reference, Return
    from psyclone.psyir.symbols import (
        DataSymbol, ArrayType, ScalarType, REAL_TYPE, INTEGER_TYPE,
        StaticInterface, AutomaticInterface, ArgumentInterface, Symbol)
    side, opn, idx = desc["side"], desc["op"], desc["idx"]
    try:
        if opn in ("rename", "settype", "settype2", "setinit", "setinit0",
                   "setiface", "specialise", "access", "visibility",
                   "constant"):
            sidx, sym = pair.syms[side][idx]
            scope = pair.scopes[side][sidx]
            table = scope.symbol_table
            if not pair.within(side, scope) or \
                    not any(s is sym for s in table.symbols):
                return "inapplicable"
            if opn == "rename":
                table.rename_symbol(sym, sym.name + "_zz")
            elif opn == "settype":
                oth = _partner(pair, side, sidx, sym)
                bound = Reference(oth) if oth else Literal("5", INTEGER_TYPE)
                sym.datatype = ArrayType(REAL_TYPE, [bound])
            elif opn == "settype2":
                oth = _partner(pair, side, sidx, sym, constant=True)
                sym.datatype = ScalarType(
                    ScalarType.Intrinsic.INTEGER,
                    oth if oth else ScalarType.Precision.DOUBLE)
            elif opn == "setinit":
                oth = _partner(pair, side, sidx, sym)
                sym.initial_value = (Reference(oth) if oth
                                     else Literal("7", INTEGER_TYPE))
            elif opn == "setinit0":
                sym.initial_value = None
            elif opn == "setiface":
                if isinstance(sym.interface, StaticInterface):
                    sym.interface = AutomaticInterface()
                else:
                    sym.interface = StaticInterface()
            elif opn == "specialise":
                if type(sym) is not Symbol:
                    return "inapplicable"
                sym.specialise(DataSymbol, datatype=INTEGER_TYPE)
            elif opn == "access":
                if not isinstance(sym.interface, ArgumentInterface):
                    return "inapplicable"
                acc = ArgumentInterface.Access
                sym.interface.access = (acc.READ if sym.interface.access
                                        != acc.READ else acc.READWRITE)
            elif opn == "visibility":
                vis = Symbol.Visibility
                sym.visibility = (vis.PRIVATE if sym.visibility == vis.PUBLIC
                                  else vis.PUBLIC)
            elif opn == "constant":
                sym.is_constant = not sym.is_constant
            return "applied"
        if opn in ("newsym", "newclash", "unitname"):
            scope = pair.scopes[side][idx]
            if not pair.within(side, scope):
                return "inapplicable"
            table = scope.symbol_table
            if opn == "newsym":
                table.new_symbol("zz_new", symbol_type=DataSymbol,
                                 datatype=INTEGER_TYPE)
            elif opn == "newclash":
                if not table.symbols:
                    return "inapplicable"
                table.new_symbol(table.symbols[-1].name,
                                 symbol_type=DataSymbol, datatype=REAL_TYPE)
            else:
                scope.name = scope.name + "_zz"
            return "applied"
        node = pair.nodes[side][idx]
        if not pair.within(side, node):
            return "inapplicable"
        if opn == "literal":
            intr = node.datatype.intrinsic
            kinds = ScalarType.Intrinsic
            if intr == kinds.INTEGER:
                val = "9" if node.value != "9" else "8"
            elif intr == kinds.REAL:
                val = "9.5" if node.value != "9.5" else "8.5"
            elif intr == kinds.BOOLEAN:
                val = "false" if node.value == "true" else "true"
            else:
                val = "zz"
            if node.parent is None:
                return "inapplicable"
            node.replace_with(Literal(val, node.datatype))
        elif opn == "addstmt":
            if node.children:
                node.addchild(node.children[0].copy())
            else:
                node.addchild(Return())
        elif opn == "delstmt":
            if node.parent is None:
                return "inapplicable"
            node.detach()
        elif opn == "loopstop":
            node.stop_expr = Literal("3", INTEGER_TYPE)
        elif opn == "loopstart":
            node.start_expr = Literal("2", INTEGER_TYPE)
        elif opn == "loopstep":
            node.step_expr = Literal("4", INTEGER_TYPE)
        elif opn == "loopvar":
            # another integer scalar of this side that is in scope
            cands = [s for _i, s in pair.syms[side]
                     if _int_scalar(s) and s is not node.variable]
            if not cands:
                return "inapplicable"
            node.variable = cands[0]
        elif opn == "callarg":
            node.append_named_arg("zz_arg", Literal("1", INTEGER_TYPE))
        elif opn == "ompsched":
            node.omp_schedule = ("static" if node.omp_schedule != "static"
                                 else "guided")
        elif opn == "refsym":
            cands = [s for _i, s in pair.syms[side]
                     if type(s) is DataSymbol and s is not node.symbol]
            if not cands:
                return "inapplicable"
            node.symbol = cands[0]
        else:
            raise RuntimeError(f"unknown edit {opn}")
        return "applied"
    except refusals() as err:
        return f"refused:{type(err).__name__}"
