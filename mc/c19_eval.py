"""Oracle of C19: exact linear-map extraction with the E1 interpreter.

For one tangent-linear kernel text, one adjoint kernel text (as written by
PSyAD) and one set of active variables, both routines are executed by
``mc.fortsem.interp`` over ``Fraction`` values on the unit vectors of the
active state (all elements of all active variables) for every passive
valuation; the two matrices must be exact transposes of each other.
Nothing in here looks at how PSyAD derived the adjoint.
"""
from fractions import Fraction as F

from mc.fortsem import interp as I
from mc.gen import c19_kernels as G

ARRAYS = {"q": 1, "u": 1, "v": 1, "w": 2}
P_VALUES = (F(2), F(-3))
N_VALUES = (1, 2, 3, 4)
# q(0:5): distinct, non-zero, both sides of the 0.5 used by the `q(i) > 0.5` test
Q_VALUES = (F(3, 2), F(1, 4), F(5, 2), F(3, 8), F(7, 2), F(-1, 2))
PRIMES = (2, 3, 5, 7, 11, 13, 17, 19, 23, 29, 31, 37, 41, 43, 47, 53, 59, 61,
          67, 71, 73, 79, 83, 89, 97, 101, 103, 107, 109, 113, 127, 131, 137,
          139, 149, 151, 157, 163, 167, 173, 179, 181, 191, 193, 197, 199, 211,
          223, 227, 229, 233, 239, 241, 251, 257, 263, 269, 271, 277, 281, 283,
          293, 307, 311, 313, 317, 331, 337, 347, 349, 353, 359, 367, 373, 379)


class Inadmissible(Exception):
    """The reference run of the TANGENT-LINEAR code is not defined: a fault of
    the generator, never of PSyAD."""


def passive_value(var, idx, pval):
    """Base value of an element of a real variable when it is passive:
    distinct, non-zero, exactly representable."""
    if var == "p":
        return pval
    if var == "q":
        return Q_VALUES[idx[0]]
    if var == "xa":
        return F(5, 2)
    if var == "ya":
        return F(-7, 2)
    if var == "u":
        return F(idx[0] + 2)
    if var == "v":
        return F(-(2 * idx[0] + 1), 2)
    return F(3 + idx[0] + 10 * idx[1], 4)


def var_cells(var, mval):
    if var not in ARRAYS:
        return [(var, ())]
    bounds = [(0, mval)] * ARRAYS[var]
    return [(var, idx) for idx in I.index_tuples(bounds)]


def state_cells(active, mval):
    """Cells of the active state in a fixed order (argument order)."""
    out = []
    for var in G.REALS:
        if var in active:
            out += var_cells(var, mval)
    return out


def build_args(mval, pval, active, vector):
    """Argument storage for tl_k_code/adj_k_code(m, p, q, xa, ya, u, v, w).
    vector: dict cell -> value of the active state (missing = 0)."""
    args = [I.make_scalar("m", "int", mval)]
    for var in G.REALS:
        cells = var_cells(var, mval)
        if var in active:
            vals = [vector.get(c, F(0)) for c in cells]
        else:
            vals = [passive_value(var, c[1], pval) for c in cells]
        if var in ARRAYS:
            args.append(I.make_array(var, "real", [(0, mval)] * ARRAYS[var], vals))
        else:
            args.append(I.make_scalar(var, "real", vals[0]))
    return args


def observe(args):
    out = {}
    for stor in args:
        if isinstance(stor, I.Cell):
            out[stor.loc] = stor.v
        else:
            for cell in stor.cells:
                out[cell.loc] = cell.v
    return out


def run_once(tree, routine, mval, pval, active, vector):
    """-> ('ok', {cell: value}) | ('ub', kind, text).  Unsupported propagates
    (a limitation of the harness)."""
    args = build_args(mval, pval, active, vector)
    interp = I.Interp(tree, horizon=200000)
    try:
        interp.run(routine, args)
    except I.UB as err:
        return ("ub", err.kind, str(err))
    return ("ok", observe(args))


def show_cell(cell):
    var, idx = cell
    return f"{var}({','.join(str(i) for i in idx)})" if idx else var


def show_val(val):
    if isinstance(val, F):
        return str(val.numerator) if val.denominator == 1 else str(val)
    return repr(val)


class LinearMap:
    """Result of probing one routine for one passive valuation."""

    def __init__(self):
        self.cols = {}        # cell -> {cell: value}  (image of the unit vector)
        self.problem = None   # (kind, text) first deviation from linearity / UB
        self.passive_in = {}
        self.passive_out = {}  # passive cell -> value after the run
        self.passive_dep = None  # passive cell whose final value depends on the active input


def probe(tree, routine, mval, pval, active, full=True):
    """Matrix of `routine` on the active state, column by column, plus the
    linearity tests (zero vector, 2*e_k, sum of e_k, sum of prime_k*e_k)."""
    cells = state_cells(active, mval)
    res = LinearMap()

    def run(vector, what):
        out = run_once(tree, routine, mval, pval, active, vector)
        if out[0] == "ub":
            if res.problem is None:
                res.problem = ("ub:" + out[1], f"{what}: {out[2]}")
            return None
        vals = out[1]
        for cell in cells:
            if not isinstance(vals[cell], F):
                if res.problem is None:
                    res.problem = ("undefined-value",
                                   f"{what}: {show_cell(cell)} is "
                                   f"{vals[cell]!r} after the run")
                return None
        passive = {c: v for c, v in vals.items() if c[0] not in active}
        if not res.passive_out:
            res.passive_out = passive
        elif passive != res.passive_out and res.passive_dep is None:
            for cell in sorted(passive, key=str):
                if passive[cell] != res.passive_out[cell]:
                    res.passive_dep = (cell, what)
                    break
        return vals

    zero = run({}, "zero vector")
    if zero is None:
        return res
    res.passive_in = {c: v for c, v in observe(
        build_args(mval, pval, active, {})).items() if c[0] not in active}
    for cell in cells:
        if zero[cell] != 0 and res.problem is None:
            res.problem = ("affine", f"the zero vector is mapped to "
                           f"{show_cell(cell)}={show_val(zero[cell])}")
    for cell in cells:
        vals = run({cell: F(1)}, f"unit vector {show_cell(cell)}")
        if vals is None:
            return res
        res.cols[cell] = {c: vals[c] for c in cells}
    if res.problem is not None or not full:
        return res

    def expect(vector):
        out = {c: F(0) for c in cells}
        for src, coef in vector.items():
            col = res.cols[src]
            for cell in cells:
                if col[cell] != 0:
                    out[cell] += coef * col[cell]
        return out

    tests = [({c: F(2)}, f"2*unit vector {show_cell(c)}") for c in cells]
    tests.append(({c: F(1) for c in cells}, "sum of all unit vectors"))
    tests.append(({c: F(PRIMES[k % len(PRIMES)]) for k, c in enumerate(cells)},
                  "weighted vector (k-th prime in element k)"))
    for vector, what in tests:
        vals = run(vector, what)
        if vals is None:
            return res
        want = expect(vector)
        for cell in cells:
            if vals[cell] != want[cell]:
                res.problem = ("nonlinear", f"{what}: {show_cell(cell)}="
                               f"{show_val(vals[cell])} but linearity requires "
                               f"{show_val(want[cell])}")
                return res
    return res


def valuations(items, active):
    """Passive valuations that can matter for this body: p only when p is a
    passive variable of the body, n only when the body has a loop or uses
    array notation.  Largest n first is NOT used: smallest first, so that the
    reported counterexample is the smallest one."""
    bvars = G.body_vars(items)
    pvals = P_VALUES if ("p" in bvars and "p" not in active) else P_VALUES[:1]
    nvals = N_VALUES if G.uses_extent(items) else N_VALUES[:1]
    return [(pval, nval) for pval in pvals for nval in nvals]


def entry_class(row, col):
    """Class of a matrix entry of the adjoint: which variable receives (row)
    from which variable (col)."""
    if row == col:
        return f"{row[0]}.diag"
    return f"{row[0]}<-{col[0]}"


def compare(tl_tree, ad_tree, items, active):
    """Judge one (kernel, active set).  Returns a dict:
    verdict: 'ok' | 'viol' | 'tl-not-linear'
    kind/classes/msg for violations; runs = number of interpreter runs;
    passive_note: passive results that differ but are not judged.
    The matrices are extracted (and the zero vector is run) for every
    valuation; the additional linearity vectors (2*e_k, sum, weighted) are run
    for the largest n of every p: with n = 4 every loop kind iterates and every
    condition takes both values, so every statement that can execute does."""
    # real variables that some statement of the body assigns
    written = {stmt[1][0] for stmt in G.statements(items)}
    out = {"verdict": "ok", "runs": 0, "passive_note": None,
           "passive_constant": not any(v in written and v not in active
                                       for v in G.REALS)}
    vals = valuations(items, active)
    nmax = max(n for _p, n in vals)
    for pval, nval in vals:
        full = nval == nmax
        mval = nval + 1
        where = f"p={show_val(pval)}, n={nval} (m={mval})"
        tlm = probe(tl_tree, G.TL_ROUTINE, mval, pval, active, full)
        cells = state_cells(active, mval)
        out["runs"] += 2 * (len(cells) * (2 if full else 1) + 3)
        if tlm.problem is not None or tlm.passive_dep is not None:
            out.update(verdict="tl-not-linear",
                       msg=f"{where}: tangent-linear code: "
                           f"{tlm.problem or tlm.passive_dep}")
            return out
        out["nval"] = nval
        adm = probe(ad_tree, G.AD_ROUTINE, mval, pval, active, full)
        if adm.problem is not None:
            kind = adm.problem[0]
            out.update(verdict="viol", kind="adjoint-" + kind, classes=[],
                       msg=f"{where}: adjoint code is not a linear map of the "
                           f"active state: {adm.problem[1]}")
            return out
        bad = []
        for row in cells:
            for col in cells:
                got = adm.cols[col][row]
                want = tlm.cols[row][col]
                if got != want:
                    bad.append((row, col, got, want))
        if bad:
            classes = sorted({entry_class(r, c) for r, c, _g, _w in bad})
            row, col, got, want = bad[0]
            out.update(
                verdict="viol", kind="not-transpose", classes=classes,
                negated=all(g == -w for _r, _c, g, w in bad),
                msg=f"{where}: adjoint matrix entry [{show_cell(row)} <- "
                    f"{show_cell(col)}] is {show_val(got)} but the transpose of "
                    f"the tangent-linear matrix has {show_val(want)} "
                    f"({len(bad)} of {len(cells) ** 2} entries differ)")
            return out
        # passive variables
        if adm.passive_dep is not None:
            cell, what = adm.passive_dep
            out.update(verdict="viol", kind="passive-depends-on-active",
                       classes=[cell[0]],
                       msg=f"{where}: passive {show_cell(cell)} after the adjoint "
                           f"code depends on the active input ({what})")
            return out
        for cell in sorted(adm.passive_out, key=str):
            before = tlm.passive_in[cell]
            if cell[0] not in written:
                # no statement of the kernel assigns this passive variable
                if tlm.passive_out[cell] != before:
                    raise Inadmissible(f"tangent-linear code changes "
                                       f"{show_cell(cell)}")
                if adm.passive_out[cell] != before:
                    out.update(
                        verdict="viol", kind="passive-modified",
                        classes=[cell[0]],
                        msg=f"{where}: passive {show_cell(cell)}="
                            f"{show_val(before)} is not assigned by the "
                            f"tangent-linear code but the adjoint code sets it "
                            f"to {show_val(adm.passive_out[cell])}")
                    return out
            elif adm.passive_out[cell] != tlm.passive_out[cell] and \
                    out["passive_note"] is None:
                out["passive_note"] = (
                    f"{where}: passive {show_cell(cell)} is "
                    f"{show_val(tlm.passive_out[cell])} after the tangent-linear "
                    f"code and {show_val(adm.passive_out[cell])} after the adjoint")
    return out
