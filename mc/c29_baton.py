"""E4 schedule explorer, part (a): a baton (cooperative) scheduler for real
Python threads whose only scheduling points are file-system operations issued
through proxies of ``os`` / ``open`` that are planted in the namespace of the
module under test (``psyclone.psyGen``) -- the source of /repo is not changed.

Exactly one thread runs at any time.  A thread that reaches a file-system
operation *parks before performing it*; the scheduler then picks which parked
thread performs its operation next.  A schedule is the list of thread ids in
the order in which they were allowed to perform one operation, and replaying
that list reproduces the execution exactly (checked: the operation each
thread is parked at is compared with the recorded one at every position;
a mismatch is a hard harness error, as is a step that does not come back).

The module also contains the CHESS-style explorer (iterative preemption
bounding without rework) that drives an ``execute(prefix)`` callback.
"""
import builtins
import errno
import os as _os
import threading

STEP_TIMEOUT = 120.0


class BatonError(Exception):
    """The scheduling machinery itself failed (never a verdict)."""


class _Abort(BaseException):
    """Raised inside parked run-threads when an execution is torn down."""


# os functions that never look at the file system: not scheduling points.
PURE_OS = {"getpid", "fspath", "getcwd", "strerror", "urandom", "fsencode",
           "fsdecode", "getenv", "cpu_count", "getuid", "umask"}
# os.path functions that DO look at the file system: scheduling points.
VISIBLE_PATH = {"exists", "lexists", "isfile", "isdir", "islink", "getsize",
                "getmtime", "getatime", "getctime", "samefile", "ismount",
                "realpath"}


class Baton:
    """Runs ``bodies`` (callables) as threads, one FS operation at a time."""

    def __init__(self, bodies, outdir, labels=None, symmetry=False,
                 local_ops=()):
        self.bodies = bodies
        self.outdir = outdir
        self.labels = labels or [str(i) for i in range(len(bodies))]
        self.symmetry = symmetry
        # Partial-order reduction (only when local_ops is given): an
        # operation that touches run-private state only commutes with every
        # operation of the other runs, so {that operation} is a persistent
        # set and it is executed without branching.  Run-private are (a) the
        # operations named in local_ops (os.close of a private descriptor)
        # and (b) operations all of whose paths carry the pid that os.getpid()
        # reported to this run (private temporary files).  (b) rests on "no
        # run touches a path that carries another run's pid", which is
        # checked on every operation of every execution (BatonError if not).
        self.local_ops = tuple(local_ops)
        self.pidtok = {}            # tid -> pid string handed out to the run
        self.is_local = {}          # tid -> pending operation is run-private
        self.fault = None
        self.cv = threading.Condition()
        self.turn = None            # tid allowed to run; None = scheduler
        self.abort = False
        self.pending = {}           # tid -> descriptor string "op:path"
        self.done = {}              # tid -> ("ok", value) | ("raise", type, msg)
        self.tids = {}              # thread ident -> tid
        self.trace = []             # executed operations, in global order
        self.fdpath = {}            # (tid, fd) -> relative path
        self.nsteps = [0] * len(bodies)
        self.texts = []             # content table (index = content id)
        self.threads = []

    # ---- used by the proxies (run-thread side) ---------------------------
    def current(self):
        return self.tids.get(threading.get_ident())

    def rel(self, path):
        path = _os.fspath(path)
        if isinstance(path, bytes):
            path = path.decode()
        pre = self.outdir.rstrip("/") + "/"
        return path[len(pre):] if path.startswith(pre) else path

    def text_id(self, text):
        if isinstance(text, bytes):
            text = text.decode("utf-8", "replace")
        if text not in self.texts:
            self.texts.append(text)
        return self.texts.index(text)

    def pid_for(self, tid):
        self.pidtok[tid] = str(700000 + tid)
        return 700000 + tid

    def _private(self, tid, descr):
        opname, _, path = descr.partition(":")
        for other, tok in self.pidtok.items():
            if self.local_ops and other != tid and tok in path:
                # reported by the scheduler thread (raising here would end
                # up inside the code under test)
                self.fault = (f"run {tid} touches '{path}', which carries the "
                              f"pid of run {other}: the privacy assumption "
                              f"of the reduction does not hold")
        if not self.local_ops:
            return False
        if opname in self.local_ops:
            return True
        tok = self.pidtok.get(tid)
        parts = path.split("->") if path not in ("", "None") else []
        return bool(tok and parts and all(tok in part for part in parts))

    def point(self, tid, descr):
        """Park the calling run-thread before an FS operation."""
        local = self._private(tid, descr)
        with self.cv:
            self.pending[tid] = descr
            self.is_local[tid] = local
            self.turn = None
            self.cv.notify_all()
            while self.turn != tid and not self.abort:
                self.cv.wait()
            if self.abort:
                raise _Abort()
            del self.pending[tid]
            self.nsteps[tid] += 1

    def record(self, tid, opname, path, res, **more):
        ent = {"t": tid, "op": opname, "path": path, "res": res}
        ent.update(more)
        self.trace.append(ent)

    # ---- scheduler side ---------------------------------------------------
    def _thread_main(self, tid):
        self.tids[threading.get_ident()] = tid
        with self.cv:
            while self.turn != tid and not self.abort:
                self.cv.wait()
            if self.abort:
                return
        try:
            out = ("ok", self.bodies[tid]())
        except _Abort:
            return
        except BaseException as err:  # pylint: disable=broad-except
            out = ("raise", type(err).__name__, str(err))
        with self.cv:
            self.done[tid] = out
            self.turn = None
            self.cv.notify_all()

    def _step(self, tid):
        with self.cv:
            self.turn = tid
            self.cv.notify_all()
            if not self.cv.wait_for(lambda: self.turn is None, STEP_TIMEOUT):
                self.abort = True
                self.cv.notify_all()
                raise BatonError(f"thread {tid} did not reach its next "
                                 f"scheduling point within {STEP_TIMEOUT}s")
        if self.fault:
            raise BatonError(self.fault)

    def enabled(self):
        live = sorted(self.pending)
        for tid in live:
            if self.is_local.get(tid):
                return [tid]
        if not self.symmetry:
            return live
        out = []
        for tid in live:
            # identically labelled runs are interchangeable until they have
            # performed their first operation: only the lowest-numbered
            # not-yet-started one of each label may start.
            if self.nsteps[tid] == 0 and any(
                    self.labels[o] == self.labels[tid] and self.nsteps[o] == 0
                    for o in range(tid)):
                continue
            out.append(tid)
        return out

    def run(self, prefix, expect=None):
        """Execute: follow ``prefix`` then the default non-preemptive policy.
        Returns None when the prefix is infeasible (only allowed when no
        ``expect`` list was given, i.e. for blind prefixes)."""
        steps = []
        try:
            for tid in range(len(self.bodies)):
                thr = threading.Thread(target=self._thread_main, args=(tid,),
                                       daemon=True, name=f"run{tid}")
                self.threads.append(thr)
                thr.start()
                self._step(tid)       # run to its first FS operation
            last = None
            pos = 0
            while len(self.done) < len(self.bodies):
                ena = self.enabled()
                if not ena:
                    raise BatonError(
                        f"deadlock: no enabled thread, finished="
                        f"{sorted(self.done)}, parked={sorted(self.pending)}")
                ops = {t: self.pending[t] for t in ena}
                if pos < len(prefix):
                    tid = prefix[pos]
                    if tid not in ena:
                        if expect is None:
                            return None
                        raise BatonError(
                            f"prefix divergence at {pos}: thread {tid} not "
                            f"enabled (enabled {ena}) in {prefix}")
                    if expect is not None and pos < len(expect) and \
                            expect[pos] != ops[tid]:
                        raise BatonError(
                            f"prefix divergence at {pos}: thread {tid} is at "
                            f"'{ops[tid]}', recorded '{expect[pos]}'")
                else:
                    tid = last if last in ena else ena[0]
                steps.append({"en": ena, "c": tid, "op": ops[tid],
                              "pre": int(last in ena and tid != last)})
                self._step(tid)
                last = tid
                pos += 1
            if pos < len(prefix):
                if expect is None:
                    return None
                raise BatonError(f"prefix divergence: execution ended after "
                                 f"{pos} steps, prefix has {len(prefix)}")
        finally:
            with self.cv:
                self.abort = True
                self.cv.notify_all()
            for thr in self.threads:
                thr.join(5.0)
        return {"steps": steps, "done": [list(self.done[t])
                                         for t in range(len(self.bodies))],
                "trace": self.trace, "texts": self.texts}


# ---------------------------------------------------------------------------
# proxies
# ---------------------------------------------------------------------------
def _errname(err):
    if isinstance(err, OSError) and err.errno is not None:
        return errno.errorcode.get(err.errno, str(err.errno))
    return type(err).__name__


class _PathProxy:
    def __init__(self, baton):
        self._b = baton

    def __getattr__(self, name):
        real = getattr(_os.path, name)
        if name not in VISIBLE_PATH or not callable(real):
            return real
        bat = self._b

        def call(*args, **kw):
            tid = bat.current()
            if tid is None:
                return real(*args, **kw)
            path = bat.rel(args[0]) if args else None
            bat.point(tid, f"path.{name}:{path}")
            res = real(*args, **kw)
            bat.record(tid, f"path.{name}", path, repr(res))
            return res
        return call


class OsProxy:
    """Stands in for the ``os`` module inside the module under test."""

    def __init__(self, baton):
        self._b = baton
        self.path = _PathProxy(baton)

    def getpid(self):
        # each run models a separate process
        tid = self._b.current()
        return _os.getpid() if tid is None else self._b.pid_for(tid)

    def __getattr__(self, name):
        real = getattr(_os, name)
        if not callable(real) or name in PURE_OS or isinstance(real, type):
            return real
        bat = self._b

        def call(*args, **kw):
            tid = bat.current()
            if tid is None:
                return real(*args, **kw)
            paths = [bat.rel(a) for a in args[:2]
                     if isinstance(a, (str, _os.PathLike))]
            if paths:
                path = "->".join(paths)
            elif args and isinstance(args[0], int):
                path = bat.fdpath.get((tid, args[0]), f"fd?{args[0]}")
            else:
                path = None
            more = {}
            if name == "open" and len(args) > 1:
                flags = args[1]
                more["flags"] = "|".join(
                    n for n in ("O_CREAT", "O_EXCL", "O_TRUNC", "O_APPEND",
                                "O_WRONLY", "O_RDWR")
                    if flags & getattr(_os, n))
            if name in ("write", "pwrite") and len(args) > 1:
                more["data"] = bat.text_id(args[1])
            bat.point(tid, f"{name}:{path}")
            try:
                res = real(*args, **kw)
            except BaseException as err:
                bat.record(tid, name, path, "err:" + _errname(err), **more)
                raise
            if name == "open":
                bat.fdpath[(tid, res)] = path
                bat.record(tid, name, path, "fd", **more)
            elif name == "read":
                bat.record(tid, name, path, "data", data=bat.text_id(res))
            else:
                bat.record(tid, name, path,
                           res if isinstance(res, (int, bool, type(None)))
                           else "value", **more)
            return res
        return call


class _FileProxy:
    """A file object returned by the proxied builtin ``open``: reads and
    writes are scheduling points; writes are flushed at once so that the
    write operation (not the later close) is the visible event."""

    def __init__(self, baton, tid, real, path):
        self._b, self._t, self._f, self._p = baton, tid, real, path

    def __enter__(self):
        return self

    def __exit__(self, *exc):
        self._f.close()
        return False

    def __iter__(self):
        return iter(self.read().splitlines(True))

    def __getattr__(self, name):
        return getattr(self._f, name)

    def read(self, *args):
        self._b.point(self._t, f"fread:{self._p}")
        res = self._f.read(*args)
        self._b.record(self._t, "fread", self._p, "data",
                       data=self._b.text_id(res))
        return res

    def readlines(self, *args):
        return self.read().splitlines(True)

    def write(self, data):
        self._b.point(self._t, f"fwrite:{self._p}")
        res = self._f.write(data)
        self._f.flush()
        self._b.record(self._t, "fwrite", self._p, res,
                       data=self._b.text_id(data))
        return res


def make_open_proxy(baton):
    def proxy_open(file, mode="r", *args, **kw):
        tid = baton.current()
        if tid is None:
            return builtins.open(file, mode, *args, **kw)
        path = baton.rel(file) if isinstance(file, (str, bytes, _os.PathLike)) \
            else f"fd?{file}"
        baton.point(tid, f"fopen[{mode}]:{path}")
        try:
            real = builtins.open(file, mode, *args, **kw)
        except BaseException as err:
            baton.record(tid, "fopen", path, "err:" + _errname(err), mode=mode)
            raise
        baton.record(tid, "fopen", path, "file", mode=mode)
        return _FileProxy(baton, tid, real, path)
    return proxy_open


class planted:
    """Context manager: plant the proxies in ``module`` for one execution."""

    def __init__(self, module, baton):
        self.mod, self.baton = module, baton
        self.saved = None

    def __enter__(self):
        self.saved = (self.mod.__dict__.get("os"), "open" in self.mod.__dict__,
                      self.mod.__dict__.get("open"))
        self.mod.os = OsProxy(self.baton)
        self.mod.open = make_open_proxy(self.baton)
        return self

    def __exit__(self, *exc):
        self.mod.os = self.saved[0]
        if self.saved[1]:
            self.mod.open = self.saved[2]
        else:
            del self.mod.open
        return False


# ---------------------------------------------------------------------------
# explorer
# ---------------------------------------------------------------------------
def explore(execute, blind_prefix, budget=None, max_bound=None):
    """All maximal schedules that extend ``blind_prefix``, in order of
    increasing preemption count (CHESS iterative context bounding; every
    maximal schedule is executed exactly once).

    ``execute(prefix, expect)`` runs one execution and returns the record of
    ``Baton.run`` (or None for an infeasible blind prefix) -- it is called
    with ``expect=None`` only for the blind prefix.  Yields
    ``(schedule, preemptions, record)``.  The generator's return value (via
    StopIteration) is a dict: feasible, exhausted, bound_completed, nodes.
    Branching happens only at positions >= len(blind_prefix)."""
    depth0 = len(blind_prefix)
    first = execute(list(blind_prefix), None)
    info = {"feasible": first is not None, "exhausted": True,
            "budget_hit": False, "bound_completed": None, "nodes": 0,
            "executions": 0}
    if first is None:
        return info
    if len(first["steps"]) < depth0:
        raise BatonError("a maximal schedule is shorter than the blind prefix")
    levels = {}
    count = 0

    def absorb(rec, start):
        """Register the alternatives of ``rec`` at positions >= start and
        return its preemption count."""
        steps = rec["steps"]
        pre = 0
        for pos, stp in enumerate(steps):
            if pos >= start:
                last = steps[pos - 1]["c"] if pos else None
                for alt in stp["en"]:
                    if alt == stp["c"]:
                        continue
                    cost = pre + int(last in stp["en"] and alt != last)
                    levels.setdefault(cost, []).append(
                        ([s["c"] for s in steps[:pos]] + [alt],
                         [s["op"] for s in steps[:pos]]))
            pre += stp["pre"]
        return pre

    npre = absorb(first, depth0)
    count += 1
    if max_bound is None or npre <= max_bound:
        info["nodes"] += len(first["steps"]) - depth0 + 1
        yield [s["c"] for s in first["steps"]], npre, first
    level = 0
    while levels:
        level = min(levels)
        queue = levels[level]
        if not queue:
            del levels[level]
            continue
        if max_bound is not None and level > max_bound:
            info["exhausted"] = False
            break
        if budget is not None and count >= budget:
            info["exhausted"] = False
            info["budget_hit"] = True
            break
        prefix, expect = queue.pop()
        rec = execute(prefix, expect)
        if rec is None:
            raise BatonError("a recorded prefix became infeasible")
        npre = absorb(rec, len(prefix))
        if npre != level:
            raise BatonError(f"preemption accounting: expected {level}, "
                             f"executed {npre} for {prefix}")
        info["nodes"] += len(rec["steps"]) - len(prefix) + 1
        count += 1
        yield [s["c"] for s in rec["steps"]], npre, rec
    info["executions"] = count
    if info["exhausted"]:
        info["bound_completed"] = level
    else:
        # every level strictly below the one with work left is complete
        left = min(k for k, q in levels.items() if q)
        info["bound_completed"] = left - 1
    return info
