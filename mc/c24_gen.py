"""C24 corpus: LFRic algorithm programs, their positional model and their
reference semantics.

Everything in this module is independent of PSyclone: programs are generated
as text from an explicit description (which actual argument is written at
which kernel-argument position of which invoke), and the same description is
the model the oracles use.  Nothing here is derived from PSyclone's parse.
"""
import itertools
import re

F, S, R, E = "F", "S", "R", "E"      # field, real scalar (read), sum scalar, stencil extent

# letter -> (name written in the invoke, kinds of its algorithm-layer arguments)
KERNELS = {
    "s": ("setval_c", (F, S)),
    "x": ("X_plus_Y", (F, F, F)),
    "i": ("inc_aX_plus_Y", (S, F, F)),
    "p": ("X_innerproduct_Y", (R, F, F)),
    "t": ("testkern_type", (S, F, F, F, F)),
    "c": ("testkern_stencil_type", (F, F, E, F, F)),
}
BUILTINS = "sxip"
USER = {"t": "testkern_mod", "c": "testkern_stencil_mod"}
LETTER_OF = {v[0].lower(): k for k, v in KERNELS.items()}

NLAYERS = 3
NCELLS = 9


def canon(text):
    """Identity of an actual argument: its text modulo case and blanks."""
    return re.sub(r"\s+", "", text).lower()


# ---------------------------------------------------------------------------
# actual-argument alphabet: entity (canonical text) -> spellings
# ---------------------------------------------------------------------------
FIELD_SPELL = {
    "f1": ["f1", "F1", " f1 "],
    "f2": ["f2", "F2", "f2  "],
    "f3": ["f3", "F3"],
    "f4": ["f4", "F4"],
    "f5": ["f5", " F5"],
    "f6": ["f6"],
    "f7": ["f7"],
    "f8": ["f8"],
    "f(1)": ["f(1)", "F(1)", "f( 1 )"],
    "f(2)": ["f(2)", "f (2)", "F( 2)"],
    "f(i)": ["f(i)", "f( I )", "F(i)"],
    "state%f": ["state%f", "state % f", "STATE%F"],
    "state%g(1)": ["state%g(1)", "state %g (1)"],
    "state%g(2)": ["state%g(2)", "state % g( 2 )", "State%G(2)"],
    "f_1": ["f_1", "F_1"],
    "state_f": ["state_f", "STATE_F"],
}
FIELD_ORDER = list(FIELD_SPELL)
# initial value of every field entity: distinct small primes
_PRIMES = [3, 5, 7, 11, 13, 17, 19, 23, 29, 31, 37, 41, 43, 47, 53, 59]
FIELD_INIT = dict(zip(FIELD_ORDER, _PRIMES))

PALETTES = {
    "plain": ["f1", "f2", "f3", "f4", "f5", "f6", "f7", "f8"],
    "index": ["f(1)", "f(2)", "f(i)", "f1", "f2", "f3", "f4", "f5"],
    "struct": ["state%f", "state%g(2)", "f1", "state%g(1)", "f(1)", "f2", "f3", "f4"],
    "clash": ["f(1)", "f(2)", "f_1", "state%f", "state_f", "f1", "f2", "f3"],
}
PALETTE_ORDER = ["plain", "index", "struct", "clash"]

SCALAR_SPELL = {
    "a": ["a", "A", " a "],
    "b": ["b", "B"],
    "c": ["c"],
    "1.0_r_def": ["1.0_r_def", " 1.0_r_def"],
    "2.0_r_def": ["2.0_r_def"],
    "-1.0_r_def": ["-1.0_r_def", "- 1.0_r_def"],
    "-a": ["-a"],
    "asum": ["asum", "ASUM"],
    "bsum": ["bsum"],
    "csum": ["csum"],
}
SCALAR_VARS = {"a": 2, "b": 3, "c": 5, "asum": -1, "bsum": -2, "csum": -3}
SCALAR_LIT = {"1.0_r_def": 1, "2.0_r_def": 2, "-1.0_r_def": -1}

SCALAR_PALETTES = {
    "var": ["a", "b", "c"],
    "lit": ["1.0_r_def", "2.0_r_def", "-1.0_r_def"],
    "mixed": ["a", "1.0_r_def", "b"],
    "neglit": ["-1.0_r_def", "a", "2.0_r_def"],
}
SUM_PALETTES = {
    "sum": ["asum", "bsum", "csum"],
    "suma": ["a", "asum", "bsum"],
}
EXTENT_SPELL = {
    "extent": ["extent", "EXTENT"],
    "n(1)": ["n(1)", "n( 1 )"],
    "n(2)": ["n(2)", "N(2)"],
    "state%n": ["state%n", "state % n"],
    "1": ["1"],
    "2": ["2"],
}
EXTENT_VALUE = {"extent": 1, "n(1)": 1, "n(2)": 2, "state%n": 2, "1": 1, "2": 2}
EXTENT_PALETTES = {
    "plain": ["extent", "n(1)", "state%n"],
    "index": ["n(1)", "n(2)", "extent"],
    "struct": ["state%n", "extent", "n(2)"],
    "lit": ["2", "1", "extent"],
}

ALL_SPELL = {}
for _tab in (FIELD_SPELL, SCALAR_SPELL, EXTENT_SPELL):
    for _ent, _sp in _tab.items():
        assert all(canon(s) == _ent for s in _sp), _ent
        ALL_SPELL[_ent] = _sp


def is_literal(ent):
    """True for an actual that is a literal constant (possibly signed)."""
    return re.fullmatch(r"-?[0-9.]+(_r_def)?", ent) is not None


def spelling_class(kind, text):
    """Coarse description of how an actual is spelled (used in signatures)."""
    ent = canon(text)
    if is_literal(ent):
        form = "neg-literal" if ent.startswith("-") else "literal"
    elif ent.startswith("-"):
        form = "neg-variable"
    elif "%" in ent and "(" in ent:
        form = "component-element"
    elif "%" in ent:
        form = "component"
    elif "(" in ent:
        inside = ent[ent.index("(") + 1:-1]
        form = "element-lit" if inside.isdigit() else "element-var"
    else:
        form = "name"
    names = {F: "field", S: "scalar", R: "sum", E: "extent"}
    return f"{names[kind]}:{form}"


# ---------------------------------------------------------------------------
# set partitions (restricted growth strings)
# ---------------------------------------------------------------------------
def partitions(groups, free=False, maxcls=None):
    """All set partitions of the slots, as restricted growth tuples.  `groups`
    gives for each slot the id of a group whose slots must stay pairwise
    distinct (None = unconstrained); with free=True the constraint is off."""
    num = len(groups)
    out = []

    def rec(pos, cur, ncls):
        if pos == num:
            out.append(tuple(cur))
            return
        for cls in range(ncls + 1):
            if maxcls is not None and cls >= maxcls:
                break
            grp = groups[pos]
            if not free and grp is not None and any(
                    cur[q] == cls and groups[q] == grp for q in range(pos)):
                continue
            cur.append(cls)
            rec(pos + 1, cur, max(ncls, cls + 1))
            cur.pop()

    rec(0, [], 0)
    return out


def slots_of(seq):
    """[(kernel index, argument position, kind)] of a kernel-letter sequence."""
    return [(ki, pos, kind) for ki, let in enumerate(seq)
            for pos, kind in enumerate(KERNELS[let][1])]


def field_partitions(seq, free=False):
    # PSyclone refuses an actual that is passed twice to one kernel (built-in or
    # user kernel), so the slots of one kernel stay pairwise distinct
    groups = [ki for ki, _pos, kind in slots_of(seq) if kind == F]
    return partitions(groups, free=free)


# ---------------------------------------------------------------------------
# one invoke = kernel sequence + choice of actuals
# ---------------------------------------------------------------------------
def scalar_options(seq, negvar=False):
    """Choices for the read-scalar slots: (partition, palette name)."""
    num = sum(1 for _k, _p, kind in slots_of(seq) if kind == S)
    if not num:
        return [None]
    opts = [(part, pal) for part in partitions([None] * num, maxcls=3)
            for pal in SCALAR_PALETTES]
    if negvar:
        opts.append(((0,) * num, "negvar"))
    return opts


def sum_options(seq):
    num = sum(1 for _k, _p, kind in slots_of(seq) if kind == R)
    if not num:
        return [None]
    return [(part, pal) for part in partitions([None] * num, maxcls=3)
            for pal in SUM_PALETTES]


def extent_options(seq):
    num = sum(1 for _k, _p, kind in slots_of(seq) if kind == E)
    if not num:
        return [None]
    return [(part, pal) for part in partitions([None] * num, maxcls=3)
            for pal in EXTENT_PALETTES]


def build_invoke(seq, fpart, palette, offset, vary, scopt, suopt, exopt):
    """Spell out one invoke: list of {"k": kernel name, "args": [text...]}."""
    ents_f = PALETTES[palette]
    seen = {}

    def spell(ent):
        cnt = seen.get(ent, 0)
        seen[ent] = cnt + 1
        forms = ALL_SPELL[ent]
        return forms[cnt % len(forms)] if vary else forms[0]

    counters = {F: 0, S: 0, R: 0, E: 0}
    kernels = []
    for let in seq:
        name, kinds = KERNELS[let]
        args = []
        for kind in kinds:
            idx = counters[kind]
            counters[kind] += 1
            if kind == F:
                ent = ents_f[(fpart[idx] + offset) % len(ents_f)]
            elif kind == S:
                part, pal = scopt
                ent = "-a" if pal == "negvar" else SCALAR_PALETTES[pal][part[idx]]
            elif kind == R:
                part, pal = suopt
                ent = SUM_PALETTES[pal][part[idx]]
            else:
                part, pal = exopt
                ent = EXTENT_PALETTES[pal][part[idx]]
            args.append(spell(ent))
        kernels.append({"k": name, "args": args})
    return kernels


def _pstr(part):
    return "".join(str(c) for c in part)


def _ostr(opt):
    return "-" if opt is None else f"{_pstr(opt[0])}{opt[1]}"


def invoke_key(seq, fpart, palette, offset, vary, scopt, suopt, exopt):
    return (f"{seq}:{_pstr(fpart)}:{palette}{offset}{'v' if vary else 'u'}:"
            f"{_ostr(scopt)}:{_ostr(suopt)}:{_ostr(exopt)}")


def single_invoke_elements(seq, mode):
    """Elements (one unnamed/named invoke each) for a kernel sequence.

    mode "full": every constrained field partition x every palette x both
    spelling modes, the scalar/sum/extent options rotating with the index,
    plus (all-distinct plain fields) x every scalar x sum x extent option.
    mode "rot": every field partition once, palette / spelling mode / options
    rotating with the partition index, plus the option product as above.
    mode "one": as "full" but additionally the partitions that repeat an
    actual inside the kernel (one palette each; PSyclone must refuse them) and
    the '-a' actual: the 1-kernel class.
    """
    free = mode == "one"
    fparts = field_partitions(seq, free=free)
    scs = scalar_options(seq, negvar=free)
    sus = sum_options(seq)
    exs = extent_options(seq)
    out = []
    seen = set()

    def emit(fpart, pal, off, vary, sco, suo, exo, named):
        key = invoke_key(seq, fpart, pal, off, vary, sco, suo, exo)
        if named:
            key += ":n"
        if key in seen:
            return
        seen.add(key)
        out.append({"key": key, "invokes": [{
            "name": "x" if named else None, "name_first": False,
            "kernels": build_invoke(seq, fpart, pal, off, vary, sco, suo, exo)}]})

    allowed = set(field_partitions(seq))
    nopt = (len(scs), len(sus), len(exs))
    for idx, fpart in enumerate(fparts):
        # the rotating choice: every partition once, palette / spelling mode /
        # offset / options / named-or-not cycling with the partition index
        emit(fpart, PALETTE_ORDER[idx % 4], idx % 3, (idx // 4) % 2 == 0,
             scs[idx % nopt[0]], sus[idx % nopt[1]], exs[idx % nopt[2]],
             named=(idx % 5 == 2))
        if mode == "rot" or fpart not in allowed:
            # (partitions that repeat an actual inside one kernel only occur in
            # mode "one"; PSyclone refuses them, one spelling each is enough)
            continue
        combos = [(pal, vary) for pal in PALETTE_ORDER for vary in (True, False)]
        for cno, (pal, vary) in enumerate(combos):
            rot = idx * len(combos) + cno
            emit(fpart, pal, (rot // 3) % 3, vary,
                 scs[rot % nopt[0]], sus[rot % nopt[1]], exs[rot % nopt[2]],
                 named=(rot % 5 == 2))
    distinct = max(fparts, key=lambda p: (max(p), p))
    for rot, (sco, suo, exo) in enumerate(itertools.product(scs, sus, exs)):
        emit(distinct, "plain", 0, rot % 2 == 0, sco, suo, exo, named=False)
    return out


# ---------------------------------------------------------------------------
# several invokes: naming
# ---------------------------------------------------------------------------
NAME_CONTENT = {
    "B": [{"k": "setval_c", "args": ["f1", "1.0_r_def"]}],
    "K": [{"k": "testkern_type", "args": ["a", "f1", "f2", "f(1)", "state%f"]}],
    "D": [{"k": "setval_c", "args": ["f(1)", "a"]},
          {"k": "X_plus_Y", "args": ["f(2)", "F(1)", "f1"]}],
}
NAME_CHOICES = [None, "x", "X", "y"]


def naming_elements(num, contents="BKD"):
    out = []
    for cont in itertools.product(contents, repeat=num):
        for nidx, names in enumerate(itertools.product(NAME_CHOICES, repeat=num)):
            key = "N:" + "".join(cont) + ":" + ",".join(n or "-" for n in names)
            invs = []
            for pos, (cnt, nam) in enumerate(zip(cont, names)):
                invs.append({"name": nam, "name_first": (nidx + pos) % 2 == 0,
                             "kernels": [dict(k) for k in NAME_CONTENT[cnt]]})
            out.append({"key": key, "invokes": invs})
    return out


# ---------------------------------------------------------------------------
# program text
# ---------------------------------------------------------------------------
def used_user_modules(invokes):
    mods = []
    for inv in invokes:
        for kern in inv["kernels"]:
            let = LETTER_OF[kern["k"].lower()]
            if let in USER and let not in mods:
                mods.append(let)
    return mods


def invoke_text(inv):
    parts = [f"{k['k']}({', '.join(k['args'])})" for k in inv["kernels"]]
    if inv.get("name") is not None:
        lab = f"name=\"{inv['name']}\""
        parts = [lab] + parts if inv.get("name_first") else parts + [lab]
    return "call invoke(" + ", &\n              ".join(parts) + ")"


def _field_actual(ent):
    return ent.replace("(i)", "(3)")


def _label(ent):
    return ent


def program_text(invokes, observe=True):
    """The algorithm file.  With observe=True every invoke is preceded by a
    reset of all data and followed by a report (used for the executed runs);
    the static runs use the same text so that both judge the same program."""
    lines = ["program c24_alg",
             "  use constants_mod, only: r_def, i_def",
             "  use field_mod, only: field_type",
             "  use c24_support_mod, only: c24_init, c24_set, c24_report, c24_report_scalar"]
    for let in used_user_modules(invokes):
        lines.append(f"  use {USER[let]}, only: {KERNELS[let][0]}")
    lines += ["  implicit none",
              "  type state_type",
              "    type(field_type) :: f",
              "    type(field_type) :: g(2)",
              "    integer(i_def) :: n",
              "  end type state_type",
              "  type(field_type) :: f1, f2, f3, f4, f5, f6, f7, f8",
              "  type(field_type) :: f(3)",
              "  type(field_type) :: f_1, state_f",
              "  type(state_type) :: state",
              "  real(r_def) :: a, b, c, asum, bsum, csum",
              "  integer(i_def) :: i, extent, n(2)"]
    if observe:
        for ent in FIELD_ORDER:
            lines.append(f"  call c24_init({_field_actual(ent)}, \"{_label(ent)}\")")
    for idx, inv in enumerate(invokes):
        if observe:
            for ent in FIELD_ORDER:
                lines.append(f"  call c24_set({_field_actual(ent)}, "
                             f"{FIELD_INIT[ent]}.0_r_def)")
            for var, val in SCALAR_VARS.items():
                lines.append(f"  {var} = {val}.0_r_def")
            lines += ["  i = 3", "  extent = 1", "  n(1) = 1", "  n(2) = 2",
                      "  state%n = 2"]
        lines.append("  " + invoke_text(inv))
        if observe:
            for ent in FIELD_ORDER:
                lines.append(f"  call c24_report({idx}, \"{_label(ent)}\", "
                             f"{_field_actual(ent)})")
            for var in SCALAR_VARS:
                lines.append(f"  call c24_report_scalar({idx}, \"{var}\", {var})")
    lines.append("end program c24_alg")
    return "\n".join(lines) + "\n"


# ---------------------------------------------------------------------------
# reference semantics of one invoke (exact integers, per cell column)
# ---------------------------------------------------------------------------
LIMIT = 1 << 45


class Overflow(Exception):
    """Values left the range in which IEEE doubles are exact."""


def _chk(val):
    if abs(val) >= LIMIT:
        raise Overflow()
    return val


def _lin(*terms):
    """Sum of products, every product and partial sum range-checked."""
    acc = 0
    for term in terms:
        prod = 1
        for fac in term:
            prod = _chk(prod * fac)
        acc = _chk(acc + prod)
    return acc


def reference_run(inv, stencil_sizes):
    """Sequential meaning of one invoke started from the initial state.
    Returns ({field entity: [value per cell]}, {scalar: value})."""
    fields = {ent: [FIELD_INIT[ent]] * NCELLS for ent in FIELD_ORDER}
    scal = dict(SCALAR_VARS)

    def sval(text):
        ent = canon(text)
        if ent in SCALAR_LIT:
            return SCALAR_LIT[ent]
        return scal[ent]

    cells = range(NCELLS)
    for kern in inv["kernels"]:
        let = LETTER_OF[kern["k"].lower()]
        arg = [canon(a) for a in kern["args"]]
        if let == "s":
            fields[arg[0]] = [_chk(sval(arg[1]))] * NCELLS
        elif let == "x":
            fields[arg[0]] = [_lin((fields[arg[1]][c],), (fields[arg[2]][c],))
                              for c in cells]
        elif let == "i":
            mul = sval(arg[0])
            fields[arg[1]] = [_lin((mul, fields[arg[1]][c]), (fields[arg[2]][c],))
                              for c in cells]
        elif let == "p":
            # every DoF (cell, layer) contributes the same product
            scal[arg[0]] = _lin(*[(fields[arg[1]][c], fields[arg[2]][c])
                                  for c in cells for _lay in range(NLAYERS)])
        elif let == "t":
            mul = sval(arg[0])
            fields[arg[1]] = [_lin((fields[arg[1]][c],), (mul, fields[arg[2]][c]),
                                   (2, fields[arg[3]][c]), (3, fields[arg[4]][c]))
                              for c in cells]
        elif let == "c":
            sizes = stencil_sizes[EXTENT_VALUE[arg[2]]]
            fields[arg[0]] = [_lin((fields[arg[0]][c],), (sizes[c], fields[arg[1]][c]),
                                   (7, fields[arg[3]][c]), (11, fields[arg[4]][c]))
                              for c in cells]
    return fields, scal


def is_nontrivial(element):
    """An element is non-trivial when some actual (by canonical text) is written
    at two or more kernel-argument positions of one invoke, or when it has
    more than one invoke."""
    if len(element["invokes"]) > 1:
        return True
    for inv in element["invokes"]:
        texts = [canon(a) for k in inv["kernels"] for a in k["args"]]
        if len(set(texts)) < len(texts):
            return True
    return False
