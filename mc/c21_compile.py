"""C21 helper: gfortran oracle.  The kernel stub (a module holding
`<k>_code`) and the PSy layer that calls it are put in one file, so gfortran
checks the call against the explicit interface.  Needs the LFRic stub
infrastructure that ships with PSyclone's tests; it is built once per run, out
of tree, in a scratch directory.
"""
import os
import re
import shutil
import subprocess

GFORTRAN = "/usr/bin/gfortran"


class CompileSetupError(Exception):
    """The infrastructure could not be built (harness problem)."""


def infra_makefile(repo):
    return os.path.join(repo, "src", "psyclone", "tests", "test_files",
                        "dynamo0p3", "infrastructure", "Makefile")


def build_infrastructure(repo, build_dir, jobs=4):
    """make -f <infra>/Makefile in build_dir; returns the include flags."""
    os.makedirs(build_dir, exist_ok=True)
    proc = subprocess.run(
        ["make", f"-j{jobs}", "-f", infra_makefile(repo), "F90FLAGS=-O0"],
        cwd=build_dir, stdout=subprocess.PIPE, stderr=subprocess.STDOUT,
        text=True, check=False)
    if proc.returncode != 0 or \
            not os.path.exists(os.path.join(build_dir, "liblfric.a")):
        raise CompileSetupError("LFRic stub infrastructure did not build:\n"
                                + proc.stdout[-3000:])
    return include_flags(build_dir)


def include_flags(build_dir):
    flags = []
    for name in sorted(os.listdir(build_dir)):
        path = os.path.join(build_dir, name)
        if os.path.isdir(path):
            flags += ["-I", path]
    return flags


_LOC = re.compile(r"^(?P<file>[^:\s]+):(?P<line>\d+):(?P<col>\d+):\s*$")


def parse_messages(output):
    """gfortran diagnostics -> list of (line, 'Error'|'Warning', text)."""
    msgs = []
    line_no = None
    for line in output.splitlines():
        loc = _LOC.match(line.strip())
        if loc:
            line_no = int(loc.group("line"))
            continue
        sev = re.match(r"^(Error|Fatal Error|Warning):\s*(.*)$", line.strip())
        if sev:
            msgs.append((line_no, sev.group(1), sev.group(2)))
            line_no = None
    return msgs


def compile_units(units, flags, workdir, tag):
    """units: list of (key, stub_text, psy_text).  One gfortran run on the
    concatenation.  Returns {key: [(part, error text), ...]} for the units
    with errors (part = 'stub' or 'psy' by line number; empty dict: everything
    compiled) and the raw output."""
    path = os.path.join(workdir, f"{tag}.f90")
    ranges = []
    lines = []
    for key, stub, psy in units:
        first = len(lines) + 1
        lines += stub.rstrip("\n").split("\n")
        middle = len(lines)
        lines += psy.rstrip("\n").split("\n")
        ranges.append((first, middle, len(lines), key))
    with open(path, "w", encoding="utf-8") as fout:
        fout.write("\n".join(lines) + "\n")
    moddir = os.path.join(workdir, f"{tag}.mods")
    os.makedirs(moddir, exist_ok=True)
    proc = subprocess.run(
        [GFORTRAN, "-fsyntax-only", "-ffree-line-length-none", "-J", moddir]
        + flags + [path],
        cwd=workdir, stdout=subprocess.PIPE, stderr=subprocess.STDOUT,
        text=True, check=False, env=dict(os.environ, LC_ALL="C", LANG="C"))
    shutil.rmtree(moddir, ignore_errors=True)
    os.remove(path)
    errors = {}
    msgs = parse_messages(proc.stdout)
    for line_no, sev, text in msgs:
        if sev == "Warning":
            continue
        owner = None
        if line_no is not None:
            for first, middle, last, key in ranges:
                if first <= line_no <= last:
                    owner = key
                    part = "stub" if line_no <= middle else "psy"
                    break
        if owner is None:
            owner = "?"
            part = "psy"
        errors.setdefault(owner, []).append((part, text))
    if proc.returncode != 0 and not errors:
        errors["?"] = [("psy", proc.stdout[-1500:])]
    return errors, proc.stdout


# gfortran messages that say "this call does not match the interface"
INTERFACE_PATTERNS = [
    (r"^Type mismatch in argument '(\w+)'", "type-mismatch"),
    (r"^Rank mismatch in argument '(\w+)'", "rank-mismatch"),
    (r"^Rank mismatch between actual argument .* and .* dummy argument '(\w+)'",
     "rank-mismatch"),
    (r"^Missing actual argument for argument '(\w+)'", "missing-actual"),
    (r"^More actual than formal arguments", "more-actuals"),
    (r"^Element of assumed-shap\w+ or pointer array passed to array dummy "
     r"argument '(\w+)'", "element-to-array"),
    (r"^Dummy argument '(\w+)' with INTENT\((OUT|INOUT)\)", "not-definable"),
    (r"^Non-variable expression in variable definition context \(actual "
     r"argument to INTENT = (OUT|INOUT)\)", "not-definable"),
    (r"^Actual argument .* is not definable|^Actual argument contains too few",
     "actual-too-small"),
    (r"^Interface mismatch", "interface-mismatch"),
]


def classify(text):
    """-> (kind, dummy name or None) when the message is about the call not
    matching the interface, else None."""
    for pattern, kind in INTERFACE_PATTERNS:
        match = re.match(pattern, text)
        if match:
            name = None
            if match.groups() and match.group(1) and \
                    match.group(1) not in ("OUT", "INOUT"):
                name = match.group(1)
            return kind, name
    return None
