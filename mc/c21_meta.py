"""C21 helper: grammar of LFRic kernel metadata (my own, independent of
PSyclone), rendering of one metadata description to (kernel module text,
algorithm text), and the deterministic families that make up the enumerated
space.

A metadata description ("meta") is a JSON-able dict:

  a   : list of arguments, each one of
          ["S", dt]                                   scalar, dt in r|i|l
          ["F", dt, acc, fs, vec, stencil, mesh]      field / field vector
               dt in r|i, acc in read|write|inc|readinc|rw, vec in 1|3,
               stencil in None|x1d|y1d|xory1d|cross|region|cross2d|<type>:<extent>
               mesh in None|c|f   (GH_COARSE / GH_FINE)
          ["O", acc, to, from]                        LMA operator
          ["C", acc, to, from]                        CMA operator
  f   : meta_funcs: list of [fs, ops], ops in b|d|bd|db
  sh  : list of gh_shape entries (xyoz|face|edge|eval)
  tg  : None or list of gh_evaluator_targets
  me  : True when meta_mesh = adjacent_face
  re  : list of reference-element properties (short names, see REFELEM)
  on  : cc|dom|dof  (operates_on)
  alg : algorithm-side variant: "v" (stencil extent/direction passed as
        variables) or "l" (literal extent, x_direction)
"""
import itertools

ACCESS = {"read": "gh_read", "write": "gh_write", "inc": "gh_inc",
          "readinc": "gh_readinc", "rw": "gh_readwrite", "sum": "gh_sum"}
DTYPE = {"r": "gh_real", "i": "gh_integer", "l": "gh_logical"}
SHAPE = {"xyoz": "gh_quadrature_XYoZ", "face": "gh_quadrature_face",
         "edge": "gh_quadrature_edge", "eval": "gh_evaluator"}
FUNC = {"b": "gh_basis", "d": "gh_diff_basis"}
REFELEM = {"nhf": "normals_to_horizontal_faces",
           "nvf": "normals_to_vertical_faces",
           "nf": "normals_to_faces",
           "onhf": "outward_normals_to_horizontal_faces",
           "onvf": "outward_normals_to_vertical_faces",
           "onf": "outward_normals_to_faces"}
OPERATES = {"cc": "cell_column", "dom": "domain", "dof": "dof"}
SPACES = ["w0", "w1", "w2", "w3", "wtheta", "any_space_1",
          "any_discontinuous_space_1"]
SHORT_FS = {"any_space_1": "as1", "any_space_2": "as2",
            "any_discontinuous_space_1": "ads1",
            "any_discontinuous_space_2": "ads2"}
STENCILS = ["x1d", "y1d", "xory1d", "cross", "region", "cross2d"]
ALL_ACC = ["read", "write", "inc", "readinc", "rw"]


def _fs(name):
    return SHORT_FS.get(name, name)


# --------------------------------------------------------------------------
# key
# --------------------------------------------------------------------------
def arg_key(arg):
    kind = arg[0]
    if kind == "S":
        return "S" + arg[1]
    if kind == "F":
        _, dtype, acc, fspace, vec, sten, mesh = arg
        txt = f"F{dtype}.{acc}.{_fs(fspace)}"
        if vec != 1:
            txt += f"*{vec}"
        if sten:
            txt += f"~{sten}"
        if mesh:
            txt += f"@{mesh}"
        return txt
    return f"{kind}.{arg[1]}.{_fs(arg[2])}.{_fs(arg[3])}"


def meta_key(meta):
    parts = ["|".join(arg_key(a) for a in meta["a"])]
    if meta.get("f"):
        parts.append("fn=" + ",".join(f"{_fs(f)}:{o}" for f, o in meta["f"]))
    if meta.get("sh"):
        parts.append("sh=" + ",".join(meta["sh"]))
    if meta.get("tg") is not None:
        parts.append("tg=" + ",".join(_fs(t) for t in meta["tg"]))
    if meta.get("me"):
        parts.append("me=af")
    if meta.get("re"):
        parts.append("re=" + ",".join(meta["re"]))
    if meta.get("on", "cc") != "cc":
        parts.append("on=" + meta["on"])
    if meta.get("alg", "v") != "v":
        parts.append("alg=" + meta["alg"])
    return ";".join(parts)


def mk(args, funcs=(), shapes=(), targets=None, mesh=False, refelem=(),
       operates="cc", alg="v"):
    return {"a": [list(a) for a in args], "f": [list(f) for f in funcs],
            "sh": list(shapes),
            "tg": (None if targets is None else list(targets)),
            "me": bool(mesh), "re": list(refelem), "on": operates, "alg": alg}


def scalar(dtype):
    return ["S", dtype]


def field(acc, fspace, dtype="r", vec=1, sten=None, mesh=None):
    return ["F", dtype, acc, fspace, vec, sten, mesh]


def lma(acc, to_fs, from_fs):
    return ["O", acc, to_fs, from_fs]


def cma(acc, to_fs, from_fs):
    return ["C", acc, to_fs, from_fs]


def arg_spaces(arg):
    if arg[0] == "S":
        return []
    if arg[0] == "F":
        return [arg[3]]
    return [arg[2], arg[3]]


def used_spaces(args):
    seen = []
    for arg in args:
        for fspace in arg_spaces(arg):
            if fspace not in seen:
                seen.append(fspace)
    return seen


# --------------------------------------------------------------------------
# rendering
# --------------------------------------------------------------------------
def _arg_type(arg):
    kind = arg[0]
    if kind == "S":
        return f"arg_type(gh_scalar, {DTYPE[arg[1]]}, gh_read)"
    if kind == "F":
        _, dtype, acc, fspace, vec, sten, mesh = arg
        what = "gh_field" if vec == 1 else f"gh_field*{vec}"
        txt = f"arg_type({what}, {DTYPE[dtype]}, {ACCESS[acc]}, {fspace}"
        if sten:
            if ":" in sten:
                stype, extent = sten.split(":")
                txt += f", stencil({stype},{extent})"
            else:
                txt += f", stencil({sten})"
        if mesh:
            txt += ", mesh_arg=" + ("gh_coarse" if mesh == "c" else "gh_fine")
        return txt + ")"
    what = "gh_operator" if kind == "O" else "gh_columnwise_operator"
    return f"arg_type({what}, gh_real, {ACCESS[arg[1]]}, {arg[2]}, {arg[3]})"


def _array(type_name, var, items, indent="     "):
    body = (", &\n" + indent + "     ").join(items)
    return (f"{indent}type({type_name}), dimension({len(items)}) :: {var} = &\n"
            f"{indent}  (/ {body} /)\n")


def kernel_text(meta, name):
    """Fortran source of a kernel module `<name>_mod` holding the metadata
    type `<name>_type` and an empty `<name>_code`."""
    out = [f"module {name}_mod\n",
           "  use constants_mod\n  use argument_mod\n"
           "  use fs_continuity_mod\n  use kernel_mod\n",
           "  implicit none\n",
           f"  type, extends(kernel_type) :: {name}_type\n",
           _array("arg_type", "meta_args", [_arg_type(a) for a in meta["a"]])]
    if meta.get("f"):
        funcs = [f"func_type({fs}, " + ", ".join(FUNC[o] for o in ops) + ")"
                 for fs, ops in meta["f"]]
        out.append(_array("func_type", "meta_funcs", funcs))
    if meta.get("re"):
        out.append(_array("reference_element_data_type",
                          "meta_reference_element",
                          [f"reference_element_data_type({REFELEM[p]})"
                           for p in meta["re"]]))
    if meta.get("me"):
        out.append(_array("mesh_data_type", "meta_mesh",
                          ["mesh_data_type(adjacent_face)"]))
    out.append(f"     integer :: operates_on = {OPERATES[meta.get('on', 'cc')]}\n")
    shapes = meta.get("sh") or []
    if len(shapes) == 1:
        out.append(f"     integer :: gh_shape = {SHAPE[shapes[0]]}\n")
    elif shapes:
        out.append(f"     integer :: gh_shape({len(shapes)}) = (/ "
                   + ", ".join(SHAPE[s] for s in shapes) + " /)\n")
    if meta.get("tg") is not None:
        tgs = meta["tg"]
        out.append(f"     integer :: gh_evaluator_targets({len(tgs)}) = (/ "
                   + ", ".join(tgs) + " /)\n")
    out.append("   contains\n"
               f"     procedure, nopass :: code => {name}_code\n"
               f"  end type {name}_type\n"
               "contains\n"
               f"  subroutine {name}_code()\n"
               f"  end subroutine {name}_code\n"
               f"end module {name}_mod\n")
    return "".join(out)


QR_TYPES = {"xyoz": ("quadrature_xyoz_mod", "quadrature_xyoz_type"),
            "face": ("quadrature_face_mod", "quadrature_face_type"),
            "edge": ("quadrature_edge_mod", "quadrature_edge_type")}


def algorithm_text(meta, name, alg_name):
    """Algorithm layer: one invoke of `<name>_type` with default-precision
    actual arguments.  Returns (text, list of (algorithm variable, what))."""
    decls = []
    actuals = []
    literal = meta.get("alg", "v") == "l"
    uses = {"constants_mod": ["r_def", "i_def", "l_def"]}

    def use(mod, sym):
        syms = uses.setdefault(mod, [])
        if sym not in syms:
            syms.append(sym)

    for pos, arg in enumerate(meta["a"], start=1):
        kind = arg[0]
        if kind == "S":
            typ = {"r": "real(r_def)", "i": "integer(i_def)",
                   "l": "logical(l_def)"}[arg[1]]
            var = f"{arg[1]}s{pos}"
            decls.append(f"{typ} :: {var}")
            actuals.append(var)
        elif kind == "F":
            _, dtype, _acc, _fs_, vec, sten, _mesh = arg
            if dtype == "i":
                use("integer_field_mod", "integer_field_type")
                typ = "type(integer_field_type)"
            else:
                use("field_mod", "field_type")
                typ = "type(field_type)"
            var = f"f{pos}"
            decls.append(f"{typ} :: {var}" + (f"({vec})" if vec != 1 else ""))
            actuals.append(var)
            if sten:
                stype = sten.split(":")[0]
                # a fixed extent in the metadata means no extent argument
                if ":" not in sten:
                    if literal:
                        actuals.append("2")
                    else:
                        decls.append(f"integer(i_def) :: {var}_extent")
                        actuals.append(f"{var}_extent")
                if stype == "xory1d":
                    if literal:
                        use("flux_direction_mod", "x_direction")
                        actuals.append("x_direction")
                    else:
                        decls.append(f"integer(i_def) :: {var}_direction")
                        actuals.append(f"{var}_direction")
        elif kind == "O":
            use("operator_mod", "operator_type")
            decls.append(f"type(operator_type) :: op{pos}")
            actuals.append(f"op{pos}")
        else:
            use("columnwise_operator_mod", "columnwise_operator_type")
            decls.append(f"type(columnwise_operator_type) :: cma{pos}")
            actuals.append(f"cma{pos}")
    for shape in meta.get("sh") or []:
        if shape in QR_TYPES:
            mod, typ = QR_TYPES[shape]
            use(mod, typ)
            decls.append(f"type({typ}) :: qr_{shape}")
            actuals.append(f"qr_{shape}")
    use(f"{name}_mod", f"{name}_type")
    lines = [f"program {alg_name}\n"]
    for mod, syms in uses.items():
        lines.append(f"  use {mod}, only: {', '.join(syms)}\n")
    lines.append("  implicit none\n")
    lines += [f"  {d}\n" for d in decls]
    lines.append(f"  call invoke( {name}_type({', '.join(actuals)}) )\n")
    lines.append(f"end program {alg_name}\n")
    return "".join(lines)


# --------------------------------------------------------------------------
# families
# --------------------------------------------------------------------------
def _uniq(metas):
    seen = set()
    out = []
    for meta in metas:
        key = meta_key(meta)
        if key not in seen:
            seen.add(key)
            out.append(meta)
    return out


# Compact argument alphabet for exhaustive sequences: one representative of
# every argument kind; spaces overlap so that unique-function-space handling
# (shared / new / operator to+from) is exercised in every order.
SEQ_ALPHABET_QUICK = [
    scalar("r"), scalar("i"), scalar("l"),
    field("inc", "w1"), field("read", "w2"), field("rw", "w3"),
    field("read", "w3", dtype="i"),
    field("read", "w2", vec=3),
    field("read", "w2", sten="cross"),
    field("read", "w1", sten="xory1d"),
    field("read", "w3", sten="cross2d"),
    lma("write", "w2", "w2"), lma("read", "w3", "w1"),
]
SEQ_ALPHABET_THOROUGH = SEQ_ALPHABET_QUICK + [
    field("write", "any_discontinuous_space_1"),
    field("inc", "any_space_1", vec=3),
    field("read", "wtheta", sten="region"),
    lma("rw", "w0", "any_space_1"),
]


def fam_seq(alphabet, maxlen):
    """Every sequence of 1..maxlen arguments over the alphabet."""
    out = []
    for length in range(1, maxlen + 1):
        for combo in itertools.product(alphabet, repeat=length):
            out.append(mk(combo))
    return out


def single_args(quick=False):
    """Every single-argument form of the grammar: all field data types x
    spaces x accesses x vector x stencil, all operators over space pairs
    (quick: integer fields only as plain fields and with a cross stencil)."""
    out = []
    for dtype in "ril":
        out.append(scalar(dtype))
    for dtype in "ri":
        for fspace in SPACES:
            for acc in ALL_ACC:
                for vec in (1, 3):
                    if quick and dtype == "i" and vec == 3:
                        continue
                    out.append(field(acc, fspace, dtype=dtype, vec=vec))
            for sten in STENCILS:
                for vec in (1, 3):
                    if quick and dtype == "i" and (vec == 3 or sten != "cross"):
                        continue
                    out.append(field("read", fspace, dtype=dtype, vec=vec,
                                     sten=sten))
    for sten in ("cross:1", "x1d:2"):
        out.append(field("read", "w2", sten=sten))
    # a stencil on a written field is invalid metadata: keep one of each
    for sten in ("cross", "cross2d"):
        out.append(field("inc", "w1", sten=sten))
    op_spaces = ["w0", "w2", "w3", "any_space_1", "any_discontinuous_space_1"]
    for acc in ("read", "write", "rw", "inc"):
        for to_fs in op_spaces:
            for from_fs in op_spaces:
                out.append(lma(acc, to_fs, from_fs))
    return out


COMPANIONS = [None, field("rw", "w3"), field("inc", "w1"),
              lma("write", "w3", "w0")]


def fam_single(companions, quick=False):
    """Each single-argument form alone and next to each companion argument
    (before and after it; quick: only before it), so that read-only forms
    become valid kernels."""
    out = []
    for arg in single_args(quick):
        for comp in companions:
            if comp is None:
                out.append(mk([arg]))
            else:
                out.append(mk([arg, comp]))
                if not quick:
                    out.append(mk([comp, arg]))
    return _uniq(out)


FUNC_BASES = [
    [field("inc", "w1"), field("read", "w2")],
    [lma("write", "w0", "w1"), field("read", "w0", vec=3)],
    [field("rw", "w3"), field("read", "any_space_1"), scalar("r")],
    [field("write", "wtheta"), lma("read", "w2", "w2")],
    [field("inc", "w0"), field("rw", "any_discontinuous_space_1"),
     field("read", "w0", sten="cross")],
]

SHAPE_SETS_1 = [["xyoz"], ["face"], ["edge"], ["eval"]]
SHAPE_SETS_2 = [list(p) for p in itertools.permutations(
    ["xyoz", "face", "edge", "eval"], 2) if "eval" in p or "xyoz" in p]


def _func_choices(spaces, opsets):
    """Every assignment space -> one of opsets or absent; the meta_funcs
    entries are listed in space order and in reversed order."""
    out = []
    for combo in itertools.product([None] + opsets, repeat=len(spaces)):
        funcs = [[fs, ops] for fs, ops in zip(spaces, combo) if ops]
        if not funcs:
            continue
        out.append(funcs)
        if len(funcs) > 1:
            out.append(list(reversed(funcs)))
    return out


def _target_choices(spaces, thorough):
    """None (default targets), each single space, and ordered pairs."""
    out = [None]
    for fspace in spaces:
        out.append([fspace])
    if thorough:
        for pair in itertools.permutations(spaces, 2):
            out.append(list(pair))
    elif len(spaces) > 1:
        out = [None, [spaces[1]], [spaces[1], spaces[0]]]
    return out


def fam_funcs(thorough):
    out = []
    bases = FUNC_BASES if thorough else FUNC_BASES[:2]
    opsets = ["b", "d", "bd", "db"] if thorough else ["b", "bd"]
    shape_sets = SHAPE_SETS_1 + (SHAPE_SETS_2 if thorough
                                 else [["eval", "face"], ["xyoz", "eval"]])
    for base in bases:
        spaces = used_spaces(base)
        for funcs in _func_choices(spaces, opsets):
            for shapes in shape_sets:
                if "eval" in shapes:
                    tchoices = _target_choices(spaces, thorough)
                else:
                    tchoices = [None]
                for targets in tchoices:
                    out.append(mk(base, funcs=funcs, shapes=shapes,
                                  targets=targets))
        # shapes / functions that do not fit (invalid metadata, counted)
        out.append(mk(base, shapes=["xyoz"]))
        out.append(mk(base, funcs=[[spaces[0], "b"]]))
        out.append(mk(base, funcs=[["w2h", "b"]], shapes=["xyoz"]))
        out.append(mk(base, funcs=[[spaces[0], "b"]], shapes=["xyoz"],
                      targets=[spaces[0]]))
    return _uniq(out)


PROP_BASES = [
    [field("inc", "w1"), scalar("r")],
    [lma("write", "w0", "w1"), field("read", "w0", vec=3)],
    [field("rw", "w3"), field("read", "w2", sten="cross")],
]


def fam_props(thorough):
    """meta_mesh x meta_reference_element (ordered subsets up to 2 / 3
    properties) x a little quadrature, on a few base argument lists."""
    out = []
    props = list(REFELEM)
    maxre = 3 if thorough else 2
    relists = [[]]
    for num in range(1, maxre + 1):
        for perm in itertools.permutations(props, num):
            relists.append(list(perm))
    if not thorough:
        # quick: all singles, all ordered pairs
        pass
    bases = PROP_BASES if thorough else PROP_BASES[:1]
    for bidx, base in enumerate(bases):
        spaces = used_spaces(base)
        for refl in relists:
            if thorough and len(refl) == 3 and bidx != 0:
                continue
            for mesh in (False, True):
                if not refl and not mesh:
                    continue
                out.append(mk(base, mesh=mesh, refelem=refl))
                if len(refl) <= 1:
                    for shapes in (["face"], ["xyoz"], ["eval"]):
                        out.append(mk(base, funcs=[[spaces[0], "b"]],
                                      shapes=shapes, mesh=mesh, refelem=refl))
        # a repeated property (invalid or not: PSyclone decides)
        out.append(mk(base, refelem=["nhf", "nhf"]))
    return _uniq(out)


def fam_cma(thorough):
    out = []
    pairs = [("w2", "w2"), ("w3", "w0"), ("any_space_1", "any_space_1"),
             ("any_discontinuous_space_1", "w2")]
    if thorough:
        pairs += [("w0", "w3"), ("wtheta", "wtheta"),
                  ("any_space_1", "any_discontinuous_space_1")]
    else:
        pairs = pairs[:1] + pairs[2:]
    extras = [[], [scalar("r")], [field("read", "w3")],
              [field("read", "w2"), scalar("i")]]
    if thorough:
        extras += [[field("read", "any_space_1", vec=1)],
                   [field("read", "w0", dtype="r"), field("read", "w3")]]
    # assembly: LMA read + CMA write (+ read-only extras), every order
    for to_fs, from_fs in pairs:
        for lto, lfrom in [(to_fs, from_fs), ("w3", "w3")]:
            for extra in extras:
                args = [lma("read", lto, lfrom), cma("write", to_fs, from_fs)]
                orders = [args + extra, extra + args,
                          [args[1], args[0]] + extra]
                for order in orders:
                    out.append(mk(order))
        for acc in ("rw", "read"):
            out.append(mk([lma("read", to_fs, from_fs),
                           cma(acc, to_fs, from_fs)]))
        # two LMA operators
        out.append(mk([lma("read", to_fs, from_fs), lma("read", "w3", "w3"),
                       cma("write", to_fs, from_fs)]))
    # apply: field written (to-space), field read (from-space), CMA read
    for to_fs, from_fs in pairs:
        for wacc in ("inc", "write", "rw", "readinc"):
            fld_w = field(wacc, to_fs)
            fld_r = field("read", from_fs)
            cop = cma("read", to_fs, from_fs)
            for order in itertools.permutations([fld_w, fld_r, cop]):
                out.append(mk(list(order)))
        # wrong spaces / extra scalar (invalid, counted)
        out.append(mk([field("inc", from_fs), field("read", "w1"),
                       cma("read", to_fs, from_fs)]))
        out.append(mk([field("inc", to_fs), field("read", from_fs),
                       cma("read", to_fs, from_fs), scalar("r")]))
    # matrix-matrix: CMA write + 1..2 CMA read (+ scalars)
    for to_fs, from_fs in pairs:
        cw = cma("write", to_fs, from_fs)
        cr1 = cma("read", to_fs, from_fs)
        cr2 = cma("read", from_fs, to_fs)
        for extra in ([], [scalar("r")], [scalar("i"), scalar("r")]):
            out.append(mk([cw, cr1] + extra))
            out.append(mk([cr1, cw] + extra))
            out.append(mk([cw, cr1, cr2] + extra))
            out.append(mk(extra + [cr2, cr1, cw]))
            out.append(mk([cw, extra[0], cr1] if extra else [cr1, cr2, cw]))
        out.append(mk([cma("rw", to_fs, from_fs), cr1]))
    # CMA kernels with basis functions / properties
    out.append(mk([lma("read", "w2", "w2"), cma("write", "w2", "w2")],
                  funcs=[["w2", "b"]], shapes=["xyoz"]))
    out.append(mk([lma("read", "w3", "w0"), cma("write", "w3", "w0")],
                  funcs=[["w0", "bd"]], shapes=["eval"]))
    out.append(mk([field("inc", "w2"), field("read", "w2"),
                   cma("read", "w2", "w2")], mesh=True))
    out.append(mk([lma("read", "w2", "w2"), cma("write", "w2", "w2")],
                  refelem=["nhf"]))
    # vectors / stencils are not allowed with CMA (invalid, counted)
    out.append(mk([lma("read", "w2", "w2"), cma("write", "w2", "w2"),
                   field("read", "w2", vec=3)]))
    out.append(mk([lma("read", "w2", "w2"), cma("write", "w2", "w2"),
                   field("read", "w2", sten="cross")]))
    return _uniq(out)


def fam_other(thorough):
    """Inter-grid, domain and dof kernels (the stub generator documents that
    it does not support them), literal stencil arguments, and a few
    deliberately invalid descriptions."""
    out = []
    # inter-grid
    spaces = [("w1", "w2"), ("w2", "w2"), ("any_space_1", "w3"),
              ("w3", "any_discontinuous_space_1")]
    for fine_fs, coarse_fs in spaces:
        for facc, cacc in (("inc", "read"), ("read", "inc"), ("read", "rw"),
                           ("write", "read"), ("read", "read")):
            fine = field(facc, fine_fs, mesh="f")
            coarse = field(cacc, coarse_fs, mesh="c")
            out.append(mk([fine, coarse]))
            out.append(mk([coarse, fine]))
        out.append(mk([field("inc", fine_fs, mesh="f", vec=3),
                       field("read", coarse_fs, mesh="c")]))
        out.append(mk([field("inc", fine_fs, mesh="f"),
                       field("read", coarse_fs, mesh="c"),
                       field("read", coarse_fs, mesh="c")]))
        out.append(mk([field("inc", fine_fs, mesh="f"),
                       field("read", coarse_fs, mesh="c"), scalar("r")]))
        out.append(mk([field("inc", fine_fs, mesh="f"),
                       field("read", coarse_fs)]))
        out.append(mk([field("read", fine_fs, mesh="f", sten="cross"),
                       field("inc", coarse_fs, mesh="c")]))
    # domain
    dspaces = ["w3", "wtheta", "any_discontinuous_space_1", "w1"]
    for fspace in dspaces:
        for acc in ("rw", "write", "read", "inc"):
            out.append(mk([field(acc, fspace)], operates="dom"))
            out.append(mk([field(acc, fspace), field("rw", "w3"), scalar("r")],
                          operates="dom"))
        out.append(mk([field("rw", fspace, vec=3), scalar("i")],
                      operates="dom"))
    out.append(mk([field("rw", "w3"), field("read", "w3", sten="cross")],
                  operates="dom"))
    out.append(mk([field("rw", "w3"), lma("read", "w3", "w3")],
                  operates="dom"))
    out.append(mk([field("rw", "w3")], funcs=[["w3", "b"]], shapes=["xyoz"],
                  operates="dom"))
    out.append(mk([field("rw", "w3")], mesh=True, operates="dom"))
    # dof
    for fspace in ("w1", "w3"):
        out.append(mk([field("write", fspace)], operates="dof"))
        out.append(mk([field("rw", fspace), field("read", fspace),
                       scalar("r")], operates="dof"))
    # literal stencil extent / direction in the algorithm layer
    for sten in STENCILS:
        for base in ([field("inc", "w1")], [field("rw", "w3"), scalar("i")]):
            for vec in (1, 3):
                args = base + [field("read", "w2", vec=vec, sten=sten)]
                out.append(mk(args, alg="l"))
                out.append(mk(list(reversed(args)), alg="l"))
    # two stencil arguments, kernels named like the boundary-condition ones
    # are not generated (names are fixed by the harness)
    if thorough:
        for st1, st2 in itertools.product(STENCILS, repeat=2):
            out.append(mk([field("inc", "w1"),
                           field("read", "w2", sten=st1),
                           field("read", "w2", sten=st2)]))
            out.append(mk([field("rw", "w3"),
                           field("read", "w2", sten=st1),
                           field("read", "w3", vec=3, sten=st2)], alg="l"))
    else:
        for st1, st2 in (("cross", "xory1d"), ("xory1d", "cross2d"),
                         ("cross2d", "cross2d"), ("region", "x1d")):
            out.append(mk([field("inc", "w1"),
                           field("read", "w2", sten=st1),
                           field("read", "w2", sten=st2)]))
    # deliberately invalid
    out.append(mk([scalar("r")]))
    out.append(mk([field("read", "w1")]))
    out.append(mk([field("inc", "w1"), ["S", "r"]], operates="dof"))
    out.append(mk([lma("write", "w2", "w2"), field("read", "w3", dtype="i")]))
    return _uniq(out)


def families(tier):
    """Ordered dict name -> list of metas.  The quick corpus is a subset of
    the thorough one (checked in the self test of the check module)."""
    thorough = tier == "thorough"
    fams = {}
    if thorough:
        fams["seq"] = _uniq(fam_seq(SEQ_ALPHABET_THOROUGH, 3)
                            + fam_seq(SEQ_ALPHABET_QUICK[:1]
                                      + SEQ_ALPHABET_QUICK[3:4]
                                      + SEQ_ALPHABET_QUICK[7:12], 4))
        fams["single"] = fam_single(COMPANIONS)
    else:
        fams["seq"] = _uniq(fam_seq(SEQ_ALPHABET_QUICK, 2)
                            + fam_seq(SEQ_ALPHABET_QUICK[:1]
                                      + SEQ_ALPHABET_QUICK[3:4]
                                      + SEQ_ALPHABET_QUICK[8:11], 3))
        fams["single"] = fam_single(COMPANIONS[1:2], quick=True)
    fams["funcs"] = fam_funcs(thorough)
    fams["props"] = fam_props(thorough)
    fams["cma"] = fam_cma(thorough)
    fams["other"] = fam_other(thorough)
    return fams
