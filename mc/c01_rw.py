"""C01/C03 helper: one pass  text -> FortranReader -> PSyIR -> FortranWriter -> text
on the real PSyclone code, with the exception classified.

status:
  ok        text produced
  refusal   a documented, clean refusal (PSyclone error classes other than
            InternalError, NotImplementedError, fparser syntax errors)
  internal  anything else (InternalError, AttributeError, KeyError, ...): the
            "internal error" of the property text
"""
import os
import traceback

_STATE = {}


def init():
    """Imports PSyclone once per worker."""
    if _STATE:
        return
    from fparser.two.utils import FortranSyntaxError, NoMatchError
    from psyclone.errors import InternalError, PSycloneError
    from psyclone.psyir.backend.fortran import FortranWriter
    from psyclone.psyir.frontend.fortran import FortranReader
    _STATE.update(reader=FortranReader, writer=FortranWriter,
                  internal=InternalError, psy=PSycloneError,
                  syntax=(FortranSyntaxError, NoMatchError))
    # warm the parser (first construction costs > 1 s)
    FortranReader().psyir_from_source("program warm\nend program warm\n")


def _where(exc):
    """innermost PSyclone / fparser frame of the traceback: file:function."""
    frames = traceback.extract_tb(exc.__traceback__)
    for frame in reversed(frames):
        if "psyclone" in frame.filename or "fparser" in frame.filename:
            return f"{os.path.basename(frame.filename)}:{frame.name}"
    return "?"


def read_write(source):
    """-> (status, text | None, info).  info = {"type", "where", "msg", "stage"}."""
    init()
    stage = "read"
    try:
        psyir = _STATE["reader"]().psyir_from_source(source)
        stage = "write"
        text = _STATE["writer"]()(psyir)
        return "ok", text, {}
    except Exception as exc:  # pylint: disable=broad-except
        info = {"type": type(exc).__name__, "where": _where(exc),
                "msg": str(exc)[:400], "stage": stage}
        if isinstance(exc, _STATE["internal"]):
            return "internal", None, info
        if isinstance(exc, (_STATE["psy"], NotImplementedError)) or \
                isinstance(exc, _STATE["syntax"]):
            return "refusal", None, info
        return "internal", None, info
