"""C24 static oracle: reads the generated algorithm layer and PSy layer as
text (no PSyclone code involved) and compares them with the positional model
of the source program (mc/c24_gen.py).

PSy layer facts extracted per routine:
  * the dummy-argument list of the SUBROUTINE statement,
  * `X_proxy = D%get_proxy()`            proxy  -> dummy
  * `X_data => X_proxy%data`             data pointer -> proxy
  * `M => X_proxy%vspace%get_stencil_dofmap(SHAPE, E)`   stencil map -> (proxy, E)
  * `P => M%get_whole_dofmap()` / `P => M%get_stencil_sizes()`   pointer -> stencil map
  * kernel events in textual order: `CALL <kern>_code(args)` and
    `! Built-in: <name>` followed by its assignment statement.
Each kernel-argument position of the source invoke is thereby resolved to a
dummy of the routine or to a literal.
"""
import re

from mc import c24_gen as G


class Unreadable(Exception):
    """The generated text does not have the shape this reader understands."""


def join_lines(text):
    """Logical lines of free-form Fortran (continuations joined), comments kept."""
    out = []
    cur = ""
    for raw in text.split("\n"):
        line = raw.rstrip()
        if not line.strip():
            continue
        stripped = line.strip()
        if cur:
            if stripped.startswith("&"):
                stripped = stripped[1:]
            line = cur + stripped
            cur = ""
        if not line.strip().startswith("!") and line.rstrip().endswith("&"):
            cur = line.rstrip()[:-1]
            continue
        out.append(line.strip())
    if cur:
        out.append(cur.strip())
    return out


def split_args(text):
    """Split at top-level commas."""
    args = []
    depth = 0
    cur = ""
    for char in text:
        if char == "(":
            depth += 1
        elif char == ")":
            depth -= 1
        if char == "," and depth == 0:
            args.append(cur.strip())
            cur = ""
        else:
            cur += char
    if cur.strip() or args:
        args.append(cur.strip())
    return args


_CALL = re.compile(r"^call\s+(\w+)\s*(?:\((.*)\))?\s*$", re.I)


def alg_calls(text):
    """[(routine name lower-cased, [canonical actual, ...])] of every CALL in
    the algorithm layer that is not one of the harness' own support calls."""
    calls = []
    for line in join_lines(text):
        mat = _CALL.match(line)
        if not mat:
            continue
        name = mat.group(1).lower()
        if name.startswith("c24_"):
            continue
        args = split_args(mat.group(2) or "")
        calls.append((name, [G.canon(a) for a in args], line))
    return calls


_SUB = re.compile(r"^subroutine\s+(\w+)\s*(?:\((.*)\))?\s*$", re.I)
_ENDSUB = re.compile(r"^end\s*subroutine\b", re.I)
_PROXY = re.compile(r"^(\w+)\s*=\s*(\w+)\s*%\s*get_proxy\s*\(\s*\)$", re.I)
_DATA = re.compile(r"^(\w+)\s*=>\s*(\w+)\s*%\s*data$", re.I)
_STMAP = re.compile(r"^(\w+)\s*=>\s*(\w+)\s*%\s*vspace\s*%\s*get_stencil_dofmap\s*"
                    r"\(\s*(\w+)\s*,(.*)\)$", re.I)
_STPTR = re.compile(r"^(\w+)\s*=>\s*(\w+)\s*%\s*(get_whole_dofmap|get_stencil_sizes)"
                    r"\s*\(\s*\)$", re.I)
_BUILTIN = re.compile(r"^!\s*Built-in:\s*(\w+)", re.I)
_ASSIGN = re.compile(r"^([^=]+?)\s*=\s*(.+)$")


class Routine:
    """What one PSy-layer routine says."""

    def __init__(self, name, dummies):
        self.name = name
        self.dummies = dummies
        self.proxy = {}
        self.data = {}
        self.stmap = {}
        self.stptr = {}
        self.events = []          # ("call", name, [args]) | ("builtin", name, lhs, rhs)

    # -- resolution ---------------------------------------------------------
    def field_dummy(self, expr):
        """Dummy whose data a kernel-argument expression denotes, or None."""
        txt = G.canon(expr)
        txt = re.sub(r"\(df\)$", "", txt)
        if txt in self.data:
            prox = self.data[txt]
        elif txt.endswith("%data"):
            prox = txt[:-5]
        else:
            return None
        dummy = self.proxy.get(prox)
        if dummy is None or dummy not in self.dummies:
            return None
        return dummy

    def scalar_item(self, expr):
        """("dummy", name) or ("lit", canonical text) or None."""
        txt = G.canon(expr)
        if txt in self.dummies:
            return ("dummy", txt)
        if G.is_literal(txt):
            return ("lit", txt)
        return None

    def stencil_item(self, expr):
        """Kernel argument `P(cell)` / `P(:,:,cell)` -> (field dummy, extent item)."""
        txt = G.canon(expr)
        name = txt.split("(")[0]
        smap = self.stptr.get(name)
        if smap is None or smap not in self.stmap:
            return None
        prox, extent = self.stmap[smap]
        dummy = self.proxy.get(prox)
        if dummy is None or dummy not in self.dummies:
            return None
        ext = self.scalar_item(extent)
        if ext is None:
            return None
        return (dummy, ext)


def psy_routines(text):
    """{name: Routine} in textual order (dict keeps insertion order), plus the
    list of names (to detect duplicates)."""
    routines = []
    cur = None
    pending = None
    for line in join_lines(text):
        mat = _SUB.match(line)
        if mat:
            dummies = [G.canon(a) for a in split_args(mat.group(2) or "")]
            cur = Routine(mat.group(1).lower(), dummies)
            routines.append(cur)
            pending = None
            continue
        if cur is None:
            continue
        if _ENDSUB.match(line):
            cur = None
            continue
        mat = _BUILTIN.match(line)
        if mat:
            pending = mat.group(1).lower()
            continue
        if line.startswith("!"):
            continue
        if pending is not None:
            mat = _ASSIGN.match(line)
            if not mat:
                raise Unreadable(f"no assignment after built-in {pending}: {line}")
            cur.events.append(("builtin", pending, mat.group(1), mat.group(2)))
            pending = None
            continue
        mat = _CALL.match(line)
        if mat and mat.group(1).lower().endswith("_code"):
            cur.events.append(("call", mat.group(1).lower(),
                               split_args(mat.group(2) or "")))
            continue
        mat = _PROXY.match(line)
        if mat:
            cur.proxy[mat.group(1).lower()] = mat.group(2).lower()
            continue
        mat = _DATA.match(line)
        if mat:
            cur.data[mat.group(1).lower()] = mat.group(2).lower()
            continue
        mat = _STMAP.match(line)
        if mat:
            cur.stmap[mat.group(1).lower()] = (mat.group(2).lower(), mat.group(4))
            continue
        mat = _STPTR.match(line)
        if mat:
            cur.stptr[mat.group(1).lower()] = mat.group(2).lower()
            continue
    return routines


# built-in statement shapes: regex over the canonical (blank-free, lower-case)
# "lhs=rhs" text -> groups in algorithm-argument order
_OPND = r"([\w%]+?)(?:\(df\))?"
_NUM = r"(-?[\w.]+)"
_BUILTIN_SHAPE = {
    "setval_c": (re.compile(rf"^{_OPND}={_NUM}$"), (0, 1)),
    "x_plus_y": (re.compile(rf"^{_OPND}={_OPND}\+{_OPND}$"), (0, 1, 2)),
    # inc_aX_plus_Y(a, X, Y): X = a*X + Y
    "inc_ax_plus_y": (re.compile(rf"^{_OPND}={_NUM}\*{_OPND}\+{_OPND}$"),
                      (1, 0, 1, 2)),
    # X_innerproduct_Y(s, X, Y): s = s + X*Y
    "x_innerproduct_y": (re.compile(rf"^(\w+)=(\w+)\+{_OPND}\*{_OPND}$"),
                         (0, 0, 1, 2)),
}


def resolve_invoke(routine, inv):
    """Resolve every kernel-argument position of the source invoke `inv` in
    the routine.  Returns (items, problems): items[(ki, pos)] = ("dummy", d) |
    ("lit", text); problems = [(kind, detail)] for things that could not be
    resolved or do not fit the source invoke."""
    items = {}
    problems = []
    kernels = inv["kernels"]
    if len(routine.events) != len(kernels):
        problems.append(("kernel-count", f"{len(routine.events)} kernel call(s) in "
                         f"the routine for {len(kernels)} in the invoke"))
        return items, problems
    for kidx, (kern, event) in enumerate(zip(kernels, routine.events)):
        let = G.LETTER_OF[kern["k"].lower()]
        name = G.KERNELS[let][0].lower()
        kinds = G.KERNELS[let][1]

        def put(pos, item, what):
            if item is None:
                problems.append(("untraceable", f"kernel {kidx} ({name}) argument "
                                 f"{pos}: cannot trace '{what}' to a dummy argument "
                                 f"or literal"))
                return
            old = items.get((kidx, pos))
            if old is not None and old != item:
                problems.append(("inconsistent-use", f"kernel {kidx} ({name}) argument "
                                 f"{pos} resolves to both {old[1]} and {item[1]}"))
                return
            items[(kidx, pos)] = item

        def fld(expr):
            dummy = routine.field_dummy(expr)
            return None if dummy is None else ("dummy", dummy)

        if let in G.BUILTINS:
            if event[0] != "builtin" or event[1] != name:
                problems.append(("kernel-order", f"kernel {kidx} of the invoke is "
                                 f"{name} but the routine has {event[1]}"))
                continue
            regex, order = _BUILTIN_SHAPE[name]
            mat = regex.match(G.canon(event[2]) + "=" + G.canon(event[3]))
            if not mat:
                raise Unreadable(f"built-in {name}: {event[2]} = {event[3]}")
            # groups are in statement order; `order` gives for each group the
            # algorithm-argument position it stands for
            for grp, pos in enumerate(order):
                text = mat.group(grp + 1)
                if kinds[pos] == G.F:
                    put(pos, fld(text), text)
                else:
                    put(pos, routine.scalar_item(text), text)
            continue
        code = name.replace("_type", "_code")
        if event[0] != "call" or event[1] != code:
            problems.append(("kernel-order", f"kernel {kidx} of the invoke is "
                             f"{name} but the routine has {event[1]}"))
            continue
        args = event[2]
        if let == "t":
            if len(args) < 6:
                raise Unreadable(f"testkern_code call with {len(args)} args")
            put(0, routine.scalar_item(args[1]), args[1])
            for pos in range(1, 5):
                put(pos, fld(args[1 + pos]), args[1 + pos])
        else:
            if len(args) < 7:
                raise Unreadable(f"testkern_stencil_code call with {len(args)} args")
            put(0, fld(args[1]), args[1])
            put(1, fld(args[2]), args[2])
            for sten in (args[3], args[4]):
                # PSyclone shares one stencil map between all fields of one
                # function space, stencil type and extent (e.g. the map looked
                # up through f4 also serves f3): the field the map is taken from
                # must be a dummy (checked in stencil_item) but need not be this
                # position's field; only the extent belongs to the position.
                got = routine.stencil_item(sten)
                put(2, None if got is None else got[1], sten)
            put(3, fld(args[5]), args[5])
            put(4, fld(args[6]), args[6])
    return items, problems


def judge_invoke(call, routine, inv):
    """Static verdicts for one invoke.  `call` = (name, [canonical actuals]).
    Returns [(kind, where, msg)], where = (kernel letter, position, kind of
    slot, spelled text) of the offending source position or None."""
    out = []
    items, problems = resolve_invoke(routine, inv)
    for kind, detail in problems:
        out.append((kind, None, detail))
    if any(k in ("kernel-count", "kernel-order") for k, _ in problems):
        return out
    # source positions
    texts = {}
    info = {}
    for kidx, kern in enumerate(inv["kernels"]):
        let = G.LETTER_OF[kern["k"].lower()]
        for pos, spelled in enumerate(kern["args"]):
            texts[(kidx, pos)] = G.canon(spelled)
            info[(kidx, pos)] = (let, pos, G.KERNELS[let][1][pos], spelled)
    dummy_text = {}       # dummy -> {source text: first position}
    text_dummy = {}       # source text -> {dummy: first position}
    for where in sorted(items):
        kind, val = items[where]
        src = texts[where]
        if kind == "lit":
            if val != src:
                out.append(("literal-mismatch", info[where],
                            f"kernel {where[0]} argument {where[1]}: the invoke "
                            f"has '{info[where][3]}' but the PSy layer uses the "
                            f"literal {val}"))
            continue
        dummy_text.setdefault(val, {}).setdefault(src, where)
        text_dummy.setdefault(src, {}).setdefault(val, where)
    for dummy in sorted(dummy_text):
        srcs = dummy_text[dummy]
        if len(srcs) > 1:
            (t_a, w_a), (t_b, w_b) = sorted(srcs.items(), key=lambda kv: kv[1])[:2]
            out.append(("merged", info[w_b],
                        f"distinct actual arguments '{info[w_a][3]}' (kernel "
                        f"{w_a[0]} argument {w_a[1]}) and '{info[w_b][3]}' (kernel "
                        f"{w_b[0]} argument {w_b[1]}) are both served by the one "
                        f"PSy-layer dummy '{dummy}'"))
    for src in sorted(text_dummy):
        dums = text_dummy[src]
        if len(dums) > 1:
            (d_a, w_a), (d_b, w_b) = sorted(dums.items(), key=lambda kv: kv[1])[:2]
            out.append(("split", info[w_b],
                        f"the actual argument written as '{info[w_a][3]}' (kernel "
                        f"{w_a[0]} argument {w_a[1]}) and as '{info[w_b][3]}' (kernel "
                        f"{w_b[0]} argument {w_b[1]}) is one argument but is served "
                        f"by two PSy-layer dummies '{d_a}' and '{d_b}'"))
    # the call
    name, actuals = call
    if len(actuals) != len(routine.dummies):
        out.append(("arg-count:" + _count_detail(actuals, inv), None,
                    f"call {name} passes {len(actuals)} argument(s) "
                    f"({', '.join(actuals)}) but the PSy-layer routine declares "
                    f"{len(routine.dummies)} ({', '.join(routine.dummies)})"))
        return out
    if len(set(routine.dummies)) != len(routine.dummies):
        out.append(("duplicate-dummy", None,
                    f"routine {name} declares a dummy twice: "
                    f"({', '.join(routine.dummies)})"))
    for idx, dummy in enumerate(routine.dummies):
        srcs = dummy_text.get(dummy)
        if not srcs or len(srcs) > 1:
            continue
        src, where = next(iter(srcs.items()))
        if actuals[idx] != src:
            out.append(("alg-arg-mismatch", info[where],
                        f"argument {idx + 1} of call {name}: the PSy-layer dummy "
                        f"'{dummy}' is used where the invoke has '{info[where][3]}' "
                        f"(kernel {where[0]} argument {where[1]}) but the algorithm "
                        f"layer passes '{actuals[idx]}' "
                        f"(call: {', '.join(actuals)}; dummies: "
                        f"{', '.join(routine.dummies)})"))
    return out


def _count_detail(actuals, inv):
    """Why the number of actuals is wrong, in terms of the source invoke:
    dup:<slot kind>:<form>:<how the repeated actual is spelled in the invoke> |
    missing:<slot kind>:<form> | alien."""
    spelled = {}
    kinds = {}
    for kern in inv["kernels"]:
        let = G.LETTER_OF[kern["k"].lower()]
        for pos, text in enumerate(kern["args"]):
            ent = G.canon(text)
            if G.is_literal(ent):
                continue
            spelled.setdefault(ent, []).append(text)
            kinds.setdefault(ent, G.KERNELS[let][1][pos])
    for ent in sorted(spelled):
        if actuals.count(ent) > 1:
            forms = spelled[ent]
            blankless = {"".join(f.split()) for f in forms}
            if len(blankless) > 1:
                how = "case-varied"
            elif len({f.strip() for f in forms}) > 1:
                how = "blank-varied"
            else:
                how = "same-spelling"
            return f"dup:{G.spelling_class(kinds[ent], ent)}:{how}"
    for ent in actuals:
        if ent not in spelled:
            return "alien"
    for ent in sorted(spelled):
        if ent not in actuals:
            return f"missing:{G.spelling_class(kinds[ent], ent)}"
    # every distinct actual of the invoke is passed exactly once: it is the
    # PSy-layer routine that declares a different number of dummies
    return "psy-dummy-count"


def unused_dummies(routine, inv):
    items, _ = resolve_invoke(routine, inv)
    used = {v for k, v in items.values() if k == "dummy"}
    return [d for d in routine.dummies if d not in used]


def judge_program(alg_text, psy_text, invokes):
    """[(invoke index, kind, where, msg)] for a whole program."""
    out = []
    calls = alg_calls(alg_text)
    routines = psy_routines(psy_text)
    left = [c for c in calls if c[0] == "invoke"]
    if left:
        out.append((None, "invoke-left", None,
                    f"{len(left)} invoke call(s) left in the algorithm layer"))
    calls = [c for c in calls if c[0] != "invoke"]
    if len(calls) != len(invokes):
        out.append((None, "call-count", None,
                    f"{len(calls)} generated call(s) in the algorithm layer for "
                    f"{len(invokes)} invoke(s): {[c[0] for c in calls]}"))
        return out
    names = [r.name for r in routines]
    if len(routines) != len(invokes):
        out.append((None, "routine-count", None,
                    f"{len(routines)} PSy-layer routine(s) for {len(invokes)} "
                    f"invoke(s): {names}"))
    for idx, (call, inv) in enumerate(zip(calls, invokes)):
        match = [r for r in routines if r.name == call[0]]
        if len(match) != 1:
            out.append((idx, "no-psy-routine" if not match else "ambiguous-psy-routine",
                        None,
                        f"invoke {idx}: the algorithm layer calls '{call[0]}' but the "
                        f"PSy layer declares {names}"))
            continue
        for kind, where, msg in judge_invoke(call[:2], match[0], inv):
            out.append((idx, kind, where, f"invoke {idx}: " + msg))
    return out
