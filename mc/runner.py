"""Sharded exhaustive runner: enumerates a check's case space, runs every case
on the real PSyclone code in worker processes, merges the results
deterministically, matches violations against the committed known-findings
file, writes replay files and the evidence file.

Exit codes: 0 = property held on everything explored (known findings are
printed as KNOWN-FINDING lines), 1 = at least one unlisted violation
(VIOLATION lines), 2 = the harness itself is broken (never a verdict).
"""
import importlib
import json
import multiprocessing as mp
import os
import re
import signal
import sys
import time
import traceback
import zlib

ROOT = os.path.dirname(os.path.dirname(os.path.abspath(__file__)))
EVIDENCE_DIR = os.environ.get("VERIF_EVIDENCE_DIR") or os.path.join(ROOT, "evidence")
REPLAY_DIR = os.environ.get("VERIF_REPLAY_DIR") or os.path.join(ROOT, "replays")
KNOWN_FILE = os.path.join(ROOT, "known_findings.json")
EVIDENCE_SCHEMA = "/root/.vp/EVIDENCE.schema.json"

MAX_VIOLATION_LINES = 25


class HarnessError(Exception):
    """Something in the checking machinery (not in PSyclone) went wrong."""


def stable_hash(text):
    return zlib.crc32(text.encode("utf-8")) & 0xFFFFFFFF


def safe_name(key):
    name = re.sub(r"[^A-Za-z0-9_.=+-]+", "_", key)[:120]
    return f"{name}.{stable_hash(key):08x}"


def scratch_dir(tag):
    """A private scratch directory outside /repo, /verif and /tmp."""
    base = os.environ.get("VERIF_SCRATCH")
    if not base:
        base = "/dev/shm" if os.path.isdir("/dev/shm") else os.path.join(ROOT, "scratch")
    path = os.path.join(base, f"verif.{tag}.{os.getpid()}")
    os.makedirs(path, exist_ok=True)
    return path


# ---------------------------------------------------------------------------
# worker side
# ---------------------------------------------------------------------------
_MOD = None


def _init_worker(modname, tier):
    global _MOD
    signal.signal(signal.SIGINT, signal.SIG_IGN)
    _MOD = importlib.import_module(modname)
    if hasattr(_MOD, "init_worker"):
        _MOD.init_worker(tier)


class _Timeout(Exception):
    pass


def _alarm(_sig, _frm):
    raise _Timeout()


def _run_one(case):
    """Run one case; never raises (a harness exception is reported)."""
    tmo = int(getattr(_MOD, "CASE_TIMEOUT", 900))
    old = signal.signal(signal.SIGALRM, _alarm)
    signal.alarm(tmo)
    try:
        res = _MOD.run_case(case)
        signal.alarm(0)
    except _Timeout:
        res = {"harness_error": f"case {case.get('key')} exceeded {tmo}s"}
    except BaseException:  # pylint: disable=broad-except
        signal.alarm(0)
        res = {"harness_error": f"case {case.get('key')}: "
               + traceback.format_exc(limit=12)}
    finally:
        signal.alarm(0)
        signal.signal(signal.SIGALRM, old)
    res.setdefault("key", case.get("key"))
    return res


# ---------------------------------------------------------------------------
# driver side
# ---------------------------------------------------------------------------
def load_known(prop):
    """Entries of the committed known-findings file for one property.
    VERIF_KNOWN_EXTRA (development only) names a second file that is merged in."""
    found = []
    for path in (KNOWN_FILE, os.environ.get("VERIF_KNOWN_EXTRA")):
        if not path or not os.path.exists(path):
            continue
        with open(path, encoding="utf-8") as fin:
            data = json.load(fin)
        found += [f for f in data.get("findings", []) if f.get("property") == prop]
    return found


def _merge(results):
    tot = {"evals": 0, "nontrivial": 0, "states": 0, "transitions": 0,
           "validated": 0, "classes": {}, "viol": [], "samples": [],
           "extra": {}}
    for res in results:
        tot["evals"] += int(res.get("evals", 1))
        tot["nontrivial"] += int(res.get("nontrivial", 1))
        tot["states"] += int(res.get("states", 0))
        tot["transitions"] += int(res.get("transitions", 0))
        tot["validated"] += int(res.get("validated", 0))
        for cls, num in res.get("classes", {}).items():
            tot["classes"][cls] = tot["classes"].get(cls, 0) + num
        for vio in res.get("viol", []):
            vio.setdefault("key", res.get("key"))
            tot["viol"].append(vio)
        if "sample" in res:
            tot["samples"].append(res["sample"])
        for name, val in res.get("extra", {}).items():
            if isinstance(val, (int, float)):
                tot["extra"][name] = tot["extra"].get(name, 0) + val
            elif isinstance(val, list):
                cur = tot["extra"].setdefault(name, [])
                for item in val:
                    if item not in cur:
                        cur.append(item)
            elif isinstance(val, dict):
                cur = tot["extra"].setdefault(name, {})
                for k, v in val.items():
                    cur[k] = cur.get(k, 0) + v if isinstance(v, (int, float)) else v
            else:
                tot["extra"][name] = val
    return tot


def _pick_samples(samples, seed, num=4):
    if not samples:
        return []
    out = []
    step = max(1, len(samples) // num)
    start = seed % step if step else 0
    for idx in range(start, len(samples), step):
        out.append(samples[idx])
        if len(out) >= num:
            break
    return out


def write_evidence(prop, payload):
    os.makedirs(EVIDENCE_DIR, exist_ok=True)
    path = os.path.join(EVIDENCE_DIR, f"{prop}.json")
    try:
        import jsonschema
        with open(EVIDENCE_SCHEMA, encoding="utf-8") as fin:
            schema = json.load(fin)
        jsonschema.validate(payload, schema)
    except ImportError:
        pass
    except FileNotFoundError:
        pass
    with open(path, "w", encoding="utf-8") as fout:
        json.dump(payload, fout, indent=1, sort_keys=True, default=str)
        fout.write("\n")
    return path


def write_replay(prop, vio):
    os.makedirs(os.path.join(REPLAY_DIR, prop), exist_ok=True)
    path = os.path.join(REPLAY_DIR, prop, safe_name(str(vio.get("key"))) + ".json")
    with open(path, "w", encoding="utf-8") as fout:
        json.dump({"property": prop, "key": vio.get("key"),
                   "sig": vio.get("sig"), "msg": vio.get("msg"),
                   "case": vio.get("case")}, fout, indent=1, default=str)
        fout.write("\n")
    return path


def run_check(modname, tier, seed, jobs):
    t_start = time.time()
    mod = importlib.import_module(modname)
    prop = mod.ID
    if hasattr(mod, "prepare"):
        mod.prepare(tier)
    cases = list(mod.cases(tier))
    keys = [c["key"] for c in cases]
    if len(set(keys)) != len(keys):
        raise HarnessError("duplicate case keys in enumeration")
    # The seed only rotates the order in which work is handed out.
    cases.sort(key=lambda c: (stable_hash(f"{seed}:{c['key']}"), c["key"]))
    results = []
    if jobs <= 1 or len(cases) <= 1:
        _init_worker(modname, tier)
        for case in cases:
            results.append(_run_one(case))
    else:
        ctx = mp.get_context("fork")
        chunk = max(1, min(64, len(cases) // (jobs * 8)))
        with ctx.Pool(jobs, initializer=_init_worker,
                      initargs=(modname, tier)) as pool:
            for res in pool.imap_unordered(_run_one, cases, chunksize=chunk):
                results.append(res)
    results.sort(key=lambda r: str(r.get("key")))
    herr = [r["harness_error"] for r in results if "harness_error" in r]
    if herr:
        for msg in herr[:5]:
            print("HARNESS-ERROR:", msg, file=sys.stderr)
        raise HarnessError(f"{len(herr)} case(s) failed inside the harness")
    tot = _merge(results)
    extra_cov = {}
    if hasattr(mod, "finish"):
        fin = mod.finish(tier, tot) or {}
        for vio in fin.pop("viol", []):
            tot["viol"].append(vio)
        tot["validated"] += int(fin.pop("validated", 0))
        extra_cov = fin

    # ---- known findings -------------------------------------------------
    known = load_known(prop)
    open_sigs = {}
    for fnd in known:
        if fnd.get("status") == "open":
            for sig in fnd.get("sigs", []):
                open_sigs[sig] = fnd
            # long lists of failing inputs live in a committed side file
            # (one signature per line) next to known_findings.json
            if fnd.get("sigs_file"):
                with open(os.path.join(ROOT, fnd["sigs_file"]),
                          encoding="utf-8") as fin_sigs:
                    for line in fin_sigs:
                        if line.strip():
                            open_sigs[line.rstrip("\n")] = fnd
    known_hits = {}
    new_viol = []
    for vio in tot["viol"]:
        fnd = open_sigs.get(vio.get("sig"))
        if fnd is not None:
            known_hits.setdefault(fnd["id"], []).append(vio)
        else:
            new_viol.append(vio)
    for fnd in known:
        if fnd.get("status") == "open" and fnd["id"] in known_hits:
            hits = known_hits[fnd["id"]]
            print(f"KNOWN-FINDING: property={prop} {fnd['id']}: {fnd['what']} "
                  f"({len(hits)} case(s), e.g. {hits[0].get('key')})")
    dump = os.environ.get("VERIF_DUMP_VIOL")
    if dump:
        # development aid (triage): every violation, known or not, one per line
        with open(dump, "w", encoding="utf-8") as fout:
            for vio in tot["viol"]:
                fout.write(json.dumps({
                    "sig": vio.get("sig"), "group": vio.get("group"),
                    "key": vio.get("key"), "msg": str(vio.get("msg"))[:4000],
                    "known": vio.get("sig") in open_sigs}, default=str) + "\n")
    # ---- violations ----------------------------------------------------
    new_viol.sort(key=lambda v: (str(v.get("sig")), len(str(v.get("key"))),
                                 str(v.get("key"))))
    seen_sig = set()
    ordered = [v for v in new_viol
               if not (v.get("sig") in seen_sig or seen_sig.add(v.get("sig")))]
    ordered += [v for v in new_viol if v not in ordered]
    for vio in ordered[:MAX_VIOLATION_LINES]:
        path = write_replay(prop, vio)
        print(f"VIOLATION property={prop} replay={path}")
        print(f"   sig={vio.get('sig')} :: {str(vio.get('msg'))[:300]}")
    if len(new_viol) > MAX_VIOLATION_LINES:
        print(f"   ... {len(new_viol) - MAX_VIOLATION_LINES} further violating "
              f"case(s) not listed ({len(seen_sig)} distinct signatures)")

    # ---- evidence ------------------------------------------------------
    wall = time.time() - t_start
    coverage = {
        "evaluations": tot["evals"],
        "distinct_nontrivial": tot["nontrivial"],
        "rule": getattr(mod, "RULE", ""),
        "samples": _pick_samples(tot["samples"], seed) or [keys[0] if keys else ""],
        "exhaustive": bool(getattr(mod, "EXHAUSTIVE", True)),
        "outcome_classes": dict(sorted(tot["classes"].items())),
        "work_items": len(cases),
        "bounds": (mod.bounds(tier) if hasattr(mod, "bounds") else {}),
        "known_finding_cases": {k: len(v) for k, v in known_hits.items()},
        "violating_cases": len(new_viol),
    }
    if mod.LEVEL == "model_checking":
        coverage["states"] = max(1, tot["states"] or tot["evals"])
        coverage["transitions"] = max(1, tot["transitions"] or tot["evals"])
        coverage["traces_validated_against_impl"] = tot["validated"]
    coverage.update(tot["extra"])
    coverage.update(extra_cov)
    payload = {
        "property_id": prop, "tier": tier, "seed": seed, "level": mod.LEVEL,
        "coverage": coverage,
        "assumptions": list(getattr(mod, "ASSUMPTIONS", [])),
        "wall_s": round(wall, 2),
        "violations": len(new_viol),
    }
    write_evidence(prop, payload)
    print(f"[{prop}] tier={tier} seed={seed} work_items={len(cases)} "
          f"evaluations={tot['evals']} nontrivial={tot['nontrivial']} "
          f"states={tot['states']} transitions={tot['transitions']} "
          f"known={sum(len(v) for v in known_hits.values())} "
          f"violations={len(new_viol)} wall={wall:.1f}s")
    return 1 if new_viol else 0


def run_replay(modname, path):
    mod = importlib.import_module(modname)
    with open(path, encoding="utf-8") as fin:
        data = json.load(fin)
    _init_worker(modname, "quick")
    case = data.get("case") or {"key": data.get("key")}
    if hasattr(mod, "replay"):
        res = mod.replay(case)
    else:
        res = mod.run_case(case)
    viol = res.get("viol", [])
    print(json.dumps({k: v for k, v in res.items() if k != "viol"},
                     indent=1, default=str))
    for vio in viol:
        print(f"VIOLATION property={mod.ID} replay={path}")
        print(f"   sig={vio.get('sig')} :: {vio.get('msg')}")
    return 1 if viol else 0
