"""bin/check <ID> [--tier quick|thorough] [--replay FILE] [--jobs N]"""
import argparse
import os
import sys
import traceback

from mc import runner


def main(argv=None):
    par = argparse.ArgumentParser(prog="check")
    par.add_argument("prop")
    par.add_argument("--tier", default=os.environ.get("VERIF_TIER", "quick"),
                     choices=["quick", "thorough"])
    par.add_argument("--replay")
    par.add_argument("--jobs", type=int,
                     default=int(os.environ.get("VERIF_JOBS", "16")))
    args = par.parse_args(argv)
    try:
        seed = int(os.environ.get("VERIF_SEED", "0"))
    except ValueError:
        seed = 0
    modname = f"mc.checks.{args.prop.lower()}"
    try:
        if args.replay:
            return runner.run_replay(modname, args.replay)
        return runner.run_check(modname, args.tier, seed, args.jobs)
    except runner.HarnessError as err:
        print(f"HARNESS-ERROR: {err}", file=sys.stderr)
        return 2
    except Exception:  # pylint: disable=broad-except
        traceback.print_exc()
        return 2


if __name__ == "__main__":
    sys.exit(main())
