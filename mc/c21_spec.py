"""C21 helper: independent model of the DOCUMENTED kernel-argument rules
(doc/user_guide/dynamo0p3.rst, "Rules for General-Purpose Kernels", rules
1-7) for general-purpose kernels that operate on cell-columns (no CMA
operator, no inter-grid argument).  Written from the documentation only.

`expected(meta)` returns None when the documentation does not determine the
sequence for this metadata, otherwise a list of items.  An item is a list of
alternative BLOCKS orders: ("perm", [block, ...]) means the blocks may come in
any order (used where the documentation lists arguments without fixing their
relative order, or contradicts itself); a block is a list of entries
{role, detail, type, kind, rank, intent}; attributes that the documentation
does not fix (or gets wrong, see notes/C21.md) are None.
"""
import itertools
import os

FS_TOKEN = {"any_space_1": "aspc1", "any_space_2": "aspc2",
            "any_discontinuous_space_1": "adspc1",
            "any_discontinuous_space_2": "adspc2"}

SCALAR_TYPES = {"r": ("real", "r_def"), "i": ("integer", "i_def"),
                "l": ("logical", "l_def")}
FIELD_TYPES = {"r": ("real", "r_def"), "i": ("integer", "i_def")}

REFELEM_ROLE = {
    "nhf": ("refelem-normals_to_horiz_faces", "nfaces_re_h"),
    "nvf": ("refelem-normals_to_vert_faces", "nfaces_re_v"),
    "nf": ("refelem-normals_to_faces", "nfaces_re"),
    "onhf": ("refelem-out_normals_to_horiz_faces", "nfaces_re_h"),
    "onvf": ("refelem-out_normals_to_vert_faces", "nfaces_re_v"),
    "onf": ("refelem-out_normals_to_faces", "nfaces_re"),
}


def fs_token(name):
    return FS_TOKEN.get(name, name)


def _ent(role, detail="", ftype=None, kind=None, rank=None, intent=None):
    return {"role": role, "detail": str(detail), "type": ftype, "kind": kind,
            "rank": rank, "intent": intent}


def _int(role, detail="", rank=0):
    return _ent(role, detail, "integer", "i_def", rank, "in")


def _one(entry):
    return ("perm", [[entry]])


def _intent(acc):
    # "Argument intents": gh_read -> in; gh_write, gh_inc, gh_readinc,
    # gh_readwrite -> inout
    return "in" if acc == "read" else "inout"


def in_scope(meta):
    if meta.get("on", "cc") != "cc":
        return False
    for arg in meta["a"]:
        if arg[0] == "C":
            return False
        if arg[0] == "F" and arg[6]:
            return False
    return True


def expected(meta):
    if not in_scope(meta):
        return None
    args = meta["a"]
    items = []
    # rule 1, 2
    if any(a[0] == "O" for a in args):
        items.append(_one(_int("cell")))
    items.append(_one(_int("nlayers")))
    # rule 3
    for pos, arg in enumerate(args, start=1):
        if arg[0] == "S":
            ftype, kind = SCALAR_TYPES[arg[1]]
            items.append(_one(_ent(arg[1] + "scalar", pos, ftype, kind, 0, "in")))
        elif arg[0] == "F":
            _, dtype, acc, _fspace, vec, sten, _mesh = arg
            ftype, kind = FIELD_TYPES[dtype]
            for comp in range(1, vec + 1):
                if vec == 1:
                    items.append(_one(_ent("field", pos, ftype, kind, 1,
                                           _intent(acc))))
                else:
                    items.append(_one(_ent(
                        "field-vector-component", f"{pos}.{comp}", ftype,
                        kind, 1, _intent(acc))))
            if sten:
                if ":" in sten:
                    return None     # fixed extents: not implemented
                if sten == "cross2d":
                    items.append(_one(_int("stencil-size", pos, rank=1)))
                    items.append(_one(_int("stencil-max-branch-length", pos)))
                    items.append(_one(_int("stencil-dofmap", pos, rank=3)))
                else:
                    items.append(_one(_int("stencil-size", pos)))
                    dofmap = _int("stencil-dofmap", pos, rank=2)
                    if sten == "xory1d":
                        # the numbered list puts the direction last, the
                        # bundled example kernels put it before the dofmap
                        items.append(("perm", [[dofmap],
                                               [_int("stencil-direction", pos)]]))
                    else:
                        items.append(_one(dofmap))
        elif arg[0] == "O":
            items.append(_one(_int("operator-ncell_3d", pos)))
            items.append(_one(_ent("operator", pos, "real", "r_def", 3,
                                   _intent(arg[1]))))
    # evaluator targets
    shapes = meta.get("sh") or []
    targets = meta.get("tg")
    if "eval" in shapes and targets is None:
        targets = []
        for arg in args:
            if arg[0] == "F" and arg[2] != "read":
                space = arg[3]
            elif arg[0] == "O" and arg[1] != "read":
                if arg[2] != arg[3]:
                    # "each function space associated with the quantities
                    # that the kernel is updating": to, from or both?
                    return None
                space = arg[2]
            else:
                continue
            if space not in targets:
                targets.append(space)
    funcs = {fs: ops for fs, ops in (meta.get("f") or [])}
    # rule 4
    spaces = []
    for arg in args:
        these = [] if arg[0] == "S" else ([arg[3]] if arg[0] == "F"
                                          else [arg[2], arg[3]])
        for space in these:
            if space not in spaces:
                spaces.append(space)
    for space in spaces:
        tok = fs_token(space)
        items.append(_one(_int("ndf", tok)))
        if any(a[0] == "F" and a[3] == space for a in args):
            items.append(_one(_int("undf", tok)))
            items.append(_one(_int("dofmap", tok, rank=1)))
        blocks = []
        for oper in funcs.get(space, ""):
            prefix = "basis" if oper == "b" else "diff-basis"
            block = []
            for shape in shapes:
                if shape == "eval":
                    for target in targets:
                        block.append(_ent(prefix + "-evaluator",
                                          f"{tok}>{fs_token(target)}",
                                          "real", "r_def", 3, "in"))
                else:
                    block.append(_ent(f"{prefix}-qr-{shape}", tok,
                                      "real", "r_def", 4, "in"))
            blocks.append(block)
        if blocks:
            # "(basis, diff_basis), in the order specified in the metadata"
            items.append(("perm", blocks))
    # rule 5
    refl = meta.get("re") or []
    counts = []
    for prop in refl:
        count = REFELEM_ROLE[prop][1]
        if count not in counts:
            counts.append(count)
    if counts:
        items.append(("perm", [[_int(c)] for c in counts]))
    seen = []
    for prop in refl:
        if prop in seen:
            continue
        seen.append(prop)
        # the documentation says "integer array of kind i_def" for normals,
        # which are real vectors: type and kind are left open
        items.append(_one(_ent(REFELEM_ROLE[prop][0], "", None, None, 2, "in")))
    # rule 6
    if meta.get("me"):
        if "nfaces_re_h" not in counts:
            items.append(_one(_int("nfaces_re_h")))
        items.append(_one(_int("mesh-adjacent_face", "", rank=1)))
    # rule 7
    for shape in shapes:
        if shape == "xyoz":
            items.append(_one(_int("qr-np_xy", shape)))
            items.append(_one(_int("qr-np_z", shape)))
            items.append(_one(_ent("qr-weights_xy", shape, "real", "r_def", 1, "in")))
            items.append(_one(_ent("qr-weights_z", shape, "real", "r_def", 1, "in")))
        elif shape in ("face", "edge"):
            num = "qr-nfaces" if shape == "face" else "qr-nedges"
            # rule 7.1.2 lists nfaces/nedges first, the worked example in the
            # same section lists np_xyz first
            items.append(("perm", [[_int(num, shape)], [_int("qr-np_xyz", shape)]]))
            items.append(_one(_ent("qr-weights_xyz", shape, "real", "r_def", 2, "in")))
    return items


def match(items, observed):
    """observed: list of (role, detail).  Returns (None, chosen) when the
    observed sequence is one of the sequences the items allow (chosen = the
    flat list of expected entries in the matching order), otherwise
    ((position, expected entry or None, observed pair or None), partial)."""
    pos = 0
    chosen = []
    for _tag, blocks in items:
        best = None
        for perm in itertools.permutations(blocks):
            flat = [e for block in perm for e in block]
            good = 0
            for off, entry in enumerate(flat):
                if pos + off < len(observed) and \
                        (entry["role"], entry["detail"]) == tuple(observed[pos + off]):
                    good += 1
                else:
                    break
            # ties: prefer the order whose next entry resembles what is there
            like = 0
            if good < len(flat) and pos + good < len(observed):
                like = len(os.path.commonprefix(
                    [flat[good]["role"], observed[pos + good][0]]))
            if best is None or (good, like) > best[:2]:
                best = (good, like, flat)
            if good == len(flat):
                break
        good, _like, flat = best
        if good != len(flat):
            bad = pos + good
            obs = tuple(observed[bad]) if bad < len(observed) else None
            return (bad, flat[good], obs), chosen + flat[:good]
        chosen += flat
        pos += len(flat)
    if pos != len(observed):
        return (pos, None, tuple(observed[pos])), chosen
    return None, chosen
