"""C04 helper: seed routines, operation alphabet, replay of operation histories on
fresh PSyIR trees and the FortranWriter step.

Everything here drives the REAL PSyclone classes.  A state is identified by the
history (list of operations) that reaches it; ``build`` re-parses the seed with
FortranReader, applies the seed's API set-up (symbols that live in inner scopes)
and replays the history, so no PSyIR object is ever shared between two states.

Every seed exists in two variants of identical shape:
  "c" (colliding)  the locals carry the names that the transformations invent
                   (idx, loop_stop, i_el_inner, i_out_var, tmp_var, res_abs, ...)
  "n" (neutral)    the same text with those locals renamed to unique names
                   (zq1, zq2, ...), so that no clash can arise.
The same history is replayed on both; the two written texts must be equal up to a
one-to-one renaming of identifiers (mc/c04_text.alpha_compare).
"""
import hashlib
import re

# ---------------------------------------------------------------------------
# Seeds.  Program units are called c04m (module), c04s (routine under test),
# c04callee* (routines that are inlined) so that the judge can rename them.
# "ren": colliding local name -> neutral name.  "inner": symbols created through
# the API in inner scopes after reading: (path of the Schedule, name, type,
# value assigned at the end of that Schedule).
# ---------------------------------------------------------------------------
UNIT_NAMES = ["c04m", "c04s", "c04callee", "c04callee2", "c04ext_mod"]

SEEDS = {
    "chunk": {
        "src": """
subroutine c04s(a, b, n, m)
  integer, intent(in) :: n
  integer, intent(in) :: m
  real, intent(inout) :: a(n,m)
  real, intent(inout) :: b(n,m)
  integer :: i
  integer :: j
  integer :: i_el_inner
  integer :: i_out_var
  integer :: j_el_inner_1
  i_el_inner = 1
  i_out_var = 2
  j_el_inner_1 = 3
  do j = 1, m
    do i = 1, n
      a(i,j) = b(i,j) + i_el_inner
    end do
  end do
  if (n > i_out_var) then
    do i = 1, n
      b(i,1) = a(i,1) * j_el_inner_1
    end do
  end if
end subroutine c04s
""",
        "ren": {"i_el_inner": "zq1", "i_out_var": "zq2",
                "j_el_inner_1": "zq3"},
    },
    "hoistb": {
        "src": """
subroutine c04s(a, n, lo)
  integer, intent(in) :: n
  integer, intent(in) :: lo
  real, intent(inout) :: a(4*n)
  integer :: i
  integer :: loop_stop
  integer :: loop_start_1
  integer :: loop_step
  loop_stop = n
  loop_start_1 = lo
  loop_step = 1
  do i = lo + 1, loop_stop * 2
    a(i) = 0.0
  end do
  if (lo > 0) then
    do i = loop_start_1 + 1, n + n, loop_step + 1
      a(i) = 1.0
    end do
  end if
end subroutine c04s
""",
        "ren": {"loop_stop": "zq1", "loop_start_1": "zq2", "loop_step": "zq3"},
    },
    "arr": {
        "src": """
subroutine c04s(a, b, c, n)
  integer, intent(in) :: n
  real, intent(inout) :: a(n)
  real, intent(inout) :: b(n)
  real, intent(inout) :: c(n,n)
  integer :: idx
  integer :: idx_1
  integer :: i
  idx = 1
  idx_1 = n
  a(:) = b(:) + idx
  c(:,:) = 0.0
  do i = 1, n
    c(:,i) = a(:) * idx_1
  end do
  if (idx > 0) then
    b(idx:idx_1) = a(idx:idx_1)
  end if
end subroutine c04s
""",
        "ren": {"idx": "zq1", "idx_1": "zq2"},
    },
    "inl": {
        "src": """
module c04m
  implicit none
  integer :: gcount
  integer, parameter :: gsize = 4
contains
  subroutine c04s(a, n)
    integer, intent(in) :: n
    real, intent(inout) :: a(n)
    integer :: i
    integer :: tmp
    integer :: idx
    real :: work(gsize)
    tmp = 0
    idx = 1
    work(1) = 0.0
    call c04callee(a, n, tmp)
    do i = 1, n
      call c04callee2(a(i), idx)
    end do
    if (tmp > 0) then
      call c04callee(a, n, idx)
    end if
    gcount = gcount + tmp
    a(1) = work(1)
  end subroutine c04s
  subroutine c04callee(x, m, k)
    integer, intent(in) :: m
    real, intent(inout) :: x(m)
    integer, intent(inout) :: k
    integer :: i
    integer :: tmp
    integer :: idx
    integer, parameter :: gsz = 2
    real :: work(gsz)
    tmp = k
    work(1) = 1.0
    do i = 1, m
      idx = i + tmp
      x(i) = x(i) + idx + work(1)
    end do
    k = tmp + 1
  end subroutine c04callee
  subroutine c04callee2(y, k)
    real, intent(inout) :: y
    integer, intent(in) :: k
    real :: tmp
    real :: idx_1
    tmp = y * k
    idx_1 = tmp + gsize
    y = idx_1
  end subroutine c04callee2
end module c04m
""",
        # the CALLEES' locals are the ones renamed in the neutral variant
        "ren_in": {"c04callee": {"i": "zq1", "tmp": "zq2", "idx": "zq3",
                                 "work": "zq4"},
                   "c04callee2": {"tmp": "zq5", "idx_1": "zq6"}},
    },
    "hla": {
        "src": """
module c04m
  implicit none
  real :: work(10)
  integer :: work_1
  integer :: tmp2_1
contains
  subroutine c04s(a, n)
    integer, intent(in) :: n
    real, intent(inout) :: a(n)
    real :: work(n)
    real :: tmp2(n,2)
    integer :: i
    do i = 1, n
      work(i) = a(i)
      tmp2(i,1) = work(i)
    end do
    a(:) = work(:) + tmp2(:,1)
  end subroutine c04s
  subroutine c04callee(x)
    real, intent(inout) :: x
    x = work(1) + work_1 + tmp2_1
  end subroutine c04callee
end module c04m
""",
        "ren_in": {"c04s": {"work": "zq1", "tmp2": "zq2"}},
    },
    "omp": {
        "src": """
subroutine c04s(a, b, n, m)
  integer, intent(in) :: n
  integer, intent(in) :: m
  real, intent(inout) :: a(n,m)
  real, intent(inout) :: b(n)
  integer :: i
  integer :: j
  integer :: th_idx
  integer :: nthreads
  real :: t
  th_idx = 1
  nthreads = 2
  do j = 1, m
    do i = 1, n
      t = a(i,j) * th_idx
      a(i,j) = t + nthreads
    end do
  end do
  do i = 1, n
    b(i) = a(i,1)
  end do
end subroutine c04s
""",
        "ren": {"th_idx": "zq1", "nthreads": "zq2"},
    },
    "prof": {
        "src": """
subroutine c04s(a, n)
  integer, intent(in) :: n
  real, intent(inout) :: a(n)
  integer :: i
  integer :: profile_psy_data
  integer :: profile_psy_data_1
  profile_psy_data = 1
  profile_psy_data_1 = 2
  do i = 1, n
    a(i) = a(i) + profile_psy_data
  end do
  if (n > profile_psy_data_1) then
    a(1) = 0.0
  end if
end subroutine c04s
""",
        "ren": {"profile_psy_data": "zq1", "profile_psy_data_1": "zq2"},
    },
    "prof2": {
        "src": """
subroutine c04s(a, n)
  integer, intent(in) :: n
  real, intent(inout) :: a(n)
  integer :: i
  integer :: profile_psydatatype
  integer :: profile_psy_data_mod
  profile_psydatatype = 1
  profile_psy_data_mod = 2
  do i = 1, n
    a(i) = a(i) + profile_psydatatype
  end do
  a(1) = profile_psy_data_mod
end subroutine c04s
""",
        "ren": {"profile_psydatatype": "zq1", "profile_psy_data_mod": "zq2"},
    },
    "matmul": {
        "src": """
subroutine c04s(x, y, z, v, w, n)
  integer, intent(in) :: n
  real, intent(in) :: x(n,n)
  real, intent(in) :: y(n,n)
  real, intent(inout) :: z(n,n)
  real, intent(in) :: v(n)
  real, intent(inout) :: w(n)
  integer :: i
  integer :: j
  integer :: ii
  integer :: i_1
  i = 1
  j = 2
  ii = 3
  i_1 = 4
  z = matmul(x, y)
  if (n > i) then
    w = matmul(x, v)
  end if
  w(1) = w(1) + j + ii + i_1 + dot_product(v, w)
end subroutine c04s
""",
        "ren": {"i": "zq1", "j": "zq2", "ii": "zq3", "i_1": "zq4"},
    },
    "reduce": {
        "src": """
subroutine c04s(a, c, n, s, t)
  integer, intent(in) :: n
  real, intent(inout) :: a(n)
  real, intent(inout) :: c(n,n)
  real, intent(inout) :: s
  real, intent(inout) :: t
  real :: tmp_var
  integer :: idx
  integer :: i
  tmp_var = 1.0
  idx = 2
  s = s + sum(a(:))
  t = maxval(c(:,:)) + tmp_var
  do i = 1, n
    a(i) = a(i) + minval(c(:,i))
  end do
  if (s > t) then
    s = s * product(a(:)) + idx
  end if
end subroutine c04s
""",
        "ren": {"tmp_var": "zq1", "idx": "zq2"},
    },
    "abs": {
        "src": """
subroutine c04s(a, b, c, n)
  integer, intent(in) :: n
  real, intent(inout) :: a(n)
  real, intent(inout) :: b(n)
  real, intent(inout) :: c(n)
  integer :: i
  real :: res_abs
  real :: tmp_abs_1
  real :: res_sign
  real :: tmp_max
  res_abs = 1.0
  tmp_abs_1 = 2.0
  res_sign = 3.0
  tmp_max = 4.0
  do i = 1, n
    a(i) = abs(b(i)) + res_abs
  end do
  do i = 1, n
    b(i) = sign(a(i), c(i)) + abs(c(i)) + tmp_abs_1
  end do
  if (n > 1) then
    c(1) = max(a(1), b(1)) + min(a(2), b(2)) + res_sign
  else
    c(1) = abs(a(1)) + tmp_max
  end if
end subroutine c04s
""",
        "ren": {"res_abs": "zq1", "tmp_abs_1": "zq2", "res_sign": "zq3",
                "tmp_max": "zq4"},
    },
    "scopes": {
        "src": """
module c04m
  implicit none
  real :: t_2
contains
  subroutine c04s(a, b, n)
    integer, intent(in) :: n
    real, intent(inout) :: a(n)
    real, intent(inout) :: b(n)
    integer :: i
    real :: t
    real :: res_abs_1
    t = 1.0
    res_abs_1 = 2.0
    do i = 1, n
      a(i) = abs(b(i)) + t
    end do
    do i = 1, n
      if (a(i) > t) then
        b(i) = abs(a(i)) + t_2
      else
        b(i) = res_abs_1
      end if
    end do
    a(1) = t + t_2
  end subroutine c04s
end module c04m
""",
        "ren_in": {"c04s": {"res_abs_1": "zq9"}},
        # (schedule path from the routine, colliding name, neutral name, value)
        "inner": [
            ([2, 3], "t", "zq1", "5.0"),
            ([2, 3], "t_1", "zq2", "6.0"),
            ([3, 3], "t", "zq3", "7.0"),
            ([3, 3, 0, 1], "t_1", "zq4", "8.0"),
            ([3, 3, 0, 2], "res_abs", "zq5", "9.0"),
        ],
    },
}
SEED_ORDER = ["chunk", "hoistb", "arr", "inl", "hla", "omp", "prof", "prof2",
              "matmul", "reduce", "abs", "scopes"]
VARIANTS = ["c", "n"]


def _rename_words(text, mapping):
    for old, new in mapping.items():
        text = re.sub(rf"\b{re.escape(old)}\b", new, text)
    return text


def seed_source(seed, variant):
    """Source text of a seed variant."""
    spec = SEEDS[seed]
    src = spec["src"]
    if variant == "c":
        return src
    if "ren" in spec:
        src = _rename_words(src, spec["ren"])
    for routine, mapping in spec.get("ren_in", {}).items():
        pat = re.compile(
            rf"(subroutine {routine}\b.*?end subroutine {routine}\b)", re.S)
        mat = pat.search(src)
        body = _rename_words(mat.group(1), mapping)
        src = src[:mat.start()] + body + src[mat.end():]
    return src


# ---------------------------------------------------------------------------
# Alphabet.  An operation is the JSON-able list [trans, path, variant]:
#   trans   : key of TRANS below
#   path    : child indices from the routine c04s to the target node ([] = the
#             routine itself)
#   variant : index into the transformation's option list
# ---------------------------------------------------------------------------
# name -> (target kind, [option dicts])
#   L loop, A assignment, C call, R routine, S a compound statement (Loop /
#   IfBlock: a region of one node), I:<NAME> intrinsic call of that name
TRANS = {
    "chunk": ("L", [{"chunksize": 4}]),
    "tile2d": ("L", [{"tilesize": 4}]),
    "hoistbound": ("L", [{}]),
    "arr2loops": ("A", [{}]),
    "inline": ("C", [{}]),
    "hoistlocal": ("R", [{}]),
    "ompparloop": ("L", [{"force": True}]),
    "omppar": ("S", [{}]),
    "ompdo_reprod": ("L", [{"force": True, "reprod": True}]),
    "acckernels": ("S", [{}]),
    "profile": ("S", [{}]),
    "profile_all": ("R", [{}]),
    "matmul2code": ("I:MATMUL", [{}]),
    "dotproduct2code": ("I:DOT_PRODUCT", [{}]),
    "sum2loop": ("I:SUM", [{}]),
    "maxval2loop": ("I:MAXVAL", [{}]),
    "minval2loop": ("I:MINVAL", [{}]),
    "product2loop": ("I:PRODUCT", [{}]),
    "abs2code": ("I:ABS", [{}]),
    "sign2code": ("I:SIGN", [{}]),
    "min2code": ("I:MIN", [{}]),
    "max2code": ("I:MAX", [{}]),
}
#: transformations that are only enumerated on the named seeds (they add
#: symbols only there: OMPLoopTrans(reprod) declares th_idx / nthreads and is
#: only written inside a parallel region)
ONLY_ON = {"omppar": ["omp"], "ompdo_reprod": ["omp"]}
#: a history uses OpenMP or OpenACC transformations, never both (C10)
FAMILY = {"ompparloop": "omp", "omppar": "omp", "ompdo_reprod": "omp",
          "acckernels": "acc"}
TRANS_ORDER = list(TRANS)

#: transformations kept at the deepest level of the thorough tier
CORE = ["chunk", "hoistbound", "arr2loops", "inline", "hoistlocal", "profile",
        "sum2loop", "minval2loop", "abs2code", "sign2code", "max2code",
        "matmul2code", "ompparloop"]


def make_trans(name):
    # pylint: disable=import-outside-toplevel,too-many-return-statements
    from psyclone import transformations as T
    from psyclone.psyir import transformations as PT
    table = {
        "chunk": PT.ChunkLoopTrans,
        "tile2d": PT.LoopTiling2DTrans,
        "hoistbound": PT.HoistLoopBoundExprTrans,
        "arr2loops": PT.ArrayAssignment2LoopsTrans,
        "inline": PT.InlineTrans,
        "hoistlocal": PT.HoistLocalArraysTrans,
        "ompparloop": T.OMPParallelLoopTrans,
        "omppar": T.OMPParallelTrans,
        "acckernels": PT.ACCKernelsTrans,
        "profile": PT.ProfileTrans,
        "profile_all": PT.ProfileTrans,
        "matmul2code": PT.Matmul2CodeTrans,
        "dotproduct2code": PT.DotProduct2CodeTrans,
        "sum2loop": PT.Sum2LoopTrans,
        "maxval2loop": PT.Maxval2LoopTrans,
        "minval2loop": PT.Minval2LoopTrans,
        "product2loop": PT.Product2LoopTrans,
        "abs2code": PT.Abs2CodeTrans,
        "sign2code": PT.Sign2CodeTrans,
        "min2code": PT.Min2CodeTrans,
        "max2code": PT.Max2CodeTrans,
    }
    if name == "ompdo_reprod":
        return PT.OMPLoopTrans(omp_directive="do")
    return table[name]()


def reset_singletons():
    """PSyclone singletons that could carry state between elements: none of the
    transformations of the alphabet writes to one; the one setting that is read
    is asserted."""
    # pylint: disable=import-outside-toplevel
    from psyclone.configuration import Config
    if Config.get().reproducible_reductions:
        raise RuntimeError("C04 expects REPRODUCIBLE_REDUCTIONS = false")


_READER = []


def parse_seed(seed, variant):
    """Fresh PSyIR for a seed variant -> (root, routine c04s)."""
    # pylint: disable=import-outside-toplevel
    from psyclone.psyir.frontend.fortran import FortranReader
    from psyclone.psyir.nodes import Routine
    if not _READER:
        _READER.append(FortranReader())
    psyir = _READER[0].psyir_from_source(seed_source(seed, variant))
    routine = [r for r in psyir.walk(Routine) if r.name == "c04s"][0]
    _setup_inner(seed, variant, routine)
    return psyir, routine


_PARSE_TREES = {}


def parse_seed_fast(seed, variant):
    """Explorer / reference-variant path: the fparser2 parse tree of the seed is
    produced once per process exactly as FortranReader does it; every call
    constructs a NEW PSyIR tree from it with the public
    Fparser2Reader.generate_psyir.  No PSyIR object is shared.  Every colliding
    state found this way is rebuilt with parse_seed() by the judge and must
    have the same digest, so a difference between the two paths is a harness
    error."""
    # pylint: disable=import-outside-toplevel
    from fparser.common.readfortran import FortranStringReader
    from fparser.common.sourceinfo import FortranFormat
    from fparser.two.parser import ParserFactory
    from fparser.two.symbol_table import SYMBOL_TABLES
    from psyclone.psyir.frontend.fparser2 import Fparser2Reader
    from psyclone.psyir.nodes import Routine
    key = (seed, variant)
    if key not in _PARSE_TREES:
        SYMBOL_TABLES.clear()
        reader = FortranStringReader(seed_source(seed, variant))
        reader.set_format(FortranFormat(True, False))
        _PARSE_TREES[key] = ParserFactory().create(std="f2008")(reader)
    psyir = Fparser2Reader().generate_psyir(_PARSE_TREES[key])
    routine = [r for r in psyir.walk(Routine) if r.name == "c04s"][0]
    _setup_inner(seed, variant, routine)
    return psyir, routine


def _setup_inner(seed, variant, routine):
    """Adds the seed's inner-scope symbols through the PSyIR API: each gets a
    symbol in the table of the given Schedule (shadowing allowed) and an
    assignment `sym = value` at the end of that Schedule."""
    # pylint: disable=import-outside-toplevel
    from psyclone.psyir.nodes import Assignment, Literal, Reference
    from psyclone.psyir.symbols import DataSymbol, REAL_TYPE
    for path, cname, nname, value in SEEDS[seed].get("inner", []):
        sched = node_at(routine, path)
        name = cname if variant == "c" else nname
        sym = sched.symbol_table.new_symbol(
            name, shadowing=True, symbol_type=DataSymbol, datatype=REAL_TYPE)
        if sym.name != name:
            raise RuntimeError(f"seed set-up: wanted '{name}' got "
                               f"'{sym.name}'")
        sched.addchild(Assignment.create(Reference(sym),
                                         Literal(value, REAL_TYPE)))


def node_at(routine, path):
    node = routine
    for idx in path:
        node = node.children[idx]
    return node


def path_of(routine, node):
    path = []
    while node is not routine:
        path.append(node.position)
        node = node.parent
    return list(reversed(path))


def enumerate_ops(routine, names=None, seed=None, history=()):
    """Every operation of the alphabet on every matching node of the routine
    (pre-order); transformations of the other directive family than the one
    already used in the history are left out."""
    # pylint: disable=import-outside-toplevel
    from psyclone.psyir.nodes import (Assignment, Call, IfBlock,
                                      IntrinsicCall, Loop, Statement,
                                      Schedule)
    targets = {"L": [], "A": [], "C": [], "R": [[]], "S": []}
    intr = {}
    for node in routine.walk((Statement, IntrinsicCall)):
        if node is routine:
            continue
        path = path_of(routine, node)
        if isinstance(node, IntrinsicCall):
            intr.setdefault(node.intrinsic.name, []).append(path)
            continue
        if isinstance(node, Loop):
            targets["L"].append(path)
        if isinstance(node, Assignment):
            targets["A"].append(path)
        if isinstance(node, Call):
            targets["C"].append(path)
        if isinstance(node, (Loop, IfBlock)) and \
                isinstance(node.parent, Schedule):
            targets["S"].append(path)
    ops = []
    used = set(FAMILY[o[0]] for o in history if o[0] in FAMILY)
    for name in TRANS_ORDER:
        if names is not None and name not in names:
            continue
        if name in ONLY_ON and seed not in ONLY_ON[name]:
            continue
        if name in FAMILY and used and FAMILY[name] not in used:
            continue
        kind, variants = TRANS[name]
        if kind.startswith("I:"):
            paths = intr.get(kind[2:], [])
        else:
            paths = targets[kind]
        for path in paths:
            for var in range(len(variants)):
                ops.append([name, path, var])
    return ops


def apply_op(routine, oper):
    """Applies one operation with the real transformation.  Returns "ok" or
    "rej:<ExceptionClass>"."""
    # pylint: disable=import-outside-toplevel
    from psyclone.errors import InternalError
    from psyclone.psyir.transformations import TransformationError
    name, path, variant = oper
    trans = make_trans(name)
    node = node_at(routine, path)
    opts = dict(TRANS[name][1][variant])
    if name in ("omppar", "acckernels", "profile"):
        target = [node]
    elif name == "profile_all":
        target = list(node.children)
    else:
        target = node
    try:
        trans.apply(target, opts if opts else None)
    except TransformationError:
        return "rej:TransformationError"
    except InternalError as err:
        return "crash:InternalError:" + _where(err)
    except Exception as err:  # pylint: disable=broad-except
        return f"crash:{type(err).__name__}:" + _where(err)
    return "ok"


def _where(exc):
    """innermost PSyclone frame of the traceback: file:function."""
    import os
    import traceback
    for frame in reversed(traceback.extract_tb(exc.__traceback__)):
        if "psyclone" in frame.filename:
            return f"{os.path.basename(frame.filename)}:{frame.name}"
    return "?"


def build(seed, variant, history, fast=False):
    """Fresh tree + replay.  Returns (root, routine, [outcome per op])."""
    reset_singletons()
    psyir, routine = (parse_seed_fast if fast else parse_seed)(seed, variant)
    outcomes = []
    for oper in history:
        try:
            outcomes.append(apply_op(routine, oper))
        except IndexError:
            outcomes.append("rej:no-such-node")
        if outcomes[-1] != "ok":
            break
    return psyir, routine, outcomes


def write(psyir):
    """Runs the real FortranWriter.  Returns ("text", src) or
    ("refused"|"crash", ExceptionClass, message, where)."""
    # pylint: disable=import-outside-toplevel
    from psyclone.psyir.backend.fortran import FortranWriter
    from psyclone.errors import InternalError, PSycloneError
    try:
        return ("text", FortranWriter()(psyir))
    except InternalError as err:
        return ("crash", "InternalError", str(err), _where(err))
    except PSycloneError as err:
        return ("refused", type(err).__name__, str(err), _where(err))
    except Exception as err:  # pylint: disable=broad-except
        return ("crash", type(err).__name__, str(err), _where(err))


def digest(text):
    return hashlib.sha1(text.encode("utf-8")).hexdigest()[:20]


def state_digest(seed, routine, written):
    """Canonical state: the colour-free view() of the whole tree (node kinds,
    attributes, child order) + what the writer produced (names of all symbols
    that are declared, in declaration order) or the class of its refusal.  Two
    histories are merged only when both agree, so nothing that a later
    operation or the oracle can observe is dropped, except symbols that are
    neither referenced nor declared."""
    root = routine.root
    tail = written[1] if written[0] == "text" else f"<{written[0]}:{written[1]}>"
    return digest(f"{seed}|" + root.view(colour=False) + "\n=====\n" + tail)


def op_str(oper):
    name, path, variant = oper
    tgt = "/".join(str(p) for p in path) or "."
    return f"{name}@{tgt}" + (f"#{variant}" if variant else "")


def hist_str(history):
    return " ; ".join(op_str(o) for o in history) or "<seed>"


def hist_shape(history):
    """History without the target positions: the transformation names in
    order."""
    return ">".join(o[0] for o in history) or "seed"
