"""C04 helper: gfortran as the compiler of "compiles with implicit typing disabled".

``gfortran -fimplicit-none -std=f2008 -fsyntax-only`` (plus -fopenmp / -fopenacc
when the text has directives).  Many texts are put into one file; every text has
is given unique program-unit names (``uniquify``), so module files and global
names cannot collide.  Diagnostics are attributed to texts through line
ranges; one text per distinct diagnostic signature is compiled again ALONE (in the
company of the stub modules only) and must give the same signature, otherwise
every blamed text is compiled alone and only the stand-alone diagnostics are
used.  Because gfortran skips the resolution phase of a file that had parse-time
errors, blamed texts are removed and the batch is repeated until the remaining
file is accepted without any error.
"""
import os
import re
import subprocess

GFORTRAN = "/usr/bin/gfortran"
BASE = ["-fimplicit-none", "-std=f2008", "-fsyntax-only",
        "-ffree-line-length-none", "-fmax-errors=0",
        "-fno-diagnostics-show-caret", "-fdiagnostics-color=never"]

_LOC = re.compile(r"^(.*?):(\d+):(\d+):\s*(.*)$")
_KIND = re.compile(r"^(Fatal Error|Error|Warning|sorry, unimplemented|"
                   r"internal compiler error|note):\s*(.*)$")


class CompilerHarnessError(Exception):
    """gfortran could not be run or its output could not be understood."""


#: what the PSyData profiling wrapper must provide for the calls that
#: ProfileTrans / PSyDataNode generate
STUBS = {
    "profile_psy_data_mod": """
module profile_psy_data_mod
  implicit none
  type :: profile_psydatatype
    integer :: dummy
  contains
    procedure :: prestart
    procedure :: postend
  end type profile_psydatatype
contains
  subroutine prestart(this, module_name, region_name, npre, npost)
    class(profile_psydatatype), intent(inout) :: this
    character(len=*), intent(in) :: module_name
    character(len=*), intent(in) :: region_name
    integer, intent(in) :: npre
    integer, intent(in) :: npost
    this%dummy = npre + npost + len(module_name) + len(region_name)
  end subroutine prestart
  subroutine postend(this)
    class(profile_psydatatype), intent(inout) :: this
    this%dummy = 0
  end subroutine postend
end module profile_psy_data_mod
""",
}


_MAIN = re.compile(r"^(\s*)program\s+(\w+)\s*$", re.I | re.M)
_END_MAIN = re.compile(r"^(\s*)end\s+program\b", re.I | re.M)


def needs_flags(text):
    low = text.lower()
    flags = []
    if "!$omp" in low:
        flags.append("-fopenmp")
    if "!$acc" in low:
        flags.append("-fopenacc")
    return flags


def _run(args, cwd):
    try:
        env = dict(os.environ, TMPDIR=cwd, LC_ALL="C", LANG="C")
        proc = subprocess.run([GFORTRAN] + BASE + args, cwd=cwd, env=env,
                              capture_output=True, text=True, timeout=600,
                              check=False)
    except (OSError, subprocess.TimeoutExpired) as err:
        raise CompilerHarnessError(f"cannot run gfortran: {err}") from err
    return proc.returncode, proc.stderr


def parse_diagnostics(stderr):
    """-> list of (line, kind, message)."""
    out = []
    line_no = None
    for raw in stderr.splitlines():
        if not raw.strip():
            continue
        mat = _LOC.match(raw)
        if mat:
            line_no = int(mat.group(2))
            rest = mat.group(4)
            if not rest:
                continue
            raw = rest
        kind = _KIND.match(raw.strip())
        if kind:
            out.append((line_no, kind.group(1), kind.group(2).strip()))
            continue
        if raw.startswith("f951:") and "internal compiler error" in raw:
            out.append((line_no, "internal compiler error", raw))
    return out


def slug(message):
    """Compiler message -> stable short class name (names, numbers and
    positions removed)."""
    low = message.lower()
    low = re.sub(r";\s*did you mean.*$", "", low)
    low = re.sub(r"at \(\d+\)", "", low)
    low = re.sub(r"['‘’`\"]([^'‘’`\"]*)['‘’`\"]", "X", low)
    low = re.sub(r"\d+", "N", low)
    words = re.findall(r"[a-z$!]+|X|N", low)
    return "-".join(words)[:60].strip("-")


def names_in(message):
    """Quoted names of a diagnostic, lower case."""
    message = re.sub(r";\s*did you mean.*$", "", message)
    return [m.lower() for m in
            re.findall(r"['‘’`\"]([^'‘’`\"]*)['‘’`\"]", message)]


def uniquify(text, names, suffix):
    """Renames global names textually (whole words, case-insensitive; a name
    used as the kind suffix of a literal, `1.0_wp`, is renamed too)."""
    for name in names:
        esc = re.escape(name)
        text = re.sub(rf"(?:(?<![A-Za-z0-9_])|(?<=\d_)){esc}(?![A-Za-z0-9_])",
                      f"{name}{suffix}", text, flags=re.IGNORECASE)
    return text


def _errors(diags):
    return [(ln, msg) for ln, kind, msg in diags
            if kind in ("Error", "Fatal Error", "internal compiler error")]


def compile_alone(text, workdir, tag, stubs=()):
    """-> list of (line in text, message) errors."""
    path = os.path.join(workdir, f"one_{tag}.f90")
    head = "".join(STUBS[s].strip("\n") + "\n" for s in stubs)
    offset = head.count("\n")
    with open(path, "w", encoding="utf-8") as fout:
        fout.write(head + text)
    code, err = _run(needs_flags(text) + [os.path.basename(path)], workdir)
    errs = _errors(parse_diagnostics(err))
    if code != 0 and not errs:
        raise CompilerHarnessError(
            f"gfortran failed (rc={code}) without a recognisable "
            f"diagnostic:\n{err[:2000]}")
    os.remove(path)
    return [((ln - offset) if ln else None, msg) for ln, msg in errs]


def compile_batch(raw_texts, workdir, tag, unit_names=(), stubs=(),
                  sig_of=None):
    """raw_texts: list of sources; the program units / external procedures
    called ``unit_names`` are renamed per text (suffix _u<k>, removed again from
    the diagnostics), so that no text can influence the diagnostics of another
    one.  Returns (list of error lists [(line in text, message)] in the same
    order, number of gfortran runs).

    Identical texts are compiled once.  Diagnostics of the batch run are
    attributed to texts through line ranges.  Before they are trusted, ONE text
    per distinct diagnostic signature (``sig_of(errors) -> set``) is compiled
    again alone; if any stand-alone result differs from what the batch
    attributed to that text, every blamed text of the batch is compiled alone
    and only those results are used.  gfortran does not resolve a file that
    had errors while it was parsed, so the blamed texts are removed and the
    batch is repeated until the remaining file is accepted without any error:
    every text is either blamed (and confirmed) or part of a clean file."""
    if sig_of is None:
        def sig_of(errors):
            return set(slug(m) + ":" + ",".join(names_in(m))
                       for _l, m in errors)
    results = [[] for _ in raw_texts]
    if not raw_texts:
        return results, 0
    first = {}
    uniq = []
    for idx, body in enumerate(raw_texts):
        if body not in first:
            first[body] = len(uniq)
            uniq.append(idx)
    texts = {idx: uniquify(raw_texts[idx], unit_names, f"_u{idx}")
             for idx in uniq}

    def clean(errors):
        return [(ln, re.sub(r"_u\d+\b", "", msg)) for ln, msg in errors]
    flags = sorted(set(f for t in texts.values() for f in needs_flags(t)))
    head = "".join(STUBS[s].strip("\n") + "\n" for s in stubs)
    bad = {}
    confirmed = set()
    alive = list(uniq)
    runs = 0
    while alive:
        # a file may hold one main program only: in the batch file all main
        # programs but the first are compiled as subroutines (the stand-alone
        # confirmation always uses the text as written)
        mains = 0
        path = os.path.join(workdir, f"batch_{tag}.f90")
        ranges = []
        with open(path, "w", encoding="utf-8") as fout:
            fout.write(head)
            lineno = 1 + head.count("\n")
            for idx in alive:
                body = texts[idx]
                if not body.endswith("\n"):
                    body += "\n"
                if _MAIN.search(body):
                    mains += 1
                    if mains > 1:
                        body = _MAIN.sub(r"\1subroutine \2()", body)
                        body = _END_MAIN.sub(r"\1end subroutine", body)
                num = body.count("\n")
                ranges.append((lineno, lineno + num - 1, idx))
                fout.write(body)
                lineno += num
        code, err = _run(flags + [os.path.basename(path)], workdir)
        runs += 1
        os.remove(path)
        errs = _errors(parse_diagnostics(err))
        if code != 0 and not errs:
            raise CompilerHarnessError(
                f"gfortran failed (rc={code}) without a recognisable "
                f"diagnostic:\n{err[:2000]}")
        now = {}
        for lno, msg in errs:
            hit = [(lo, i) for lo, hi, i in ranges
                   if lno is not None and lo <= lno <= hi]
            if not hit:
                raise CompilerHarnessError(
                    f"diagnostic without attributable line:\n{err[:2000]}")
            low, idx = hit[0]
            now.setdefault(idx, []).append((lno - low + 1, msg))
        if not now:
            # the remaining texts were parsed AND resolved without any error
            break
        trusted = True
        for idx in sorted(now):
            now[idx] = clean(now[idx])
        for idx in sorted(now):
            sigs = frozenset(sig_of(now[idx]))
            if sigs <= confirmed:
                # nothing new (or only diagnostics the caller ignores)
                continue
            alone = clean(compile_alone(texts[idx], workdir, f"{tag}_{idx}",
                                        stubs))
            runs += 1
            if frozenset(sig_of(alone)) != sigs:
                trusted = False
                break
            now[idx] = alone
            confirmed |= sigs
        if not trusted:
            for idx in sorted(now):
                now[idx] = clean(compile_alone(texts[idx], workdir,
                                               f"{tag}_{idx}", stubs))
                runs += 1
        bad.update(now)
        # gfortran skips the resolution phase of a file that had errors, so the
        # texts that were not blamed are compiled again without the blamed ones
        alive = [idx for idx in alive if idx not in now]
    for idx, body in enumerate(raw_texts):
        src = uniq[first[body]]
        if src in bad:
            results[idx] = list(bad[src])
    for fname in os.listdir(workdir):
        if fname.endswith(".mod"):
            try:
                os.remove(os.path.join(workdir, fname))
            except OSError:
                pass
    return results, runs
