"""C24 executed oracle: builds the bundled LFRic stub infrastructure out of
tree, compiles generated algorithm + PSy layers against it together with
trivially simple kernel implementations, runs them and reads the reports.
"""
import os
import shutil
import subprocess

from mc import c24_gen as G

GFORTRAN = "/usr/bin/gfortran"
FFLAGS = ["-O0", "-ffree-line-length-none", "-fimplicit-none"]

SUPPORT = """\
module c24_support_mod
  use constants_mod,          only: r_def, i_def
  use global_mesh_base_mod,   only: global_mesh_base_type
  use mesh_mod,               only: mesh_type
  use partition_mod,          only: partition_type, partitioner_planar, partitioner_interface
  use extrusion_mod,          only: uniform_extrusion_type
  use function_space_mod,     only: function_space_type
  use fs_continuity_mod,      only: W3
  use field_mod,              only: field_type, field_proxy_type
  use stencil_dofmap_mod,     only: stencil_dofmap_type, STENCIL_CROSS
  implicit none
  private
  type(global_mesh_base_type), target, save   :: global_mesh
  class(global_mesh_base_type), pointer, save :: global_mesh_ptr
  type(partition_type), save                  :: partition
  type(mesh_type), target, save               :: mesh
  type(uniform_extrusion_type), target, save  :: extrusion
  type(uniform_extrusion_type), pointer, save :: extrusion_ptr
  type(function_space_type), target, save     :: vector_space
  type(function_space_type), pointer, save    :: vector_space_ptr
  logical, save :: ready = .false.
  public :: c24_init, c24_set, c24_report, c24_report_scalar, c24_calibrate
contains
  subroutine c24_setup()
    procedure (partitioner_interface), pointer :: partitioner_ptr
    global_mesh = global_mesh_base_type()
    global_mesh_ptr => global_mesh
    partitioner_ptr => partitioner_planar
    partition = partition_type(global_mesh_ptr, partitioner_ptr, 1, 1, 2, 0, 1)
    extrusion = uniform_extrusion_type(0.0_r_def, 100.0_r_def, NLAYERS)
    extrusion_ptr => extrusion
    mesh = mesh_type(global_mesh_ptr, partition, extrusion_ptr)
    vector_space = function_space_type(mesh, 0, W3, 1)
    vector_space_ptr => vector_space
    ready = .true.
  end subroutine c24_setup
  subroutine c24_init(fld, label)
    type(field_type), intent(inout) :: fld
    character(len=*), intent(in) :: label
    if (.not. ready) call c24_setup()
    call fld%initialise(vector_space=vector_space_ptr, name=label)
  end subroutine c24_init
  subroutine c24_set(fld, val)
    type(field_type), intent(inout) :: fld
    real(r_def), intent(in) :: val
    type(field_proxy_type) :: prox
    prox = fld%get_proxy()
    prox%data(:) = val
  end subroutine c24_set
  subroutine c24_report(idx, label, fld)
    integer, intent(in) :: idx
    character(len=*), intent(in) :: label
    type(field_type), intent(in) :: fld
    type(field_proxy_type) :: prox
    prox = fld%get_proxy()
    write (*, '(A,1X,I0,1X,A,1X,I0,3(1X,ES24.16))') "C24F", idx, label, &
        size(prox%data), minval(prox%data), maxval(prox%data), sum(prox%data)
  end subroutine c24_report
  subroutine c24_report_scalar(idx, label, val)
    integer, intent(in) :: idx
    character(len=*), intent(in) :: label
    real(r_def), intent(in) :: val
    write (*, '(A,1X,I0,1X,A,1X,ES24.16)') "C24S", idx, label, val
  end subroutine c24_report_scalar
  subroutine c24_calibrate()
    type(stencil_dofmap_type), pointer :: map
    integer(i_def), pointer :: sizes(:), dofmap(:,:,:), whole(:,:)
    integer(i_def) :: ext, cell
    if (.not. ready) call c24_setup()
    whole => vector_space_ptr%get_whole_dofmap()
    write (*, '(A,4(1X,I0))') "C24M", vector_space_ptr%get_ncell(), &
        vector_space_ptr%get_nlayers(), vector_space_ptr%get_ndf(), &
        vector_space_ptr%get_undf()
    do ext = 1, 2
      map => vector_space_ptr%get_stencil_dofmap(STENCIL_CROSS, ext)
      sizes => map%get_stencil_sizes()
      dofmap => map%get_whole_dofmap()
      do cell = 1, vector_space_ptr%get_ncell()
        write (*, '(A,5(1X,I0))') "C24Z", ext, cell, sizes(cell), &
            dofmap(1,1,cell), whole(1,cell)
      end do
    end do
  end subroutine c24_calibrate
end module c24_support_mod
""".replace("NLAYERS", str(G.NLAYERS))

CALIBRATE = """\
program c24_calib
  use c24_support_mod, only: c24_calibrate
  implicit none
  call c24_calibrate()
end program c24_calib
"""

# Metadata copied from tests/test_files/dynamo0p3/testkern_mod.F90 and
# testkern_stencil_mod.f90; the bodies are the harness' own (those files have
# empty bodies).  All run-time fields live on one lowest-order W3 space (one
# DoF per cell and layer), so map(1)+k addresses the cell's DoF in layer k for
# every argument whatever function space its metadata names.
KERN_T = """\
module testkern_mod
  use argument_mod
  use fs_continuity_mod
  use kernel_mod
  use constants_mod
  implicit none
  type, extends(kernel_type) :: testkern_type
     type(arg_type), dimension(5) :: meta_args =        &
          (/ arg_type(gh_scalar, gh_real, gh_read),     &
             arg_type(gh_field,  gh_real, gh_inc,  w1), &
             arg_type(gh_field,  gh_real, gh_read, w2), &
             arg_type(gh_field,  gh_real, gh_read, w2), &
             arg_type(gh_field,  gh_real, gh_read, w3)  &
           /)
     integer :: operates_on = cell_column
   contains
     procedure, nopass :: code => testkern_code
  end type testkern_type
contains
  subroutine testkern_code(nlayers, ascalar,        &
                           fld1, fld2, fld3, fld4,  &
                           ndf_w1, undf_w1, map_w1, &
                           ndf_w2, undf_w2, map_w2, &
                           ndf_w3, undf_w3, map_w3)
    implicit none
    integer(kind=i_def), intent(in) :: nlayers
    integer(kind=i_def), intent(in) :: ndf_w1
    integer(kind=i_def), intent(in) :: ndf_w2
    integer(kind=i_def), intent(in) :: ndf_w3
    integer(kind=i_def), intent(in) :: undf_w1, undf_w2, undf_w3
    integer(kind=i_def), intent(in), dimension(ndf_w1) :: map_w1
    integer(kind=i_def), intent(in), dimension(ndf_w2) :: map_w2
    integer(kind=i_def), intent(in), dimension(ndf_w3) :: map_w3
    real(kind=r_def), intent(in) :: ascalar
    real(kind=r_def), intent(inout), dimension(undf_w1) :: fld1
    real(kind=r_def), intent(in), dimension(undf_w2)  :: fld2
    real(kind=r_def), intent(in), dimension(undf_w2)  :: fld3
    real(kind=r_def), intent(in), dimension(undf_w3)  :: fld4
    integer(kind=i_def) :: k
    do k = 0, nlayers-1
      fld1(map_w1(1)+k) = fld1(map_w1(1)+k) + ascalar*fld2(map_w2(1)+k) &
           + 2.0_r_def*fld3(map_w2(1)+k) + 3.0_r_def*fld4(map_w3(1)+k)
    end do
  end subroutine testkern_code
end module testkern_mod
"""

KERN_C = """\
module testkern_stencil_mod
  use argument_mod
  use fs_continuity_mod
  use kernel_mod
  use constants_mod
  implicit none
  type, extends(kernel_type) :: testkern_stencil_type
     type(arg_type), dimension(4) :: meta_args =                       &
          (/ arg_type(gh_field, gh_real, gh_inc,  w1),                 &
             arg_type(gh_field, gh_real, gh_read, w2, stencil(cross)), &
             arg_type(gh_field, gh_real, gh_read, w2),                 &
             arg_type(gh_field, gh_real, gh_read, w3)                  &
           /)
     integer :: operates_on = cell_column
   contains
     procedure, nopass :: code => testkern_stencil_code
  end type testkern_stencil_type
contains
  subroutine testkern_stencil_code(nlayers, fld1,           &
                                   fld2, fld2_st_size,      &
                                   fld2_st_dofmap,          &
                                   fld3, fld4,              &
                                   ndf_w1, undf_w1, map_w1, &
                                   ndf_w2, undf_w2, map_w2, &
                                   ndf_w3, undf_w3, map_w3)
    implicit none
    integer(kind=i_def), intent(in) :: nlayers
    integer(kind=i_def), intent(in) :: ndf_w1
    integer(kind=i_def), intent(in) :: ndf_w2
    integer(kind=i_def), intent(in) :: ndf_w3
    integer(kind=i_def), intent(in) :: undf_w1, undf_w2, undf_w3
    integer(kind=i_def), intent(in) :: fld2_st_size
    integer(kind=i_def), intent(in), dimension(ndf_w1) :: map_w1
    integer(kind=i_def), intent(in), dimension(ndf_w2) :: map_w2
    integer(kind=i_def), intent(in), dimension(ndf_w3) :: map_w3
    integer(kind=i_def), intent(in), dimension(ndf_w2,fld2_st_size) :: fld2_st_dofmap
    real(kind=r_def), intent(inout), dimension(undf_w1) :: fld1
    real(kind=r_def), intent(in), dimension(undf_w2)    :: fld2
    real(kind=r_def), intent(in), dimension(undf_w2)    :: fld3
    real(kind=r_def), intent(in), dimension(undf_w3)    :: fld4
    integer(kind=i_def) :: k
    do k = 0, nlayers-1
      fld1(map_w1(1)+k) = fld1(map_w1(1)+k) &
           + real(fld2_st_size, r_def)*fld2(fld2_st_dofmap(1,1)+k) &
           + 7.0_r_def*fld3(map_w2(1)+k) + 11.0_r_def*fld4(map_w3(1)+k)
    end do
  end subroutine testkern_stencil_code
end module testkern_stencil_mod
"""


class BuildError(Exception):
    """The harness' own Fortran (infrastructure, support, kernels) failed."""


def _run(cmd, cwd, timeout=1800):
    return subprocess.run(cmd, cwd=cwd, stdout=subprocess.PIPE,
                          stderr=subprocess.STDOUT, text=True, timeout=timeout,
                          check=False)


def write_kernels(path):
    """The kernel directory handed to PSyclone (metadata) and compiled."""
    os.makedirs(path, exist_ok=True)
    with open(os.path.join(path, "testkern_mod.F90"), "w", encoding="utf-8") as out:
        out.write(KERN_T)
    with open(os.path.join(path, "testkern_stencil_mod.f90"), "w",
              encoding="utf-8") as out:
        out.write(KERN_C)


def include_flags(infra):
    flags = []
    for name in sorted(os.listdir(infra)):
        full = os.path.join(infra, name)
        if os.path.isdir(full):
            flags += ["-I", full]
    return flags


def build_base(root, repo):
    """Infrastructure library + support module + kernels; returns the
    calibration table {extent: [stencil size per cell]}."""
    infra = os.path.join(root, "infra")
    base = os.path.join(root, "base")
    os.makedirs(infra, exist_ok=True)
    os.makedirs(base, exist_ok=True)
    makefile = os.path.join(repo, "src/psyclone/tests/test_files/dynamo0p3/"
                            "infrastructure/Makefile")
    res = _run(["make", "-j4", "-f", makefile, "F90FLAGS=-O0"], infra)
    if res.returncode or not os.path.exists(os.path.join(infra, "liblfric.a")):
        raise BuildError("LFRic stub infrastructure did not build:\n"
                         + res.stdout[-3000:])
    write_kernels(os.path.join(root, "kern"))
    with open(os.path.join(base, "c24_support_mod.f90"), "w", encoding="utf-8") as out:
        out.write(SUPPORT)
    with open(os.path.join(base, "c24_calib.f90"), "w", encoding="utf-8") as out:
        out.write(CALIBRATE)
    inc = include_flags(infra)
    srcs = ["c24_support_mod.f90", os.path.join(root, "kern", "testkern_mod.F90"),
            os.path.join(root, "kern", "testkern_stencil_mod.f90")]
    res = _run([GFORTRAN] + FFLAGS + inc + ["-c"] + srcs, base)
    if res.returncode:
        raise BuildError("support module / kernels did not compile:\n"
                         + res.stdout[-3000:])
    res = _run([GFORTRAN] + FFLAGS + inc + ["-o", "calib.x", "c24_calib.f90",
                                             "c24_support_mod.o",
                                             "-L" + infra, "-llfric"], base)
    if res.returncode:
        raise BuildError("calibration program did not build:\n" + res.stdout[-3000:])
    res = _run([os.path.join(base, "calib.x")], base, timeout=120)
    if res.returncode:
        raise BuildError("calibration program failed:\n" + res.stdout[-3000:])
    sizes = {1: {}, 2: {}}
    mesh = None
    for line in res.stdout.splitlines():
        tok = line.split()
        if tok[:1] == ["C24M"]:
            mesh = [int(t) for t in tok[1:]]
        elif tok[:1] == ["C24Z"]:
            ext, cell, size, first, own = (int(t) for t in tok[1:])
            if first != own:
                raise BuildError("stencil entry 1 is not the cell itself")
            sizes[ext][cell] = size
    if mesh != [G.NCELLS, G.NLAYERS, 1, G.NCELLS * G.NLAYERS]:
        raise BuildError(f"unexpected mesh {mesh}")
    table = {ext: [sizes[ext][c] for c in range(1, G.NCELLS + 1)] for ext in (1, 2)}
    return table


def compile_and_run(root, work, alg_text, psy_text, psy_from=None):
    """Returns ("ok", stdout) | ("compile-psy"|"compile-alg"|"link"|"run", log).
    psy_from = directory of an earlier build of the identical PSy text (its
    object and module files are copied instead of compiling again)."""
    infra = os.path.join(root, "infra")
    base = os.path.join(root, "base")
    inc = include_flags(infra) + ["-I", base]
    os.makedirs(work, exist_ok=True)
    with open(os.path.join(work, "psy.f90"), "w", encoding="utf-8") as out:
        out.write(psy_text)
    with open(os.path.join(work, "alg.f90"), "w", encoding="utf-8") as out:
        out.write(alg_text)
    if psy_from is not None:
        for name in os.listdir(psy_from):
            if name == "psy.o" or name.endswith("_psy.mod"):
                shutil.copy(os.path.join(psy_from, name), os.path.join(work, name))
    else:
        res = _run([GFORTRAN] + FFLAGS + inc + ["-c", "psy.f90"], work)
        if res.returncode:
            return "compile-psy", res.stdout[-2500:]
    res = _run([GFORTRAN] + FFLAGS + inc + ["-c", "alg.f90"], work)
    if res.returncode:
        return "compile-alg", res.stdout[-2500:]
    objs = ["alg.o", "psy.o"]
    objs += [os.path.join(base, o) for o in ("c24_support_mod.o", "testkern_mod.o",
                                             "testkern_stencil_mod.o")]
    res = _run([GFORTRAN, "-o", "run.x"] + objs + ["-L" + infra, "-llfric"], work)
    if res.returncode:
        return "link", res.stdout[-2500:]
    res = _run([os.path.join(work, "run.x")], work, timeout=300)
    if res.returncode:
        return "run", res.stdout[-2500:]
    return "ok", res.stdout


def parse_report(stdout):
    """{invoke idx: ({field label: (n, min, max, sum)}, {scalar: value})}"""
    out = {}
    for line in stdout.splitlines():
        tok = line.split()
        if tok[:1] == ["C24F"]:
            flds, _ = out.setdefault(int(tok[1]), ({}, {}))
            flds[tok[2]] = (int(tok[3]), float(tok[4]), float(tok[5]), float(tok[6]))
        elif tok[:1] == ["C24S"]:
            _, scal = out.setdefault(int(tok[1]), ({}, {}))
            scal[tok[2]] = float(tok[3])
    return out


def compare(inv, observed, sizes):
    """[(what, expected, observed)] differences between the executed invoke
    and the reference semantics; None when the reference overflowed."""
    try:
        fields, scal = G.reference_run(inv, sizes)
    except G.Overflow:
        return None
    diffs = []
    oflds, oscal = observed
    for ent in G.FIELD_ORDER:
        vals = fields[ent]
        exp = (G.NCELLS * G.NLAYERS, float(min(vals)), float(max(vals)),
               float(G.NLAYERS * sum(vals)))
        got = oflds.get(ent)
        if got != exp:
            diffs.append((ent, exp, got))
    for var in G.SCALAR_VARS:
        exp = float(scal[var])
        got = oscal.get(var)
        if got != exp:
            diffs.append((var, exp, got))
    return diffs


def cleanup(path):
    shutil.rmtree(path, ignore_errors=True)
