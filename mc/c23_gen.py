"""C23 generators: LFRic kernel metadata modules, algorithm files and the
check's OWN table of which generated kernel needs colouring.

Nothing here imports PSyclone.  The continuity table is a transcription of
the table "Function Space Continuity" in doc/user_guide/dynamo0p3.rst (LFRic
API, section "Supported Function Spaces") and NOT of LFRicConstants.
"""
import os

# --- transcription of the user-guide table ---------------------------------
CONTINUOUS = ["w0", "w1", "w2", "w2h", "w2trace", "w2htrace", "any_w2",
              "any_space_1"]
DISCONTINUOUS = ["w2broken", "w2v", "w2vtrace", "w3", "wtheta",
                 "any_discontinuous_space_1"]
ACCESSES = ["gh_inc", "gh_readinc", "gh_write", "gh_readwrite"]
SHORT = {"gh_inc": "inc", "gh_readinc": "rinc", "gh_write": "wr",
         "gh_readwrite": "rw"}

# spaces used by the tiers (the thorough list contains the quick list)
SPACES = {
    "quick": ["w1", "w3", "any_space_1", "any_discontinuous_space_1"],
    "thorough": ["w0", "w1", "w2", "w2h", "w2v", "w3", "wtheta", "any_w2",
                 "any_space_1", "any_discontinuous_space_1"],
}
# single-kernel invokes always use every space of the thorough list
SINGLE_SPACES = SPACES["thorough"]
READ_SPACE = "w3"


def space_tag(space):
    return {"any_space_1": "as1", "any_discontinuous_space_1": "ads1",
            "any_w2": "aw2"}.get(space, space)


def kern_tag(access, space):
    return f"{SHORT[access]}_{space_tag(space)}"


def kern_name(tag):
    return f"c23_{tag}"


def needs_colouring(access, space):
    """The check's own reading of the property text: the kernel 'increments
    a field on a continuous or unknown function space (increment or
    read-then-increment access)'."""
    return access in ("gh_inc", "gh_readinc") and space in CONTINUOUS


def decode_tag(tag):
    """tag -> (access, space)."""
    for acc in ACCESSES:
        for spc in CONTINUOUS + DISCONTINUOUS:
            if kern_tag(acc, spc) == tag:
                return acc, spc
    raise ValueError(f"unknown kernel tag {tag}")


def all_kernels(spaces):
    return [(acc, spc) for spc in spaces for acc in ACCESSES]


def _space_args(space):
    return [f"ndf_{space}", f"undf_{space}", f"map_{space}"]


def kernel_source(access, space, read_space=READ_SPACE):
    """Text of a kernel module: one written field (access, space) and one
    read-only field on read_space."""
    tag = kern_tag(access, space)
    name = kern_name(tag)
    spaces = [space] if space == read_space else [space, read_space]
    dummy = ["nlayers", "fld1", "fld2"]
    decls = ["    integer(kind=i_def), intent(in) :: nlayers"]
    for spc in spaces:
        dummy += _space_args(spc)
        decls += [
            f"    integer(kind=i_def), intent(in) :: ndf_{spc}",
            f"    integer(kind=i_def), intent(in) :: undf_{spc}",
            f"    integer(kind=i_def), intent(in), dimension(ndf_{spc}) :: "
            f"map_{spc}"]
    decls += [
        f"    real(kind=r_def), intent(inout), dimension(undf_{space}) :: fld1",
        f"    real(kind=r_def), intent(in), dimension(undf_{read_space}) :: "
        f"fld2"]
    arglist = ", &\n       ".join(
        ", ".join(dummy[i:i + 4]) for i in range(0, len(dummy), 4))
    return "\n".join([
        f"module {name}_mod",
        "  use argument_mod",
        "  use fs_continuity_mod",
        "  use kernel_mod",
        "  use constants_mod",
        "  implicit none",
        f"  type, extends(kernel_type) :: {name}_type",
        "     type(arg_type), dimension(2) :: meta_args = (/ &",
        f"          arg_type(gh_field, gh_real, {access}, {space}), &",
        f"          arg_type(gh_field, gh_real, gh_read, {read_space}) /)",
        "     integer :: operates_on = cell_column",
        "   contains",
        f"     procedure, nopass :: code => {name}_code",
        f"  end type {name}_type",
        "contains",
        f"  subroutine {name}_code({arglist})",
        "    implicit none",
        *decls,
        f"  end subroutine {name}_code",
        f"end module {name}_mod", ""])


def algorithm_source(tags, sharing="shared"):
    """Algorithm program with one invoke of the listed kernels.  Written
    fields are distinct (w1, w2, ...); the read-only argument is the same
    field r1 for all kernels ('shared') or one per kernel ('indep')."""
    uses, calls, fields = [], [], []
    for idx, tag in enumerate(tags, 1):
        name = kern_name(tag)
        line = f"  use {name}_mod, only: {name}_type"
        if line not in uses:
            uses.append(line)
        rdf = "r1" if sharing == "shared" else f"r{idx}"
        calls.append(f"{name}_type(w{idx}, {rdf})")
        for fld in (f"w{idx}", rdf):
            if fld not in fields:
                fields.append(fld)
    return "\n".join([
        "program c23_alg",
        "  use constants_mod, only: r_def",
        "  use field_mod, only: field_type",
        *uses,
        "  implicit none",
        f"  type(field_type) :: {', '.join(fields)}",
        "  call invoke( &",
        ", &\n".join("       " + c for c in calls) + " )",
        "end program c23_alg", ""])


def write_kernels(directory, kernels):
    os.makedirs(directory, exist_ok=True)
    for acc, spc in kernels:
        path = os.path.join(directory,
                            f"{kern_name(kern_tag(acc, spc))}_mod.f90")
        with open(path, "w", encoding="utf-8") as fout:
            fout.write(kernel_source(acc, spc))
