"""C28 machinery: apply the real PSyData transformations to a mini-AST
program, write the result with FortranWriter, execute it (gfortran + the
checking stub library of mc/c28_stub, and the E1 interpreter on the
transformed tree) and judge the ENTER/EXIT traces."""
import os
import re
import shutil
import subprocess

from mc import c28_progs as P

STUB_DIR = os.path.join(os.path.dirname(os.path.abspath(__file__)), "c28_stub")
STUB_SOURCES = ["c28_psy_data_base_mod.f90", "profile_psy_data_mod.f90",
                "extract_psy_data_mod.f90", "nan_test_psy_data_mod.f90",
                "read_only_verify_psy_data_mod.f90"]
GFORTRAN = "/usr/bin/gfortran"
FFLAGS = ["-O0", "-fimplicit-none", "-ffree-line-length-none"]

TRANS = ["ProfileTrans", "ExtractTrans", "NanTestTrans", "ReadOnlyVerifyTrans"]
# explicit region names (cannot collide with the default '<routine>', 'r<i>')
EXPLICIT = {"A": ("c28mod", "alpha"), "B": ("c28mod", "beta")}


class HarnessError(Exception):
    pass


# ---------------------------------------------------------------------------
# the stub library
# ---------------------------------------------------------------------------
def build_stub(libdir):
    """Compile the stub library once into libdir (objects + .mod files)."""
    os.makedirs(libdir, exist_ok=True)
    srcs = [os.path.join(STUB_DIR, s) for s in STUB_SOURCES]
    proc = subprocess.run([GFORTRAN, "-O0", "-c"] + srcs, cwd=libdir,
                          capture_output=True, text=True, timeout=600)
    if proc.returncode != 0:
        raise HarnessError("stub library does not compile:\n" + proc.stderr[:3000])
    return libdir


def stub_objects(libdir):
    return [os.path.join(libdir, s.replace(".f90", ".o")) for s in STUB_SOURCES]


# ---------------------------------------------------------------------------
# PSyclone side
# ---------------------------------------------------------------------------
def parse(prog, name):
    from psyclone.psyir.frontend.fortran import FortranReader
    from psyclone.psyir import nodes as N
    tree = FortranReader().psyir_from_source(P.fortran(prog, name))
    routine = tree.walk(N.Routine)[0]
    _check_shape(prog, routine)
    return tree, routine


def _check_shape(seq, sched):
    """The PSyIR must mirror the mini-AST (harness self-check)."""
    from psyclone.psyir import nodes as N
    want = {"A": N.Assignment, "Z": N.Assignment, "L": N.Loop, "I": N.IfBlock,
            "R": N.Return, "X": N.CodeBlock, "Y": N.CodeBlock, "G": N.CodeBlock,
            "T": N.CodeBlock, "W": N.WhileLoop, "B": N.WhileLoop,
            "K": N.Assignment, "Q": N.IfBlock}
    kids = sched.children
    if len(kids) != len(seq):
        raise HarnessError(f"PSyIR shape differs from the mini-AST: {P.key(seq)} "
                           f"vs {[type(k).__name__ for k in kids]}")
    for st, kid in zip(seq, kids):
        if type(kid) is not want[st[0]]:  # pylint: disable=unidiomatic-typecheck
            raise HarnessError(f"PSyIR node {type(kid).__name__} for '{st[0]}'")
        if st[0] in ("L", "W", "B"):
            _check_shape(st[1], kid.loop_body)
        elif st[0] == "Q":
            _check_shape(st[1], kid.if_body)
            if kid.else_body is not None:
                raise HarnessError("unexpected else body")
        elif st[0] == "I":
            _check_shape(st[1], kid.if_body)
            if st[2]:
                _check_shape(st[2], kid.else_body)
            elif kid.else_body is not None:
                raise HarnessError("unexpected else body")


def schedule_at(routine, path):
    sched = routine
    for pos, slot in path:
        node = sched.children[pos]
        from psyclone.psyir import nodes as N
        if isinstance(node, (N.Loop, N.WhileLoop)):
            sched = node.loop_body
        else:
            sched = node.if_body if slot == 1 else node.else_body
    return sched


def make_trans(tname):
    from psyclone.psyir import transformations as T
    return getattr(T, tname)()


def instrument(prog, name, regions):
    """regions: list of dicts {t: transformation name, r: range, nm: None|'A'|'B'}
    applied in order to a fresh parse.  Returns (status, info):
    ('ok', {'text': FortranWriter output, 'tree': the transformed (not
    lowered) tree, 'npsy': number of PSyData nodes}) or ('refused'|'error',
    text)."""
    from psyclone.psyir.transformations import TransformationError
    from psyclone.psyir.backend.fortran import FortranWriter
    from psyclone.psyir.backend.visitor import VisitorError
    from psyclone.errors import GenerationError, InternalError
    from psyclone.psyir import nodes as N
    tree, routine = parse(prog, name)
    # resolve every range to ORIGINAL node objects before anything is changed
    resolved = []
    for reg in regions:
        path, start, stop = reg["r"]
        sched = schedule_at(routine, path)
        resolved.append((sched, sched.children[start:stop]))
    for num, (reg, (sched, nodes)) in enumerate(zip(regions, resolved)):
        if num > 0:
            nodes = _current_nodes(sched, nodes)
        opts = {}
        if reg.get("nm"):
            opts["region_name"] = EXPLICIT[reg["nm"]]
        try:
            make_trans(reg["t"]).apply(nodes, opts)
        except TransformationError as err:
            return "refused", f"region{num}:{_short(err)}"
        except (GenerationError, InternalError, NotImplementedError) as err:
            return "error", f"region{num}:{type(err).__name__}:{_short(err)}"
    try:
        text = FortranWriter()(tree)
    except (VisitorError, GenerationError, InternalError,
            NotImplementedError) as err:
        return "error", f"writer:{type(err).__name__}:{_short(err)}"
    npsy = len(tree.walk(N.PSyDataNode))
    return "ok", {"text": text, "tree": tree, "npsy": npsy}


def _current_nodes(sched, nodes):
    """Node list for a later transformation: an original node that an earlier
    region wrapped is replaced by that region's PSyDataNode when the whole
    earlier region lies inside the requested range; otherwise the original
    nodes are passed unchanged (an overlapping attempt PSyclone must refuse)."""
    from psyclone.psyir import nodes as N
    ids = {id(n) for n in nodes}
    out = []
    for node in nodes:
        if node.parent is sched:
            cur = node
        else:
            wrap = node.parent.parent if node.parent is not None else None
            if isinstance(wrap, N.PSyDataNode) and wrap.parent is sched and \
                    all(id(ch) in ids for ch in wrap.psy_data_body.children):
                cur = wrap
            else:
                return list(nodes)
        if not any(cur is one for one in out):
            out.append(cur)
    return out


def _short(err):
    text = str(getattr(err, "value", err))
    text = re.sub(r"\s+", " ", text)
    return text[:160]


PRESTART = re.compile(r'%\s*PreStart\s*\(\s*"([^"]*)"\s*,\s*"([^"]*)"', re.I)


def static_regions(text):
    """(module, region) of every PreStart call site in the written source."""
    return [(m.group(1), m.group(2)) for m in PRESTART.finditer(text)]


# ---------------------------------------------------------------------------
# the oracle
# ---------------------------------------------------------------------------
def judge_trace(trace):
    """trace: list of ('ENTER'|'EXIT', module, region).  Returns None if the
    trace is a well-nested sequence of matching pairs that is empty at the
    end, else (failure class, offending (module, region), explanation)."""
    stack = []
    for pos, (what, mod, reg) in enumerate(trace):
        if what == "ENTER":
            stack.append((mod, reg))
        else:
            if not stack:
                return ("end-without-start", (mod, reg),
                        f"event {pos}: EXIT {mod} {reg} while no region is open")
            if stack[-1] != (mod, reg):
                top = stack[-1]
                # the region on top was left without its end hook (or this
                # one was never started): blame the one that is not closed
                # properly: if (mod, reg) is open further down, the top one
                # was abandoned.
                if (mod, reg) in stack:
                    return ("not-closed", top,
                            f"event {pos}: EXIT {mod} {reg} while the innermost "
                            f"open region is {top[0]} {top[1]}")
                return ("end-without-start", (mod, reg),
                        f"event {pos}: EXIT {mod} {reg} but that region is not "
                        f"open (open: {stack})")
            stack.pop()
    if stack:
        return ("not-closed", stack[-1],
                f"at the end of the run region(s) {stack} are still open")
    return None


def judge_names(regs, requested):
    """regs: static (module, region) per PreStart call site; requested: the
    explicit names the user asked for (list, one entry per region, None =
    default).  Two call sites may share a name only if the user passed that
    very name explicitly for (at least) two regions."""
    seen = {}
    for name in regs:
        seen[name] = seen.get(name, 0) + 1
    for name, cnt in sorted(seen.items()):
        if cnt > 1:
            asked = sum(1 for r in requested if r is not None and tuple(r) == name)
            if asked < cnt:
                return name, cnt, asked
    return None


def show_trace(trace):
    return " ".join(f"{'+' if w == 'ENTER' else '-'}{m}:{r}" for w, m, r in trace)


# ---------------------------------------------------------------------------
# gfortran batch
# ---------------------------------------------------------------------------
def driver_source(names):
    lines = ["program c28_main",
             "  implicit none",
             f"  integer :: c({P.QMAX},{P.NMAX},{P.NMAX})",
             f"  integer :: a({P.AMAX})",
             f"  integer :: kk({P.KMAX})",
             "  integer :: rid, n, nb, k, ios",
             "  integer :: idx(3, 64)",
             "  do",
             "    read(*, *, iostat=ios) rid, n, nb, (idx(1,k), idx(2,k), idx(3,k), k=1,nb)",
             "    if (ios /= 0) exit",
             "    c = 0",
             "    a = 0",
             "    kk = 0",
             "    do k = 1, nb",
             "      c(idx(1,k), idx(2,k), idx(3,k)) = 1",
             "    end do",
             "    write(*, '(A,I0)') 'RUN ', rid",
             "    select case (rid)"]
    for num, name in enumerate(names):
        lines.append(f"    case ({num})")
        lines.append(f"      call {name}(n, c, a, kk)")
    lines += ["    end select",
              f"    write(*, '(A,{P.AMAX}(1X,I0))') 'RES', a",
              "  end do",
              "  write(*, '(A)') 'DONE'",
              "end program c28_main"]
    return "\n".join(lines) + "\n"


def compile_batch(workdir, libdir, tag, routines):
    """routines: list of (name, source).  Returns (exe or None, stderr)."""
    src = os.path.join(workdir, f"{tag}.f90")
    exe = os.path.join(workdir, f"{tag}.x")
    with open(src, "w", encoding="utf-8") as fout:
        for _name, text in routines:
            fout.write(text)
            fout.write("\n")
        fout.write(driver_source([n for n, _ in routines]))
    proc = subprocess.run([GFORTRAN] + FFLAGS + ["-I", libdir, "-J", workdir,
                                                 src] + stub_objects(libdir)
                          + ["-o", exe], cwd=workdir, capture_output=True,
                          text=True, timeout=900)
    if proc.returncode != 0:
        return None, proc.stderr
    return exe, ""


def syntax_ok(workdir, libdir, tag, name, text):
    src = os.path.join(workdir, f"{tag}_{name}.f90")
    with open(src, "w", encoding="utf-8") as fout:
        fout.write(text)
    proc = subprocess.run([GFORTRAN] + FFLAGS + ["-fsyntax-only", "-I", libdir,
                                                 "-J", workdir, src],
                          cwd=workdir, capture_output=True, text=True,
                          timeout=300)
    os.remove(src)
    return proc.returncode == 0, proc.stderr


def run_batch(exe, workdir, jobs):
    """jobs: list of (routine number, input dict).  Returns one
    (trace, a-values) per job, in order."""
    lines = []
    for rid, inp in jobs:
        bits = inp["bits"]
        flat = " ".join(f"{q} {i} {j}" for q, i, j in bits)
        lines.append(f"{rid} {inp['n']} {len(bits)} {flat}".rstrip())
    proc = subprocess.run([exe], input="\n".join(lines) + "\n", cwd=workdir,
                          capture_output=True, text=True, timeout=600)
    out = proc.stdout.splitlines()
    if proc.returncode != 0 or not out or out[-1] != "DONE":
        raise HarnessError(f"batch executable failed (rc={proc.returncode}): "
                           f"{proc.stderr[:1500]} ... last output {out[-3:]}")
    results = []
    cur = None
    for line in out[:-1]:
        if line.startswith("RUN "):
            cur = {"rid": int(line[4:]), "trace": [], "a": None}
            results.append(cur)
        elif cur is None:
            raise HarnessError(f"output line '{line}' before the first RUN")
        elif line.startswith("RES"):
            cur["a"] = [int(x) for x in line.split()[1:]]
        elif line.startswith("ENTER ") or line.startswith("EXIT "):
            what, mod, reg = line.split()
            cur["trace"].append((what, mod, reg))
        else:
            raise HarnessError(f"unexpected output line '{line}'")
    if len(results) != len(jobs) or \
            any(r["rid"] != j[0] or r["a"] is None for r, j in zip(results, jobs)):
        raise HarnessError("batch output does not match the submitted runs")
    return [(r["trace"], r["a"]) for r in results]


# ---------------------------------------------------------------------------
# E1 on the transformed tree
# ---------------------------------------------------------------------------
class _PsyHooks:
    """PSyDataNode semantics for E1, mirroring the stub library: PreStart
    prints ENTER, the body runs, PostEnd prints EXIT -- unless control leaves
    the body by EXIT/CYCLE/RETURN, in which case the calls after the body are
    never reached.  The names are those of the PreStart call sites of the
    written source, in pre-order (the order FortranWriter emits them)."""

    def __init__(self, tree, regs):
        from psyclone.psyir import nodes as N
        nodes = tree.walk(N.PSyDataNode)
        if len(nodes) != len(regs):
            raise HarnessError("PSyData nodes vs PreStart call sites")
        self.names = {id(node): name for node, name in zip(nodes, regs)}
        self.trace = []

    def psydata(self, interp, node, frame):
        mod, reg = self.names[id(node)]
        self.trace.append(("ENTER", mod, reg))
        interp.exec_schedule(node.psy_data_body, frame)
        self.trace.append(("EXIT", mod, reg))
        return True


def e1_run(tree, name, inp, regs):
    """Trace and a-values of one run of the transformed tree under E1."""
    from mc.fortsem import interp as I
    hooks = _PsyHooks(tree, regs)
    cvals = [0] * (P.QMAX * P.NMAX * P.NMAX)
    for q, i, j in inp["bits"]:
        cvals[(q - 1) + P.QMAX * ((i - 1) + P.NMAX * (j - 1))] = 1
    args = [I.make_scalar("n", "int", inp["n"]),
            I.make_array("c", "int", [(1, P.QMAX), (1, P.NMAX), (1, P.NMAX)], cvals),
            I.make_array("a", "int", [(1, P.AMAX)], [0] * P.AMAX),
            I.make_array("k", "int", [(1, P.KMAX)], [0] * P.KMAX)]
    itp = I.Interp(tree, hooks=hooks, horizon=20000)
    itp.run(name, args)
    return hooks.trace, [cell.v for cell in args[2].cells]


def cleanup(path):
    shutil.rmtree(path, ignore_errors=True)
