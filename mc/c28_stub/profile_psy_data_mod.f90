! Checking PSyData stub for property C28: the "profile" wrapper (see
! c28_psy_data_base_mod.f90 for what the hooks do).
module profile_psy_data_mod
  use c28_psy_data_base_mod, only : c28_PSyDataBaseType
  implicit none
  private
  type, extends(c28_PSyDataBaseType), public :: profile_PSyDataType
  end type profile_PSyDataType
end module profile_psy_data_mod
