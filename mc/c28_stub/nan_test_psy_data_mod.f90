! Checking PSyData stub for property C28: the "nan_test" wrapper (see
! c28_psy_data_base_mod.f90 for what the hooks do).
module nan_test_psy_data_mod
  use c28_psy_data_base_mod, only : c28_PSyDataBaseType
  implicit none
  private
  type, extends(c28_PSyDataBaseType), public :: nan_test_PSyDataType
  end type nan_test_PSyDataType
end module nan_test_psy_data_mod
