! Checking PSyData stub for property C28 (written for /verif, not part of PSyclone).
!
! Every PSyData prefix used by the check gets a module <prefix>_psy_data_mod with a
! type <prefix>_PSyDataType that extends c28_PSyDataBaseType below.  The interface
! follows /repo/lib/psy_data_base.jinja (PreStart, PreDeclareVariable,
! PreEndDeclaration, ProvideVariable, PreEnd, PostStart, PostEnd; the generic
! PreDeclareVariable / ProvideVariable cover integer, real, double precision and
! logical scalars, integer arrays of rank 1-3 and real / double precision arrays of
! rank 1).  The library does nothing but print the call order on standard output:
!
!   ENTER <module> <region>      from PreStart (the names passed by the caller)
!   EXIT <module> <region>       from PostEnd  (the names remembered by the handle;
!                                 "?" "?" if the handle never saw a PreStart)
!
! With c28_verbose = .true. the other hooks print NVARS/DECL/ENDDECL/PROV/PREEND/
! POSTSTART lines as well (debugging aid, never used by the oracle).
module c28_psy_data_base_mod
  implicit none
  private

  logical, public :: c28_verbose = .false.

  type, public :: c28_PSyDataBaseType
    character(len=64) :: module_name = "?"
    character(len=64) :: region_name = "?"
  contains
    procedure :: PreStart
    procedure :: PreEndDeclaration
    procedure :: PreEnd
    procedure :: PostStart
    procedure :: PostEnd
    procedure :: DeclareScalarInt
    procedure :: DeclareScalarReal
    procedure :: DeclareScalarDouble
    procedure :: DeclareScalarLogical
    procedure :: DeclareArray1dInt
    procedure :: DeclareArray2dInt
    procedure :: DeclareArray3dInt
    procedure :: DeclareArray1dReal
    procedure :: DeclareArray1dDouble
    procedure :: ProvideScalarInt
    procedure :: ProvideScalarReal
    procedure :: ProvideScalarDouble
    procedure :: ProvideScalarLogical
    procedure :: ProvideArray1dInt
    procedure :: ProvideArray2dInt
    procedure :: ProvideArray3dInt
    procedure :: ProvideArray1dReal
    procedure :: ProvideArray1dDouble
    generic, public :: PreDeclareVariable => &
        DeclareScalarInt, DeclareScalarReal, DeclareScalarDouble, &
        DeclareScalarLogical, DeclareArray1dInt, DeclareArray2dInt, &
        DeclareArray3dInt, DeclareArray1dReal, DeclareArray1dDouble
    generic, public :: ProvideVariable => &
        ProvideScalarInt, ProvideScalarReal, ProvideScalarDouble, &
        ProvideScalarLogical, ProvideArray1dInt, ProvideArray2dInt, &
        ProvideArray3dInt, ProvideArray1dReal, ProvideArray1dDouble
  end type c28_PSyDataBaseType

contains

  subroutine PreStart(this, module_name, region_name, num_pre_vars, num_post_vars)
    class(c28_PSyDataBaseType), intent(inout), target :: this
    character(*), intent(in) :: module_name, region_name
    integer, intent(in) :: num_pre_vars, num_post_vars
    this%module_name = module_name
    this%region_name = region_name
    write(*, '(4A)') "ENTER ", trim(module_name), " ", trim(region_name)
    if (c28_verbose) write(*, '(A,I0,1X,I0)') "NVARS ", num_pre_vars, num_post_vars
  end subroutine PreStart

  subroutine PreEndDeclaration(this)
    class(c28_PSyDataBaseType), intent(inout), target :: this
    if (c28_verbose) write(*, '(2A)') "ENDDECL ", trim(this%region_name)
  end subroutine PreEndDeclaration

  subroutine PreEnd(this)
    class(c28_PSyDataBaseType), intent(inout), target :: this
    if (c28_verbose) write(*, '(2A)') "PREEND ", trim(this%region_name)
  end subroutine PreEnd

  subroutine PostStart(this)
    class(c28_PSyDataBaseType), intent(inout), target :: this
    if (c28_verbose) write(*, '(2A)') "POSTSTART ", trim(this%region_name)
  end subroutine PostStart

  subroutine PostEnd(this)
    class(c28_PSyDataBaseType), intent(inout), target :: this
    write(*, '(4A)') "EXIT ", trim(this%module_name), " ", trim(this%region_name)
  end subroutine PostEnd

  subroutine note(this, what, name)
    class(c28_PSyDataBaseType), intent(in) :: this
    character(*), intent(in) :: what, name
    if (c28_verbose) write(*, '(5A)') what, " ", trim(this%region_name), " ", trim(name)
  end subroutine note

  subroutine DeclareScalarInt(this, name, value)
    class(c28_PSyDataBaseType), intent(inout), target :: this
    character(*), intent(in) :: name
    integer, intent(in) :: value
    call note(this, "DECL", name)
  end subroutine DeclareScalarInt

  subroutine DeclareScalarReal(this, name, value)
    class(c28_PSyDataBaseType), intent(inout), target :: this
    character(*), intent(in) :: name
    real, intent(in) :: value
    call note(this, "DECL", name)
  end subroutine DeclareScalarReal

  subroutine DeclareScalarDouble(this, name, value)
    class(c28_PSyDataBaseType), intent(inout), target :: this
    character(*), intent(in) :: name
    double precision, intent(in) :: value
    call note(this, "DECL", name)
  end subroutine DeclareScalarDouble

  subroutine DeclareScalarLogical(this, name, value)
    class(c28_PSyDataBaseType), intent(inout), target :: this
    character(*), intent(in) :: name
    logical, intent(in) :: value
    call note(this, "DECL", name)
  end subroutine DeclareScalarLogical

  subroutine DeclareArray1dInt(this, name, value)
    class(c28_PSyDataBaseType), intent(inout), target :: this
    character(*), intent(in) :: name
    integer, dimension(:), intent(in) :: value
    call note(this, "DECL", name)
  end subroutine DeclareArray1dInt

  subroutine DeclareArray2dInt(this, name, value)
    class(c28_PSyDataBaseType), intent(inout), target :: this
    character(*), intent(in) :: name
    integer, dimension(:,:), intent(in) :: value
    call note(this, "DECL", name)
  end subroutine DeclareArray2dInt

  subroutine DeclareArray3dInt(this, name, value)
    class(c28_PSyDataBaseType), intent(inout), target :: this
    character(*), intent(in) :: name
    integer, dimension(:,:,:), intent(in) :: value
    call note(this, "DECL", name)
  end subroutine DeclareArray3dInt

  subroutine DeclareArray1dReal(this, name, value)
    class(c28_PSyDataBaseType), intent(inout), target :: this
    character(*), intent(in) :: name
    real, dimension(:), intent(in) :: value
    call note(this, "DECL", name)
  end subroutine DeclareArray1dReal

  subroutine DeclareArray1dDouble(this, name, value)
    class(c28_PSyDataBaseType), intent(inout), target :: this
    character(*), intent(in) :: name
    double precision, dimension(:), intent(in) :: value
    call note(this, "DECL", name)
  end subroutine DeclareArray1dDouble

  subroutine ProvideScalarInt(this, name, value)
    class(c28_PSyDataBaseType), intent(inout), target :: this
    character(*), intent(in) :: name
    integer, intent(in) :: value
    call note(this, "PROV", name)
  end subroutine ProvideScalarInt

  subroutine ProvideScalarReal(this, name, value)
    class(c28_PSyDataBaseType), intent(inout), target :: this
    character(*), intent(in) :: name
    real, intent(in) :: value
    call note(this, "PROV", name)
  end subroutine ProvideScalarReal

  subroutine ProvideScalarDouble(this, name, value)
    class(c28_PSyDataBaseType), intent(inout), target :: this
    character(*), intent(in) :: name
    double precision, intent(in) :: value
    call note(this, "PROV", name)
  end subroutine ProvideScalarDouble

  subroutine ProvideScalarLogical(this, name, value)
    class(c28_PSyDataBaseType), intent(inout), target :: this
    character(*), intent(in) :: name
    logical, intent(in) :: value
    call note(this, "PROV", name)
  end subroutine ProvideScalarLogical

  subroutine ProvideArray1dInt(this, name, value)
    class(c28_PSyDataBaseType), intent(inout), target :: this
    character(*), intent(in) :: name
    integer, dimension(:), intent(in) :: value
    call note(this, "PROV", name)
  end subroutine ProvideArray1dInt

  subroutine ProvideArray2dInt(this, name, value)
    class(c28_PSyDataBaseType), intent(inout), target :: this
    character(*), intent(in) :: name
    integer, dimension(:,:), intent(in) :: value
    call note(this, "PROV", name)
  end subroutine ProvideArray2dInt

  subroutine ProvideArray3dInt(this, name, value)
    class(c28_PSyDataBaseType), intent(inout), target :: this
    character(*), intent(in) :: name
    integer, dimension(:,:,:), intent(in) :: value
    call note(this, "PROV", name)
  end subroutine ProvideArray3dInt

  subroutine ProvideArray1dReal(this, name, value)
    class(c28_PSyDataBaseType), intent(inout), target :: this
    character(*), intent(in) :: name
    real, dimension(:), intent(in) :: value
    call note(this, "PROV", name)
  end subroutine ProvideArray1dReal

  subroutine ProvideArray1dDouble(this, name, value)
    class(c28_PSyDataBaseType), intent(inout), target :: this
    character(*), intent(in) :: name
    double precision, dimension(:), intent(in) :: value
    call note(this, "PROV", name)
  end subroutine ProvideArray1dDouble

end module c28_psy_data_base_mod
