! Checking PSyData stub for property C28 (written for /verif, not part of PSyclone).
!
! Every PSyData prefix used by the check gets a module <prefix>_psy_data_mod with a
! type <prefix>_PSyDataType that extends c28_PSyDataBaseType below.  The interface
! follows /repo/lib/psy_data_base.jinja (PreStart, PreDeclareVariable,
! PreEndDeclaration, ProvideVariable, PreEnd, PostStart, PostEnd).  The library does
! nothing but print the call order on standard output:
!
!   ENTER <module> <region>      from PreStart (the names passed by the caller)
!   EXIT <module> <region>       from PostEnd  (the names remembered by the handle;
!                                 "?" "?" if the handle never saw a PreStart)
!
! With c28_verbose = .true. the other hooks print DECL/ENDDECL/PROV/PREEND/POSTSTART
! lines as well (used for debugging only, never by the oracle).
module c28_psy_data_base_mod
  implicit none
  private

  logical, public :: c28_verbose = .false.

  type, public :: c28_PSyDataBaseType
    character(len=64) :: module_name = "?"
    character(len=64) :: region_name = "?"
  contains
    procedure :: PreStart
    procedure :: PreEndDeclaration
    procedure :: PreEnd
    procedure :: PostStart
    procedure :: PostEnd
    procedure :: DeclareScalarInt
    procedure :: DeclareScalarReal
    procedure :: DeclareScalarDouble
    procedure :: DeclareScalarLogical
    procedure :: DeclareArray1dInt
    procedure :: DeclareArray2dInt
    procedure :: DeclareArray3dInt
    procedure :: DeclareArray1dReal
    procedure :: DeclareArray2dReal
    procedure :: DeclareArray1dDouble
    procedure :: DeclareArray2dDouble
    procedure :: DeclareArray1dLogical
    procedure :: DeclareArray2dLogical
    procedure :: DeclareArray3dLogical
    procedure :: ProvideScalarInt
    procedure :: ProvideScalarReal
    procedure :: ProvideScalarDouble
    procedure :: ProvideScalarLogical
    procedure :: ProvideArray1dInt
    procedure :: ProvideArray2dInt
    procedure :: ProvideArray3dInt
    procedure :: ProvideArray1dReal
    procedure :: ProvideArray2dReal
    procedure :: ProvideArray1dDouble
    procedure :: ProvideArray2dDouble
    procedure :: ProvideArray1dLogical
    procedure :: ProvideArray2dLogical
    procedure :: ProvideArray3dLogical
    generic, public :: PreDeclareVariable => DeclareScalarInt, DeclareScalarReal, &
        DeclareScalarDouble, DeclareScalarLogical, DeclareArray1dInt, &
        DeclareArray2dInt, DeclareArray3dInt, DeclareArray1dReal, &
        DeclareArray2dReal, DeclareArray1dDouble, DeclareArray2dDouble, &
        DeclareArray1dLogical, DeclareArray2dLogical, DeclareArray3dLogical
    generic, public :: ProvideVariable => ProvideScalarInt, ProvideScalarReal, &
        ProvideScalarDouble, ProvideScalarLogical, ProvideArray1dInt, &
        ProvideArray2dInt, ProvideArray3dInt, ProvideArray1dReal, &
        ProvideArray2dReal, ProvideArray1dDouble, ProvideArray2dDouble, &
        ProvideArray1dLogical, ProvideArray2dLogical, ProvideArray3dLogical
  end type c28_PSyDataBaseType

contains

  subroutine PreStart(this, module_name, region_name, num_pre_vars, num_post_vars)
    class(c28_PSyDataBaseType), intent(inout), target :: this
    character(*), intent(in) :: module_name, region_name
    integer, intent(in) :: num_pre_vars, num_post_vars
    this%module_name = module_name
    this%region_name = region_name
    write(*, '(4A)') "ENTER ", trim(module_name), " ", trim(region_name)
    if (c28_verbose) write(*, '(A,I0,1X,I0)') "NVARS ", num_pre_vars, num_post_vars
  end subroutine PreStart

  subroutine PreEndDeclaration(this)
    class(c28_PSyDataBaseType), intent(inout), target :: this
    if (c28_verbose) write(*, '(A)') "ENDDECL"
  end subroutine PreEndDeclaration

  subroutine PreEnd(this)
    class(c28_PSyDataBaseType), intent(inout), target :: this
    if (c28_verbose) write(*, '(A)') "PREEND"
  end subroutine PreEnd

  subroutine PostStart(this)
    class(c28_PSyDataBaseType), intent(inout), target :: this
    if (c28_verbose) write(*, '(A)') "POSTSTART"
  end subroutine PostStart

  subroutine PostEnd(this)
    class(c28_PSyDataBaseType), intent(inout), target :: this
    write(*, '(4A)') "EXIT ", trim(this%module_name), " ", trim(this%region_name)
  end subroutine PostEnd

  subroutine note(what, name)
    character(*), intent(in) :: what, name
    if (c28_verbose) write(*, '(3A)') what, " ", trim(name)
  end subroutine note

  ! ---- PreDeclareVariable -------------------------------------------------
  subroutine DeclareScalarInt(this, name, value)
    class(c28_PSyDataBaseType), intent(inout), target :: this
    character(*), intent(in) :: name
    integer, intent(in) :: value
    call note("DECL", name)
  end subroutine DeclareScalarInt
  subroutine DeclareScalarReal(this, name, value)
    class(c28_PSyDataBaseType), intent(inout), target :: this
    character(*), intent(in) :: name
    real, intent(in) :: value
    call note("DECL", name)
  end subroutine DeclareScalarReal
  subroutine DeclareScalarDouble(this, name, value)
    class(c28_PSyDataBaseType), intent(inout), target :: this
    character(*), intent(in) :: name
    double precision, intent(in) :: value
    call note("DECL", name)
  end subroutine DeclareScalarDouble
  subroutine DeclareScalarLogical(this, name, value)
    class(c28_PSyDataBaseType), intent(inout), target :: this
    character(*), intent(in) :: name
    logical, intent(in) :: value
    call note("DECL", name)
  end subroutine DeclareScalarLogical
  subroutine DeclareArray1dInt(this, name, value)
    class(c28_PSyDataBaseType), intent(inout), target :: this
    character(*), intent(in) :: name
    integer, dimension(:), intent(in) :: value
    call note("DECL", name)
  end subroutine DeclareArray1dInt
  subroutine DeclareArray2dInt(this, name, value)
    class(c28_PSyDataBaseType), intent(inout), target :: this
    character(*), intent(in) :: name
    integer, dimension(:,:), intent(in) :: value
    call note("DECL", name)
  end subroutine DeclareArray2dInt
  subroutine DeclareArray3dInt(this, name, value)
    class(c28_PSyDataBaseType), intent(inout), target :: this
    character(*), intent(in) :: name
    integer, dimension(:,:,:), intent(in) :: value
    call note("DECL", name)
  end subroutine DeclareArray3dInt
  subroutine DeclareArray1dReal(this, name, value)
    class(c28_PSyDataBaseType), intent(inout), target :: this
    character(*), intent(in) :: name
    real, dimension(:), intent(in) :: value
    call note("DECL", name)
  end subroutine DeclareArray1dReal
  subroutine DeclareArray2dReal(this, name, value)
    class(c28_PSyDataBaseType), intent(inout), target :: this
    character(*), intent(in) :: name
    real, dimension(:,:), intent(in) :: value
    call note("DECL", name)
  end subroutine DeclareArray2dReal
  subroutine DeclareArray1dDouble(this, name, value)
    class(c28_PSyDataBaseType), intent(inout), target :: this
    character(*), intent(in) :: name
    double precision, dimension(:), intent(in) :: value
    call note("DECL", name)
  end subroutine DeclareArray1dDouble
  subroutine DeclareArray2dDouble(this, name, value)
    class(c28_PSyDataBaseType), intent(inout), target :: this
    character(*), intent(in) :: name
    double precision, dimension(:,:), intent(in) :: value
    call note("DECL", name)
  end subroutine DeclareArray2dDouble
  subroutine DeclareArray1dLogical(this, name, value)
    class(c28_PSyDataBaseType), intent(inout), target :: this
    character(*), intent(in) :: name
    logical, dimension(:), intent(in) :: value
    call note("DECL", name)
  end subroutine DeclareArray1dLogical
  subroutine DeclareArray2dLogical(this, name, value)
    class(c28_PSyDataBaseType), intent(inout), target :: this
    character(*), intent(in) :: name
    logical, dimension(:,:), intent(in) :: value
    call note("DECL", name)
  end subroutine DeclareArray2dLogical
  subroutine DeclareArray3dLogical(this, name, value)
    class(c28_PSyDataBaseType), intent(inout), target :: this
    character(*), intent(in) :: name
    logical, dimension(:,:,:), intent(in) :: value
    call note("DECL", name)
  end subroutine DeclareArray3dLogical

  ! ---- ProvideVariable ----------------------------------------------------
  subroutine ProvideScalarInt(this, name, value)
    class(c28_PSyDataBaseType), intent(inout), target :: this
    character(*), intent(in) :: name
    integer, intent(in) :: value
    call note("PROV", name)
  end subroutine ProvideScalarInt
  subroutine ProvideScalarReal(this, name, value)
    class(c28_PSyDataBaseType), intent(inout), target :: this
    character(*), intent(in) :: name
    real, intent(in) :: value
    call note("PROV", name)
  end subroutine ProvideScalarReal
  subroutine ProvideScalarDouble(this, name, value)
    class(c28_PSyDataBaseType), intent(inout), target :: this
    character(*), intent(in) :: name
    double precision, intent(in) :: value
    call note("PROV", name)
  end subroutine ProvideScalarDouble
  subroutine ProvideScalarLogical(this, name, value)
    class(c28_PSyDataBaseType), intent(inout), target :: this
    character(*), intent(in) :: name
    logical, intent(in) :: value
    call note("PROV", name)
  end subroutine ProvideScalarLogical
  subroutine ProvideArray1dInt(this, name, value)
    class(c28_PSyDataBaseType), intent(inout), target :: this
    character(*), intent(in) :: name
    integer, dimension(:), intent(in) :: value
    call note("PROV", name)
  end subroutine ProvideArray1dInt
  subroutine ProvideArray2dInt(this, name, value)
    class(c28_PSyDataBaseType), intent(inout), target :: this
    character(*), intent(in) :: name
    integer, dimension(:,:), intent(in) :: value
    call note("PROV", name)
  end subroutine ProvideArray2dInt
  subroutine ProvideArray3dInt(this, name, value)
    class(c28_PSyDataBaseType), intent(inout), target :: this
    character(*), intent(in) :: name
    integer, dimension(:,:,:), intent(in) :: value
    call note("PROV", name)
  end subroutine ProvideArray3dInt
  subroutine ProvideArray1dReal(this, name, value)
    class(c28_PSyDataBaseType), intent(inout), target :: this
    character(*), intent(in) :: name
    real, dimension(:), intent(in) :: value
    call note("PROV", name)
  end subroutine ProvideArray1dReal
  subroutine ProvideArray2dReal(this, name, value)
    class(c28_PSyDataBaseType), intent(inout), target :: this
    character(*), intent(in) :: name
    real, dimension(:,:), intent(in) :: value
    call note("PROV", name)
  end subroutine ProvideArray2dReal
  subroutine ProvideArray1dDouble(this, name, value)
    class(c28_PSyDataBaseType), intent(inout), target :: this
    character(*), intent(in) :: name
    double precision, dimension(:), intent(in) :: value
    call note("PROV", name)
  end subroutine ProvideArray1dDouble
  subroutine ProvideArray2dDouble(this, name, value)
    class(c28_PSyDataBaseType), intent(inout), target :: this
    character(*), intent(in) :: name
    double precision, dimension(:,:), intent(in) :: value
    call note("PROV", name)
  end subroutine ProvideArray2dDouble
  subroutine ProvideArray1dLogical(this, name, value)
    class(c28_PSyDataBaseType), intent(inout), target :: this
    character(*), intent(in) :: name
    logical, dimension(:), intent(in) :: value
    call note("PROV", name)
  end subroutine ProvideArray1dLogical
  subroutine ProvideArray2dLogical(this, name, value)
    class(c28_PSyDataBaseType), intent(inout), target :: this
    character(*), intent(in) :: name
    logical, dimension(:,:), intent(in) :: value
    call note("PROV", name)
  end subroutine ProvideArray2dLogical
  subroutine ProvideArray3dLogical(this, name, value)
    class(c28_PSyDataBaseType), intent(inout), target :: this
    character(*), intent(in) :: name
    logical, dimension(:,:,:), intent(in) :: value
    call note("PROV", name)
  end subroutine ProvideArray3dLogical

end module c28_psy_data_base_mod
