! Checking PSyData stub for property C28: the "extract" wrapper (see
! c28_psy_data_base_mod.f90 for what the hooks do).
module extract_psy_data_mod
  use c28_psy_data_base_mod, only : c28_PSyDataBaseType
  implicit none
  private
  type, extends(c28_PSyDataBaseType), public :: extract_PSyDataType
  end type extract_PSyDataType
end module extract_psy_data_mod
