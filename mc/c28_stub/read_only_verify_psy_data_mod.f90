! Checking PSyData stub for property C28: the "read_only_verify" wrapper (see
! c28_psy_data_base_mod.f90 for what the hooks do).
module read_only_verify_psy_data_mod
  use c28_psy_data_base_mod, only : c28_PSyDataBaseType
  implicit none
  private
  type, extends(c28_PSyDataBaseType), public :: read_only_verify_PSyDataType
  end type read_only_verify_PSyDataType
end module read_only_verify_psy_data_mod
