"""Two-store (host / device) execution of OpenACC data and compute constructs
on top of the E1 interpreter, for C13.

Construction.  E1 keeps every array element in a ``Cell`` object that is
shared by all views of the array (dummy arguments, sections).  The *host*
store is those cells.  A *device copy* of an array is a separate list of
values, one per cell.  The ``directive`` hook gives the OpenACC directives
their data semantics:

* ``ACCDataDirective`` (entry): arrays in ``copyin`` / ``copy`` get a device
  copy initialised from the host cells, arrays in ``copyout`` get an all-POISON
  device copy.  The body is executed.  (exit): arrays in ``copyout`` / ``copy``
  overwrite the host cells ENTIRELY with the device copy; all device copies of
  the region are dropped.
* ``ACCKernelsDirective`` / ``ACCParallelDirective``: for every array that has
  a device copy the cell values are *swapped*: the host values are put aside
  and the cells hold the device values while the body runs, then the (possibly
  modified) device values are stored back into the device copy and the host
  values are restored.  Arrays without a device copy are accessed in the host
  cells directly - this is exactly OpenACC's implicit ``copy`` of the whole
  array for the duration of the construct.  With ``default(present)`` inside a
  data region, touching an array that has no device copy is recorded as a
  ``not-present`` fault (a run-time error on a real device).
* every other directive (``acc loop``) is transparent; statements outside
  compute constructs run on the host cells; scalars live in one store (they
  are outside the claim).

The clause sets are a parameter, so the same machinery runs PSyclone's clauses
and the oracle's own "needed" clauses.  The arrays are bound to their cells on
routine entry (``attach``, called by mc.c12_oracle.RegionInterp once the
storage of dummy arguments and of LOCAL arrays exists).

``NeedsTracer`` is the independent oracle for what a data region needs: it
runs the program on ONE store and records, per array, the device accesses made
inside the data region: upward-exposed device reads, device-written element
sets, and host accesses.
"""
from psyclone.psyir import nodes as N

from mc.fortsem import interp as I

COMPUTE = (N.ACCKernelsDirective, N.ACCParallelDirective)


class TwoStore:
    """hooks object for Interp: executes with separate device copies."""

    def __init__(self, names, clauses):
        self.names = list(names)          # the array variables of the routine
        self.arrays = {}                  # name -> list of host cells (attach)
        self.copyin = set(clauses.get("copyin", ()))
        self.copyout = set(clauses.get("copyout", ()))
        self.copy = set(clauses.get("copy", ()))
        self.dev = {}                     # name -> list of device values
        self.in_data = 0
        self.on_device = 0
        self.faults = []
        self.cell_array = {}

    def attach(self, interp):
        """Called by RegionInterp on routine entry, when the storage of every
        variable (dummy arguments and locals) exists."""
        attach_arrays(self, interp)

    def directive(self, interp, node, frame):
        if isinstance(node, N.ACCDataDirective):
            created = []
            for name in sorted(self.copyin | self.copy | self.copyout):
                if name in self.dev or name not in self.arrays:
                    continue
                cells = self.arrays[name]
                if name in self.copyout:
                    self.dev[name] = [I.POISON] * len(cells)
                else:
                    self.dev[name] = [cell.v for cell in cells]
                created.append(name)
            self.in_data += 1
            try:
                interp.exec_schedule(node.dir_body, frame)
            finally:
                self.in_data -= 1
            for name in created:
                if name in self.copyout or name in self.copy:
                    for cell, val in zip(self.arrays[name], self.dev[name]):
                        cell.v = val
                del self.dev[name]
            return True
        if isinstance(node, COMPUTE):
            if self.on_device:
                interp.exec_schedule(node.dir_body, frame)
                return True
            saved = {}
            for name, vals in self.dev.items():
                cells = self.arrays[name]
                saved[name] = [cell.v for cell in cells]
                for cell, val in zip(cells, vals):
                    cell.v = val
            check = bool(self.in_data and node.default_present)
            outer = interp.tracer
            if check:
                def tracer(kind, cell, tnode, itp):
                    name = self.cell_array.get(id(cell))
                    if name is not None and name not in self.dev and \
                            ("not-present", name) not in self.faults:
                        self.faults.append(("not-present", name))
                    if outer is not None:
                        outer(kind, cell, tnode, itp)
                interp.tracer = tracer
            self.on_device += 1
            try:
                interp.exec_schedule(node.dir_body, frame)
            finally:
                self.on_device -= 1
                interp.tracer = outer
                for name, host_vals in saved.items():
                    cells = self.arrays[name]
                    self.dev[name] = [cell.v for cell in cells]
                    for cell, val in zip(cells, host_vals):
                        cell.v = val
            return True
        return False


class NeedsTracer:
    """hooks + tracer for a ONE-store run: what does the data region need?"""

    def __init__(self, names):
        self.names = list(names)
        self.arrays = {}           # name -> list of cells (attach)
        self.cell_array = {}
        self.in_data = 0
        self.on_device = 0
        self.dev_written = {}      # name -> set of id(cell) (this instance)
        self.entry_defined = set()  # id(cell) defined at data-region entry
        self.dev_ue = set()        # arrays with an upward-exposed device read
        self.dev_any = set()       # arrays accessed on the device in the region
        self.host_read = set()     # arrays read by host statements in the region
        self.host_written = set()
        self.need_in = set()
        self.need_out = set()

    def attach(self, interp):
        attach_arrays(self, interp)

    def directive(self, interp, node, frame):
        if isinstance(node, N.ACCDataDirective):
            self.in_data += 1
            self.dev_written = {}
            # Only DEFINED incoming values can be needed: an intent(out)
            # dummy or a local array that nothing has defined yet holds
            # nothing that must be copied in or that must survive.
            self.entry_defined = {id(cell) for cells in self.arrays.values()
                                  for cell in cells if cell.v is not I.POISON}
            try:
                interp.exec_schedule(node.dir_body, frame)
            finally:
                self.in_data -= 1
            for name, cells in self.dev_written.items():
                self.need_out.add(name)
                if any(id(cell) not in cells and
                       id(cell) in self.entry_defined
                       for cell in self.arrays[name]):
                    # the unwritten (defined) remainder must survive the
                    # copy back
                    self.need_in.add(name)
            self.need_in |= self.dev_ue
            return True
        if isinstance(node, COMPUTE):
            self.on_device += 1
            try:
                interp.exec_schedule(node.dir_body, frame)
            finally:
                self.on_device -= 1
            return True
        return False

    def tracer(self, kind, cell, _node, _interp):
        if not self.in_data:
            return
        name = self.cell_array.get(id(cell))
        if name is None:
            return
        if self.on_device:
            self.dev_any.add(name)
            done = self.dev_written.get(name)
            if kind == "R":
                if (done is None or id(cell) not in done) and \
                        id(cell) in self.entry_defined:
                    self.dev_ue.add(name)
            else:
                self.dev_written.setdefault(name, set()).add(id(cell))
        elif kind == "R":
            self.host_read.add(name)
        else:
            self.host_written.add(name)


def attach_arrays(hooks, interp):
    """Bind the array variables (dummy arguments AND local arrays) of the
    routine to their host cells."""
    hooks.arrays = {}
    hooks.cell_array = {}
    for name in hooks.names:
        cells = interp.var_cells.get(name)
        if cells is None:
            raise I.Unsupported(f"no storage for array '{name}'")
        hooks.arrays[name] = cells
        for cell in cells:
            hooks.cell_array[id(cell)] = name


def needed_clauses(need_in, need_out, touched=()):
    """The oracle's clause assignment from the union of the needs."""
    out = {"copyin": [], "copyout": [], "copy": []}
    for name in sorted(need_in | need_out | set(touched)):
        if name in need_in and name in need_out:
            out["copy"].append(name)
        elif name in need_out:
            out["copyout"].append(name)
        else:
            # needs its values, or is only touched on the device where it
            # held nothing defined (it must still be PRESENT for
            # default(present) constructs; copyin copies nothing back)
            out["copyin"].append(name)
    return out


def clause_of(clauses, name):
    for kind in ("copyin", "copyout", "copy"):
        if name in clauses.get(kind, ()):
            return kind
    return "none"
