"""C26 seed programs.

Language-level seeds are small Fortran sources read with FortranReader; a seed
may list preparatory transformations ("pre") that are applied at build time so
that directive nodes etc. exist (histories).  PSy-layer seeds are algorithm
files of the repository's own test-suite, built the way tests/utilities.py
get_invoke() does (parse + PSyFactory.create).
"""
import os

REPO = os.environ.get("VERIF_REPO", "/repo")
TEST_FILES = os.path.join(REPO, "src", "psyclone", "tests", "test_files")

# ---------------------------------------------------------------------------
# language-level seeds
# ---------------------------------------------------------------------------
FORTRAN = {}


def _seed(name, src, tiers=("quick", "thorough"), pre=(), api="nemo",
          file=None):
    FORTRAN[name] = {"src": src, "tiers": tiers, "pre": list(pre), "api": api,
                     "file": file}


_seed("loops", """
module loops_mod
  integer, parameter :: n = 10
contains
subroutine sub(a, b, c, m)
  real, dimension(n,n), intent(inout) :: a, b, c
  integer, intent(in) :: m
  integer :: i, j
  real :: t
  do j = 1, n
    do i = 1, m
      a(i,j) = b(i,j) + c(i,j)
    end do
  end do
  do j = 1, n
    t = 2.0
    b(1,j) = t * c(1,j)
  end do
end subroutine sub
end module loops_mod
""")

_seed("fuse", """
subroutine fuse(a, b, n)
  integer, intent(in) :: n
  real, intent(inout) :: a(n), b(n)
  integer :: i, k
  real :: s
  do i = 1, n
    a(i) = 1.0
  end do
  do i = 1, n
    b(i) = a(i)
  end do
  do k = 1, n
    s = a(k)
  end do
  do i = 2, n
    b(i) = s + a(i-1)
  end do
end subroutine fuse
""")

_seed("arrays", """
subroutine arrs(a, b, c, idx, n)
  integer, intent(in) :: n
  real, intent(inout) :: a(n,n), b(n,n), c(n)
  integer, intent(in) :: idx(n)
  character(len=4) :: names(3)
  a(:,:) = b(:,:) * 2.0
  c(:) = abs(b(:,2))
  a(2:5,1) = b(1:4,2) + c(2:5)
  c(idx(:)) = 0.0
  c(:) = sum(a(:,:)) + c(:)
  names(:) = 'abcd'
  a = b
end subroutine arrs
""")

_seed("arrays2", """
module arrays2_mod
  use other_mod, only: ext, efun
  type :: vec
    real :: x(5)
    integer :: n
  end type vec
contains
subroutine arrs2(v, w, a)
  type(vec), intent(inout) :: v, w(3)
  real, intent(inout) :: a(5)
  integer :: i
  v%x(:) = a(:)
  w(2)%x(:) = v%x(:) + 1.0
  a(:) = ext(:)
  a(:) = efun(a(:))
  do i = 1, 5
    a(i) = a(i) + v%x(i)
    a(2) = 0.0
  end do
  write(*,*) a(:)
  a(1:3) = mynint(a(3:5))
end subroutine arrs2
end module arrays2_mod
""", tiers=("thorough",))

_seed("intrinsics", """
subroutine intr(x, y, z, v, w, n)
  integer, intent(in) :: n
  real, intent(inout) :: x, y, z
  real, intent(inout) :: v(n), w(n)
  x = abs(y) + min(x, y, z)
  y = max(x, 2.0) * sign(z, x)
  z = dot_product(v, w)
  x = dot_product(v(:), w(:)) + maxval(v)
  y = sum(v) + product(w(:))
  z = minval(v, mask=w > 0.0)
end subroutine intr
""", tiers=("thorough",))

_seed("matmul", """
subroutine mm(a, b, c, x, y, r)
  real, intent(inout) :: a(4,4), b(4,4), c(4,4)
  real, intent(inout) :: x(4), y(4)
  real, intent(inout) :: r(4,4,2)
  y = matmul(a, x)
  c = matmul(a, b)
  c(:,:) = matmul(a(:,:), b(:,:))
  r(:,:,1) = matmul(a, r(:,:,2))
  y = matmul(a, x) + x
  c = matmul(a, 2*b)
end subroutine mm
""", tiers=("thorough",))

_seed("inline", """
module inline_mod
  integer :: glob
contains
subroutine caller(a, n)
  integer, intent(in) :: n
  real, intent(inout) :: a(n)
  integer :: i
  real :: t
  t = 1.0
  call callee(a, n, t)
  do i = 1, n
    call scal(a(i))
  end do
  a(1) = func(t)
  call withret(t)
  call saver(t)
  call ext_sub(a)
end subroutine caller
subroutine callee(x, m, f)
  integer, intent(in) :: m
  real, intent(inout) :: x(m)
  real, intent(in) :: f
  integer :: i
  real :: t
  t = f * 2.0
  do i = 1, m
    x(i) = x(i) * t
  end do
end subroutine callee
subroutine scal(s)
  real, intent(inout) :: s
  s = s + glob
end subroutine scal
real function func(q)
  real, intent(in) :: q
  func = q * q
end function func
subroutine withret(q)
  real, intent(inout) :: q
  if (q > 0.0) then
    return
  end if
  q = 0.0
end subroutine withret
subroutine saver(q)
  real, intent(inout) :: q
  real, save :: acc = 0.0
  acc = acc + q
  q = acc
end subroutine saver
end module inline_mod
""", tiers=("thorough",))

_seed("hoistlocal", """
module hoistlocal_mod
  integer, parameter :: n = 8
contains
subroutine work(a, m)
  integer, intent(in) :: m
  real, intent(inout) :: a(n)
  real :: tmp(n), big(m, n), fixed(3)
  integer :: i
  tmp(:) = a(:)
  do i = 1, n
    big(1, i) = tmp(i)
    a(i) = big(1, i) + fixed(1)
  end do
end subroutine work
end module hoistlocal_mod
""", tiers=("thorough",))

_seed("cond", """
subroutine cond(a, n, flag)
  integer, intent(in) :: n
  logical, intent(in) :: flag
  real, intent(inout) :: a(n)
  integer :: i, k
  if (flag) return
  if (n < 2) then
    return
  end if
  k = 0
  do i = 1, n
    k = k + 1
    if (a(i) > 0.0) then
      a(k) = a(i)
    else
      a(i) = 0.0
    end if
  end do
  do while (k < n)
    k = k + 1
  end do
end subroutine cond
""", tiers=("thorough",))

_seed("induct", """
subroutine induct(a, b, n)
  integer, intent(in) :: n
  real, intent(inout) :: a(2*n), b(n)
  integer :: i, k, l
  do i = 1, n
    k = i + 1
    l = 2 * i
    a(k) = b(i)
    a(l) = a(l) + 1.0
  end do
end subroutine induct
""", tiers=("thorough",))

_seed("chunk", """
subroutine chunk(a, n, s)
  integer, intent(in) :: n
  integer, intent(inout) :: s
  real, intent(inout) :: a(n)
  integer :: i, m
  real :: r
  do i = 1, n, 2
    a(i) = 0.0
  end do
  do i = n, 1, -1
    a(i) = 1.0
  end do
  do i = 1, n, s
    a(i) = 2.0
  end do
  m = n
  do i = 1, m
    m = m - 1
    a(i) = 3.0
  end do
  do i = 1, n, 64
    write(*,*) a(i)
  end do
  do i = 1, n, 0
    a(i) = 4.0
  end do
end subroutine chunk
""", tiers=("thorough",))

_seed("program", """
program prog
  integer, parameter :: n = 4
  real :: a(n), b(n)
  integer :: i
  do i = 1, n
    a(i) = i
  end do
  b(:) = a(:)
  call ext(a, b)
  print *, a(1)
end program prog
""", tiers=("thorough",))

_seed("tile", """
subroutine tile(a, b, n, m)
  integer, intent(in) :: n, m
  real, intent(inout) :: a(n,m), b(n,m)
  integer :: i, j, ii
  do j = 1, m
    do i = 1, n
      a(i,j) = b(i,j)
    end do
  end do
  do j = 1, m
    do i = j, n
      a(i,j) = 0.0
    end do
  end do
  do j = 1, m, 2
    do i = 1, n
      b(i,j) = 1.0
    end do
  end do
  do j = 1, m
    do i = 1, n, 64
      b(i,j) = 2.0
    end do
  end do
end subroutine tile
""")

_seed("swap", """
subroutine swap(a, n, m)
  integer, intent(in) :: n, m
  real, intent(inout) :: a(n,m)
  integer :: i, j
  do j = 1, m
  end do
  do j = 1, m
    do i = 1, n
      a(i,j) = 0.0
    end do
    a(1,j) = 1.0
  end do
  do j = 1, m
    do i = 1, n
      call ext(a(i,j))
    end do
  end do
  do j = 1, i
    do i = 1, n
      a(i,j) = 2.0
    end do
  end do
end subroutine swap
""", tiers=("thorough",))

_seed("fuse2", """
subroutine fuse2(a, b, c, n)
  integer, intent(in) :: n
  real, intent(inout) :: a(n), b(n), c(n,n)
  integer :: i, k
  real :: s
  do i = 1, n
    s = a(i)
  end do
  do i = 1, n
    b(i) = s
  end do
  do i = 1, n
    c(i,1) = b(i)
  end do
  do i = 1, n
    b(i) = c(1,i)
  end do
  do k = 1, n
    a(k) = a(k) + i
  end do
  do i = 1, n
    c(2,2) = c(2,2) + a(i)
  end do
  do i = 1, n
    a(i) = c(2,2)
  end do
end subroutine fuse2
""", tiers=("thorough",))

_seed("inline2", """
module inline2_mod
  use other_mod, only: far_sub
  use wild_mod
  integer :: shared
contains
subroutine top(a, b, n, s)
  integer, intent(in) :: n
  real, intent(inout) :: a(n), b(n,n)
  type(unknown_t) :: s
  integer :: i
  call far_sub(a)
  call nowhere(a)
  call named(a, n=n)
  call toofew(a)
  call reshaper(b, n)
  call strided(a(1:n:2), n)
  call indirect(a(idx(1:2)), n)
  call usesshared(a(1))
  call blocky(a(1))
  call clash(a(1))
  call scalar_to_array(a(1), n)
  call mystery(s)
end subroutine top
subroutine named(x, n)
  integer, intent(in) :: n
  real, intent(inout) :: x(n)
  x(1) = 0.0
end subroutine named
subroutine toofew(x, n)
  integer, intent(in) :: n
  real, intent(inout) :: x(n)
  x(1) = 0.0
end subroutine toofew
subroutine reshaper(x, n)
  integer, intent(in) :: n
  real, intent(inout) :: x(n*n)
  x(1) = 0.0
end subroutine reshaper
subroutine strided(x, n)
  integer, intent(in) :: n
  real, intent(inout) :: x(n)
  x(1) = 0.0
end subroutine strided
subroutine indirect(x, n)
  integer, intent(in) :: n
  real, intent(inout) :: x(2)
  x(1) = 0.0
end subroutine indirect
subroutine usesshared(x)
  real, intent(inout) :: x
  x = x + shared
end subroutine usesshared
subroutine blocky(x)
  real, intent(inout) :: x
  write(*,*) x
end subroutine blocky
subroutine clash(x)
  use clash_mod, only: i
  real, intent(inout) :: x
  x = x + i
end subroutine clash
subroutine scalar_to_array(x, n)
  integer, intent(in) :: n
  real, intent(inout) :: x(n)
  x(1) = 0.0
end subroutine scalar_to_array
subroutine mystery(x)
  type(unknown_t) :: x
  x%v = unresolved_thing
end subroutine mystery
end module inline2_mod
""", tiers=("thorough",))

_seed("matmul2", """
subroutine mm2(a, b, c, x, y, t, r, u)
  use some_mod, only: ext_a
  real, intent(inout) :: a(4,4), b(4,4), c(4,4)
  real, intent(inout) :: x(4), y(4), t(4,4,4), r(4,4,4)
  real, intent(inout) :: u
  integer :: idx(4)
  call consume(matmul(a, b))
  c = matmul(a, b) * 2.0
  c = matmul(ext_a, b)
  c = matmul(a(1:2,1:2), b(1:2,1:2))
  t(:,:,1) = matmul(t(:,1,:), r(:,:,1))
  c = matmul(a(idx,:), b)
  y = matmul(t(1,:,:), x)
  y(2:3) = matmul(a(2:3,:), x)
  c = matmul(t, b)
  u = dot_product(ext_a, x)
  u = dot_product(a(:,1), x(1:4))
  u = dot_product(a, b)
  u = dot_product(x, y(2:5))
  call consume(dot_product(x, y))
end subroutine mm2
""", tiers=("thorough",))

_seed("reduce2", """
subroutine red2(a, b, x, n, d)
  use some_mod, only: ext_a
  integer, intent(in) :: n, d
  real, intent(inout) :: a(n,n), b(n), x
  logical :: msk(n,n)
  x = sum(a, dim=1)
  x = sum(a, d)
  x = maxval(a(:,1:2), mask=msk(:,1:2))
  x = minval(ext_a)
  x = product(a(2,:)) + sum(b(1:n:2))
  b(1) = sum(a(b,1))
  call consume(sum(a))
  x = abs(b)
  b = max(b, 1.0)
  x = sign(1.0, b(1)) + min(x, b(2))
end subroutine red2
""")

_seed("hoist2", """
module hoist2_mod
  real :: tagged(3)
contains
subroutine h2(a, n)
  integer, intent(in) :: n
  real, intent(inout) :: a(n)
  integer :: i, j
  real :: t, u, v(2)
  do i = 1, n
    t = 1.0
    a(i) = t
    u = u + 1.0
    t = 2.0
    v(1) = a(i)
    if (a(i) > 0.0) then
      u = 0.0
    end if
    do j = i, n + i
      a(j) = real(j)
    end do
  end do
end subroutine h2
end module hoist2_mod
""", tiers=("thorough",))

# --- seeds with a history (directives cannot be read from source) -----------
_OMP_SRC = """
subroutine omp(a, b, n)
  integer, intent(in) :: n
  real, intent(inout) :: a(n), b(n)
  integer :: i
  do i = 1, n
    a(i) = 1.0
  end do
  do i = 1, n
    b(i) = a(i)
  end do
  b(1) = 0.0
end subroutine omp
"""
_seed("omp_par", _OMP_SRC, pre=[
    ("OMPLoopTrans", {}, {"t": "node", "p": [0, 0]}, {}),
    ("OMPParallelTrans", {}, {"t": "list", "p": [0], "i": 0, "j": 2}, {}),
], tiers=("thorough",))
_seed("omp_task", _OMP_SRC, pre=[
    ("OMPTaskloopTrans", {}, {"t": "node", "p": [0, 0]}, {}),
    ("OMPTaskloopTrans", {"nogroup": True}, {"t": "node", "p": [0, 1]}, {}),
    ("OMPSingleTrans", {}, {"t": "list", "p": [0], "i": 0, "j": 2}, {}),
    ("OMPParallelTrans", {}, {"t": "list", "p": [0], "i": 0, "j": 1}, {}),
])
_seed("acc_par", _OMP_SRC, pre=[
    ("ACCLoopTrans", {}, {"t": "node", "p": [0, 0]}, {}),
    ("ACCParallelTrans", {}, {"t": "list", "p": [0], "i": 0, "j": 1}, {}),
    ("ACCKernelsTrans", {}, {"t": "list", "p": [0], "i": 1, "j": 2}, {}),
], tiers=("thorough",))
_seed("acc_data", _OMP_SRC, pre=[
    ("ACCKernelsTrans", {}, {"t": "list", "p": [0], "i": 0, "j": 1}, {}),
    ("ACCDataTrans", {}, {"t": "list", "p": [0], "i": 0, "j": 2}, {}),
], tiers=("thorough",))
_seed("chunked", _OMP_SRC, pre=[
    ("ChunkLoopTrans", {}, {"t": "node", "p": [0, 0]}, {"chunksize": 4}),
])
_seed("omp_target", _OMP_SRC, pre=[
    ("OMPLoopTrans", {"omp_directive": "teamsdistributeparalleldo"},
     {"t": "node", "p": [0, 0]}, {}),
    ("OMPTargetTrans", {}, {"t": "node", "p": [0, 0]}, {}),
    ("ACCRoutineTrans", {}, {"t": "node", "p": [0]}, {}),
], tiers=("thorough",))
_seed("profiled", _OMP_SRC, pre=[
    ("ProfileTrans", {}, {"t": "list", "p": [0], "i": 0, "j": 1}, {}),
], tiers=("thorough",))


# --- algorithm-layer and kernel-layer seeds (files of the test-suite) --------
_seed("alg_lfric", None, api="dynamo0.3", tiers=("thorough",),
      file="dynamo0p3/15.14.4_builtin_and_normal_kernel_invoke.f90")
_seed("alg_gocean", None, api="gocean1.0", tiers=("thorough",),
      file="gocean1p0/single_invoke_two_kernels.f90")
_seed("alg_lfric_raised", None, api="dynamo0.3", tiers=("thorough",),
      file="dynamo0p3/15.14.4_builtin_and_normal_kernel_invoke.f90",
      pre=[("RaisePSyIR2LFRicAlgTrans", {},
            [{"t": "node", "p": [0, 0]}, {"t": "py", "v": 0}], {})])
_seed("alg_gocean_raised", None, api="gocean1.0", tiers=("thorough",),
      file="gocean1p0/single_invoke_two_kernels.f90",
      pre=[("RaisePSyIR2AlgTrans", {},
            [{"t": "node", "p": [0, 6, 3, 0]}, {"t": "py", "v": 0}], {})])
_seed("kern_lfric", None, api="dynamo0.3", tiers=("thorough",),
      file="dynamo0p3/testkern_mod.F90")
_seed("kern_gocean", None, api="gocean1.0", tiers=("thorough",),
      file="gocean1p0/compute_cu_mod.f90")

_seed("adjoint", """
subroutine tl(a, b, c, x, n)
  integer, intent(in) :: n
  real, intent(inout) :: a, b, c
  real, intent(in) :: x
  a = b + x * c
  a = a + 2.0 * b
  b = x
  c = b * c
  a = 0.0
  a = b / x - c
end subroutine tl
""", tiers=("thorough",))

# ---------------------------------------------------------------------------
# PSy-layer seeds (api, algorithm file relative to test_files, dist. memory)
# ---------------------------------------------------------------------------
PSY = {}


def _psy(name, api, alg, dm, tiers=("quick", "thorough"), pre=(),
         quick_only=None):
    """quick_only: in the quick tier the seed is only combined with the
    named transformation classes (all classes in the thorough tier)."""
    PSY[name] = {"api": api, "alg": alg, "dm": dm, "tiers": tiers,
                 "pre": list(pre), "quick_only": quick_only}


_psy("lf_single_dm", "dynamo0.3", "dynamo0p3/1_single_invoke.f90", True,
     tiers=("thorough",))
_psy("lf_single", "dynamo0.3", "dynamo0p3/1_single_invoke.f90", False,
     tiers=("thorough",))
_psy("lf_multikern_dm", "dynamo0.3", "dynamo0p3/4_multikernel_invokes.f90",
     True,
     tiers=("thorough",))
_psy("lf_multikern", "dynamo0.3", "dynamo0p3/4_multikernel_invokes.f90",
     False,
     tiers=("thorough",))
_psy("lf_builtins_dm", "dynamo0.3",
     "dynamo0p3/15.14.4_builtin_and_normal_kernel_invoke.f90", True,
     tiers=("thorough",))
_psy("lf_quad_dm", "dynamo0.3", "dynamo0p3/1.1.0_single_invoke_xyoz_qr.f90",
     True,
     tiers=("thorough",))
_psy("lf_quad_face", "dynamo0.3",
     "dynamo0p3/1.1.6_face_qr.f90", False,
     tiers=("thorough",))
_psy("lf_2qr_int", "dynamo0.3",
     "dynamo0p3/1.1.9_single_invoke_2qr_shapes_int_field.f90", False)
_psy("lf_stencil_dm", "dynamo0.3", "dynamo0p3/19.1_single_stencil.f90", True,
     tiers=("thorough",))
_psy("lf_wtheta_dm", "dynamo0.3", "dynamo0p3/1_single_invoke_wtheta.f90",
     True, tiers=("thorough",))
_psy("lf_dofs", "dynamo0.3", "dynamo0p3/1.14_single_invoke_dofs.f90", True,
     tiers=("thorough",))
_psy("lf_kmi_clash", "dynamo0.3", "dynamo0p3/4_multikernel_invokes.f90",
     False, pre=[
         ("KernelModuleInlineTrans", {}, {"t": "node", "p": [0, 0, 3, 0]}, {}),
         ("Dynamo0p3KernelConstTrans", {}, {"t": "node", "p": [0, 1, 3, 0]},
          {"number_of_layers": 20}),
     ], quick_only=["KernelModuleInlineTrans", "OMPTaskTrans", "InlineTrans",
                    "Dynamo0p3KernelConstTrans", "ACCRoutineTrans"])
_psy("lf_coloured", "dynamo0.3", "dynamo0p3/1_single_invoke.f90", False,
     pre=[("Dynamo0p3ColourTrans", {}, {"t": "node", "p": [0, 0]}, {})],
     tiers=("thorough",))
_psy("lf_omp_region", "dynamo0.3", "dynamo0p3/1_single_invoke.f90", False,
     pre=[("OMPParallelTrans", {},
           {"t": "list", "p": [0], "i": 0, "j": 1}, {})])
_psy("go_two", "gocean1.0", "gocean1p0/single_invoke_two_kernels.f90", True,
     tiers=("thorough",))
_psy("go_three", "gocean1.0", "gocean1p0/single_invoke_three_kernels.f90",
     False,
     tiers=("thorough",))
_psy("go_imports", "gocean1.0",
     "gocean1p0/single_invoke_kern_with_use.f90", False)
_psy("go_scalar", "gocean1.0",
     "gocean1p0/single_invoke_scalar_float_arg.f90", False,
     tiers=("thorough",))

# Transformations whose constructor needs seed-specific arguments:
# {transformation: {seed: [ctor kwargs, ...]}}; such a transformation is only
# attempted on the seeds listed here.
SEED_CTOR = {
    "RaisePSyIR2GOceanKernTrans": {
        "kern_gocean": [{"metadata_name": "compute_cu"},
                        {"metadata_name": "no_such_metadata"}],
        "kern_lfric": [{"metadata_name": "testkern_type"}],
        "loops": [{"metadata_name": "compute_cu"}],
    },
    "AssignmentTrans": {
        "adjoint": [{"active_variables": {"$symbols": ["a", "b", "c"]}},
                    {"active_variables": {"$symbols": ["a"]}}],
        "loops": [{"active_variables": {"$symbols": ["a", "b"]}}],
    },
}
