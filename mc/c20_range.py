"""C20 Part B: the DoF range a built-in's loop covers, read from the generated
PSy-layer text, against the documented range.

Documented ranges (doc/developer_guide/APIs.rst "Dof iterators", "Cell and
Dof Ordering"; doc/user_guide/dynamo0p3.rst "Annexed DoFs", "Built-ins"; the
table below is written from those sections, not from lfric_loop.py):

* DoFs of a partition are numbered owned < annexed < halo(1) < halo(2) ...;
  ``get_last_dof_owned/annexed/halo(d)`` return the last index of each group,
  ``get_undf`` the total.  A discontinuous space has no annexed DoFs.
* distributed memory off: "PSyclone must iterate over all dofs ... from 1 to
  the total number of dofs".
* distributed memory on: "each partition only iterates over owned dofs";
  with COMPUTE_ANNEXED_DOFS "loops which iterate over both owned and annexed
  dofs".  Reductions return the sum over owned DoFs only (property text; a
  global sum then adds the partitions' contributions: "these Built-ins will
  trigger the addition of a global sum").
* after Dynamo0p3RedundantComputationTrans(depth=d) the loop runs to the
  last halo DoF of depth d (no depth: the whole halo).

The comparison is made on a small concrete model of one partition per kind of
function space, so that two different bound expressions that denote the same
set of DoFs (e.g. last owned / last annexed DoF on a discontinuous space, or
any of them without distributed memory) are both accepted.
"""
import re


class RangeError(Exception):
    """The generated text has a shape this reader does not know: a harness
    error, never a verdict."""


# one partition: last index of each DoF group
MODEL = {
    # distributed memory: 4 owned, 2 annexed (continuous only), 3 + 3 halo
    (True, "continuous"): {"owned": 4, "annexed": 6, "halo1": 9, "halo2": 12,
                           "undf": 12},
    (True, "discontinuous"): {"owned": 4, "annexed": 4, "halo1": 7,
                              "halo2": 10, "undf": 10},
    # no distributed memory: one partition owns every DoF, there is no halo
    (False, "continuous"): {"owned": 6, "annexed": 6, "halo1": 6, "halo2": 6,
                            "undf": 6},
    (False, "discontinuous"): {"owned": 6, "annexed": 6, "halo1": 6,
                               "halo2": 6, "undf": 6},
}
MAX_DEPTH = 2


def documented_last(dm, annexed, is_reduction, redundant):
    """Name of the DoF group the loop must end at; None = the
    transformation has to be refused."""
    if not dm:
        return "undf"
    if redundant is not None:
        if is_reduction:
            return None
        return "undf" if redundant == 0 else f"halo{redundant}"
    if is_reduction:
        return "owned"
    return "annexed" if annexed else "owned"


_SUB = re.compile(r"^\s*SUBROUTINE\s+(\w+)\s*\((.*?)\)\s*$", re.I)
_END = re.compile(r"^\s*END\s+SUBROUTINE\s+(\w+)\s*$", re.I)
_ASSIGN = re.compile(r"^\s*(\w+)\s*=\s*(.+?)\s*$")
_DO = re.compile(r"^\s*DO\s+(\w+)\s*=\s*([^,]+?)\s*,\s*([^,]+?)\s*(?:,\s*(.+?)\s*)?$",
                 re.I)
_VSPACE = re.compile(r"^(\w+?)_proxy%vspace%(get_\w+)\((\w*)\)$", re.I)


def split_invokes(psy_text):
    """{subroutine name (lower case): [body lines]}"""
    out = {}
    name = None
    for line in psy_text.splitlines():
        mat = _SUB.match(line)
        if mat and name is None:
            name = mat.group(1).lower()
            out[name] = [line]
            continue
        if name is not None:
            out[name].append(line)
            mat = _END.match(line)
            if mat:
                if mat.group(1).lower() != name:
                    raise RangeError(f"unbalanced subroutine {name}")
                name = None
    if name is not None:
        raise RangeError(f"unterminated subroutine {name}")
    return out


def _resolve(expr, assigns, depth=0):
    expr = expr.strip()
    if depth > 4:
        raise RangeError(f"cyclic bound definition {expr}")
    if re.fullmatch(r"\w+", expr) and not expr.isdigit():
        if expr.lower() not in assigns:
            raise RangeError(f"bound variable '{expr}' is never assigned")
        vals = assigns[expr.lower()]
        if len(set(vals)) != 1:
            raise RangeError(f"bound variable '{expr}' assigned twice: {vals}")
        return _resolve(vals[0], assigns, depth + 1)
    return expr.replace(" ", "")


def classify(expr):
    """-> ('const', n) | (group name, field name)"""
    if re.fullmatch(r"\d+", expr):
        return ("const", int(expr))
    mat = _VSPACE.match(expr)
    if not mat:
        raise RangeError(f"unknown loop-bound expression '{expr}'")
    fld, func, arg = mat.group(1).lower(), mat.group(2).lower(), mat.group(3)
    if func == "get_undf" and not arg:
        return ("undf", fld)
    if func == "get_last_dof_owned" and not arg:
        return ("owned", fld)
    if func == "get_last_dof_annexed" and not arg:
        return ("annexed", fld)
    if func == "get_last_dof_halo":
        if not arg:
            return ("undf", fld)        # "the index of the last halo dof"
        if arg.isdigit() and 1 <= int(arg) <= MAX_DEPTH:
            return (f"halo{int(arg)}", fld)
        if arg.lower().startswith("max_halo_depth"):
            return ("undf", fld)
    raise RangeError(f"unknown loop-bound expression '{expr}'")


def dof_loops(body):
    """The loops over 'df' of one invoke subroutine:
    [{'lower': resolved text, 'upper': resolved text, 'step': text|None,
      'line': n, 'directives': [omp lines just before]}]"""
    assigns = {}
    for line in body:
        if line.lstrip().startswith("!"):
            continue
        mat = _ASSIGN.match(line)
        if mat and "%" not in mat.group(1):
            assigns.setdefault(mat.group(1).lower(), []).append(mat.group(2))
    loops = []
    for num, line in enumerate(body):
        mat = _DO.match(line)
        if not mat or mat.group(1).lower() != "df":
            continue
        directives = []
        back = num - 1
        while back >= 0 and body[back].lstrip().lower().startswith("!$omp"):
            directives.insert(0, body[back].strip())
            back -= 1
        loops.append({"lower": _resolve(mat.group(2), assigns),
                      "upper": _resolve(mat.group(3), assigns),
                      "step": (mat.group(4) or "").strip() or None,
                      "line": num, "directives": directives})
    return loops


def has_global_sum(body, scalar):
    """`global_sum%value = <scalar>` followed by `<scalar> = global_sum%get_sum()`
    after the DoF loop."""
    text = [l.strip().lower().replace(" ", "") for l in body
            if not l.lstrip().startswith("!")]
    try:
        end = max(i for i, l in enumerate(text) if l.startswith("enddo"))
    except ValueError:
        return False
    sca = scalar.lower()
    for idx in range(end, len(text) - 1):
        mat = re.fullmatch(rf"(\w+)%value={sca}", text[idx])
        if mat and text[idx + 1] == f"{sca}={mat.group(1)}%get_sum()":
            return True
    return False


def judge(body, builtin, field_names, is_reduction, scalar, dm, annexed,
          redundant=None):
    """Verdicts for one invoke subroutine holding ONE built-in.
    Returns a list of (kind, message); empty = conforming.  `field_names`:
    the names of the built-in's field arguments in this invoke."""
    loops = dof_loops(body)
    if len(loops) != 1:
        raise RangeError(f"{builtin}: {len(loops)} loops over df in the invoke")
    loop = loops[0]
    out = []
    if loop["step"] not in (None, "1"):
        out.append(("step", f"the DoF loop has step {loop['step']}"))
    lower = classify(loop["lower"])
    upper = classify(loop["upper"])
    want = documented_last(dm, annexed, is_reduction, redundant)
    if want is None:
        raise RangeError("judge() called for a configuration that must be refused")
    if upper[0] != "const" and upper[1] not in [f.lower() for f in field_names]:
        out.append(("foreign-bound",
                    f"the loop bound is taken from '{upper[1]}', which is not "
                    f"a field argument of the built-in ({field_names})"))
    for kind in ("continuous", "discontinuous"):
        model = MODEL[(dm, kind)]
        first = lower[1] if lower[0] == "const" else model[lower[0]]
        last = upper[1] if upper[0] == "const" else model[upper[0]]
        if first != 1:
            out.append((f"starts-at-{lower[0] if lower[0] != 'const' else first}",
                        f"the DoF loop starts at {loop['lower']} (documented: 1)"))
            break
        if last != model[want]:
            grp = upper[0] if upper[0] != "const" else str(upper[1])
            rcs = "" if redundant is None else \
                f", redundant computation to depth {redundant or 'max'}"
            out.append((f"to-{grp}-not-{want}",
                        f"on a {kind} space the DoF loop runs 1..{loop['upper']} "
                        f"(= DoFs 1..{last} of the model partition "
                        f"{_show(model)}); documented range for "
                        f"distributed_memory={dm}, COMPUTE_ANNEXED_DOFS={annexed}"
                        f"{', reduction' if is_reduction else ''}"
                        f"{rcs}"
                        f": 1..last {want} DoF (= 1..{model[want]})"))
            break
    if is_reduction and dm and not has_global_sum(body, scalar):
        out.append(("no-global-sum",
                    f"with distributed memory the partial sum '{scalar}' is "
                    f"not passed through a global sum"))
    return out, {"lower": loop["lower"], "upper": loop["upper"],
                 "directives": loop["directives"]}


def _show(model):
    return "/".join(f"{k}={v}" for k, v in model.items())
