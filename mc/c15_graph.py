"""C15 object-graph analysis of PSyIR trees (independent of PSyIR's own
``__eq__``/``copy``): a reflective traversal of nodes, symbol tables, symbols,
datatypes and interfaces that

* lists every *use* of a symbol object (anything that is not the symbol's own
  entry in its table) together with the route by which it is reached,
* produces a shape dump (names and values, no identities) used as an
  independent equality oracle,
* produces an identity-normalised fingerprint (creation-order ids, never
  ``id()`` values) used to count distinct states and to tell whether an edit
  did anything.

Only attribute values of the PSyclone classes listed in ``_kind`` plus
list/tuple/dict containers are followed; back links (``_parent``, ``_node``)
and fparser objects are not.
"""
import enum
import hashlib

# attributes that are back links, parse-tree links or bookkeeping flags which
# Node.copy() deliberately resets
SKIP = {"_parent", "_node", "_ast", "_ast_end", "_fp2_nodes",
        "_has_constructor_parent", "_disable_tree_update",
        "_argument_names", "_reference"}

_CLS = {}


def _classes():
    if not _CLS:
        from psyclone.psyir.nodes import Node
        from psyclone.psyir.symbols import Symbol, SymbolTable, DataType
        from psyclone.psyir.symbols.interfaces import SymbolInterface
        _CLS.update(Node=Node, Symbol=Symbol, SymbolTable=SymbolTable,
                    DataType=DataType, SymbolInterface=SymbolInterface)
    return _CLS


def _kind(obj):
    cls = _classes()
    if isinstance(obj, cls["Node"]):
        return "node"
    if isinstance(obj, cls["Symbol"]):
        return "symbol"
    if isinstance(obj, cls["SymbolTable"]):
        return "table"
    if isinstance(obj, cls["DataType"]):
        return "type"
    if isinstance(obj, cls["SymbolInterface"]):
        return "iface"
    if isinstance(obj, dict):
        return "dict"
    if isinstance(obj, (list, tuple)):
        return "seq"
    return "leaf"


def _leaf(obj):
    if obj is None or isinstance(obj, (bool, int, str, float)):
        return repr(obj)
    if isinstance(obj, enum.Enum):
        return f"{type(obj).__name__}.{obj.name}"
    if isinstance(obj, (set, frozenset)):
        return "{" + ",".join(sorted(_leaf(o) for o in obj)) + "}"
    mod = type(obj).__module__ or ""
    if mod.startswith("psyclone"):
        # e.g. Signature / CodeBlock.Structure: value objects
        return f"<{type(obj).__name__}:{obj}>"
    return f"<{type(obj).__name__}>"


def _attrs(obj):
    """(name, value) pairs of an object, deterministic order."""
    items = [(k, v) for k, v in sorted(vars(obj).items()) if k not in SKIP]
    if _kind(obj) == "node":
        # Call keeps python ids in _argument_names: use the public view
        if hasattr(obj, "argument_names") and "_argument_names" in vars(obj):
            items.append(("argument_names", list(obj.argument_names)))
    return items


class Walk:
    """One traversal over one or more roots.

    uses    : [(route, symbol, holder)]  in deterministic order; route is a
              tuple of 'Class.attr' hops from the last anchor (a tree node or
              a symbol owned by one of the traversed tables)
    objs    : {kind: [objects]} every node/table/type/iface object reached
    own     : {id(symbol): (table_index, key)} symbols owned by traversed tables
    tables  : [SymbolTable] in traversal order
    shape   : list of strings, identity-free dump
    ident   : list of strings, identity-normalised dump
    """

    def __init__(self, roots):
        self.uses = []
        self.objs = {"node": [], "enode": [], "table": [], "type": [],
                     "iface": [], "symbol": []}
        self.own = {}
        self.tables = []
        self.shape = []
        self.ident = []
        self._ids = {}
        self._keep = []
        self._seen_tree = set()
        for root in roots:
            self._visit(root, (), True)

    # -- helpers ----------------------------------------------------------
    def _num(self, obj):
        key = id(obj)
        if key not in self._ids:
            self._ids[key] = len(self._ids)
            self._keep.append(obj)
        return self._ids[key]

    def _emit(self, shape, ident=None):
        self.shape.append(shape)
        self.ident.append(shape if ident is None else ident)

    # -- traversal --------------------------------------------------------
    def _visit(self, obj, route, tree_pos, holder=None):
        """tree_pos: obj is visited as a member of the tree proper (child of
        a tree node, table of a scoping node, entry of a table).  Nodes that
        are visited with tree_pos False are expressions embedded in symbols
        or datatypes (initial values, array bounds)."""
        kind = _kind(obj)
        if kind == "leaf":
            self._emit("=" + _leaf(obj))
            return
        if kind == "seq":
            self._emit(f"[{type(obj).__name__}:{len(obj)}")
            for item in obj:
                self._visit(item, route, tree_pos, holder)
            self._emit("]")
            return
        if kind == "dict":
            self._emit(f"{{dict:{len(obj)}")
            for key, val in obj.items():
                self._emit("k=" + _leaf(key))
                self._visit(val, route, tree_pos, holder)
            self._emit("}")
            return
        cname = type(obj).__name__
        if kind == "symbol" and not tree_pos:
            # a use of a symbol: terminal
            self.uses.append((route, obj, holder))
            self._emit(f"use:{cname}:{obj.name.lower()}",
                       f"use:{cname}:{obj.name.lower()}#{self._num(obj)}")
            return
        first = id(obj) not in self._seen_tree
        self._seen_tree.add(id(obj))
        num = self._num(obj)
        self._emit(f"({cname}", f"({cname}#{num}")
        if kind == "node" and not tree_pos:
            kind = "enode"
        if not first and kind in ("node", "table", "symbol"):
            # a tree node/table/own symbol reached twice (ill-formed tree):
            # keep the dump finite
            self._emit("again)")
            return
        if first:
            self.objs[kind].append(obj)
        if kind == "table":
            tidx = len(self.tables)
            self.tables.append(obj)
            for key, sym in obj._symbols.items():
                self.own[id(sym)] = (tidx, key)
        for name, val in _attrs(obj):
            self._emit("." + name)
            hop = f"{cname}.{name}"
            if kind == "node":
                if name == "_children":
                    for child in val:
                        self._visit(child, (), True)
                elif name == "_symbol_table":
                    self._visit(val, (), True)
                else:
                    self._visit(val, (hop,), False, obj)
            elif kind == "table":
                if name == "_symbols":
                    for key, sym in val.items():
                        self._emit("k=" + key)
                        self._visit(sym, (), True)
                else:
                    self._visit(val, (f"SymbolTable.{name}",), False, obj)
            elif kind == "symbol":
                self._visit(val, (hop,), False, obj)
            elif kind == "enode" and name == "_children":
                for child in val:
                    self._visit(child, route, False, holder)
            else:
                self._visit(val, route + (hop,), False, holder)
        self._emit(")")

    def digest(self, which="ident"):
        data = "\n".join(self.ident if which == "ident" else self.shape)
        return hashlib.blake2b(data.encode(), digest_size=8).hexdigest()


def fingerprint(roots):
    return Walk(roots).digest("ident")


def category(route):
    """Coarse, stable name of the way a symbol is referred to."""
    if not route:
        return "tree:?"
    head = route[0]
    hcls, hattr = head.split(".", 1)
    hops = [h.split(".", 1) for h in route]
    attrs = [a for _c, a in hops]
    classes = [c for c, _a in hops]
    if hcls == "SymbolTable":
        return f"table:{hattr.lstrip('_')}"
    # is the anchor a symbol class?  (all symbol classes end in 'Symbol')
    if hcls.endswith("Symbol"):
        if "StructureType" in classes:
            return "decl:struct-component"
        if hattr == "_initial_value":
            return "decl:initial-value"
        if hattr == "_interface":
            return "decl:import-container"
        if hattr == "_routines":
            return "decl:generic-routine"
        if hattr == "_datatype":
            if len(route) == 1:
                return "decl:type-symbol"
            if "_shape" in attrs:
                return "decl:array-bound"
            if attrs[-1] == "_precision":
                return "decl:precision"
            if attrs[-1] == "_datatype":
                return "decl:type-symbol"
        return "decl:other(" + ">".join(route) + ")"
    # anchor is a tree node
    if hcls == "Literal" and attrs[-1] == "_precision":
        return "tree:Literal.precision"
    if len(route) == 1:
        if hattr == "_symbol":
            return "tree:Reference.symbol"
        if hcls.endswith("Loop") and hattr == "_variable":
            return "tree:Loop.variable"
        return f"tree:{hcls}.{hattr.lstrip('_')}"
    return "tree:other(" + ">".join(route) + ")"
