"""Intrinsic functions / subroutines for the E1 interpreter (Fortran semantics,
exact arithmetic)."""
from fractions import Fraction

from psyclone.psyir import nodes as N

from mc.fortsem.interp import (
    POISON, UB, Unsupported, ArrVal, ArrayVal, Cell, StructVal, elementwise,
    f_div, f_int, f_mod, f_nint, _isint, _isnum, _size, convert)


def _args(node):
    """positional args and dict of named args (lower-case)."""
    pos, named = [], {}
    for arg, name in zip(node.arguments, node.argument_names):
        if name is None:
            pos.append(arg)
        else:
            named[name.lower()] = arg
    return pos, named


def _nopoison(func):
    def wrapped(*vals):
        if any(v is POISON for v in vals):
            return POISON
        return func(*vals)
    return wrapped


def _abs(val):
    if not _isnum(val):
        raise UB("type", "abs")
    return -val if val < 0 else val


def _sign(lhs, rhs):
    if not (_isnum(lhs) and _isnum(rhs)):
        raise UB("type", "sign")
    mag = -lhs if lhs < 0 else lhs
    if _isint(lhs) != _isint(rhs):
        raise UB("type", "sign with mixed types")
    return mag if rhs >= 0 else -mag


def _minmax(which):
    def func(*vals):
        if not all(_isnum(v) for v in vals):
            raise UB("type", which)
        if len({_isint(v) for v in vals}) > 1:
            raise UB("type", f"{which} with mixed types")
        return min(vals) if which == "MIN" else max(vals)
    return func


def _real(val):
    if not _isnum(val):
        raise UB("type", "real()")
    return Fraction(val)


def _floor(val):
    if not _isnum(val):
        raise UB("type", "floor")
    return val if _isint(val) else (val.numerator // val.denominator)


def _ceiling(val):
    if not _isnum(val):
        raise UB("type", "ceiling")
    return val if _isint(val) else -((-val.numerator) // val.denominator)


def _sqrt(val):
    if not _isnum(val) or val < 0:
        raise UB("type", "sqrt")
    frac = Fraction(val)
    import math
    num, den = math.isqrt(frac.numerator), math.isqrt(frac.denominator)
    if num * num == frac.numerator and den * den == frac.denominator:
        return Fraction(num, den)
    raise UB("inexact", "sqrt")


def _merge(tsrc, fsrc, mask):
    if mask is POISON:
        return POISON
    if not isinstance(mask, bool):
        raise UB("type", "merge mask")
    return tsrc if mask else fsrc


def _modulo(lhs, rhs):
    """MODULO(a, p) = a - FLOOR(a / p) * p (result has the sign of p)."""
    if not (_isnum(lhs) and _isnum(rhs)):
        raise UB("type", "modulo")
    if _isint(lhs) != _isint(rhs):
        raise UB("type", "modulo with mixed types")
    if rhs == 0:
        raise UB("divzero", "modulo")
    if _isint(lhs):
        return lhs - (lhs // rhs) * rhs      # Python // floors
    quo = Fraction(lhs) / Fraction(rhs)
    return Fraction(lhs) - (quo.numerator // quo.denominator) * Fraction(rhs)


ELEMENTAL = {
    "ABS": _nopoison(_abs),
    "SIGN": _nopoison(_sign),
    "MIN": _nopoison(_minmax("MIN")),
    "MAX": _nopoison(_minmax("MAX")),
    "MOD": _nopoison(f_mod),
    "MODULO": _nopoison(_modulo),
    "INT": _nopoison(lambda v, *k: f_int(v)),
    "NINT": _nopoison(lambda v, *k: f_nint(v)),
    "REAL": _nopoison(lambda v, *k: _real(v)),
    "DBLE": _nopoison(_real),
    "FLOOR": _nopoison(lambda v, *k: _floor(v)),
    "CEILING": _nopoison(lambda v, *k: _ceiling(v)),
    "SQRT": _nopoison(_sqrt),
    "MERGE": _merge,
}


def _array_arg(interp, node, frame, inquiry=False):
    """Evaluate an argument that must be an array; returns ArrayVal (for
    designators) or ArrVal."""
    if isinstance(node, N.Reference) and not isinstance(node, N.Call):
        stor = interp.designator(node, frame)
        if isinstance(stor, ArrayVal):
            return stor
        if inquiry:
            return stor
        return interp.read(stor, node)
    return interp.eval(node, frame)


def _as_arrval(interp, obj, node):
    if isinstance(obj, ArrayVal):
        return interp.read(obj, node)
    if isinstance(obj, ArrVal):
        return obj
    raise UB("type", "array argument expected")


def _dim_value(interp, named, pos, index, frame):
    node = named.get("dim")
    if node is None and len(pos) > index:
        node = pos[index]
    if node is None:
        return None
    return interp._int(interp.eval(node, frame), "dim")


def _reduce_along(arr, dim, func, init, mask=None):
    """Reduce ArrVal `arr` along 1-based `dim` -> ArrVal of rank-1 lower."""
    shape = arr.shape
    rank = len(shape)
    if dim < 1 or dim > rank:
        raise UB("dim", f"dim={dim} for rank {rank}")
    out_shape = tuple(s for k, s in enumerate(shape) if k != dim - 1)
    strides = []
    mult = 1
    for ext in shape:
        strides.append(mult)
        mult *= ext
    out_vals = []
    import itertools
    ranges = [range(s) for k, s in reversed(list(enumerate(shape)))
              if k != dim - 1]
    for combo in itertools.product(*ranges):
        combo = list(reversed(combo))
        idx = combo[:dim - 1] + [0] + combo[dim - 1:]
        acc = init
        for k in range(shape[dim - 1]):
            idx[dim - 1] = k
            flat = sum(i * s for i, s in zip(idx, strides))
            if mask is not None:
                mval = mask.vals[flat] if isinstance(mask, ArrVal) else mask
                if mval is POISON:
                    raise UB("poison-control", "reduction mask")
                if not mval:
                    continue
            acc = func(acc, arr.vals[flat])
        out_vals.append(acc)
    if not out_shape:
        return out_vals[0]
    return ArrVal(out_shape, out_vals)


_NOVAL = object()


def _red_func(name):
    if name == "SUM":
        return (lambda a, b: POISON if (a is POISON or b is POISON) else a + b)
    if name == "PRODUCT":
        return (lambda a, b: POISON if (a is POISON or b is POISON) else a * b)
    if name == "MAXVAL":
        def fmax(acc, val):
            if acc is _NOVAL:
                return val
            if acc is POISON or val is POISON:
                return POISON
            return max(acc, val)
        return fmax

    def fmin(acc, val):
        if acc is _NOVAL:
            return val
        if acc is POISON or val is POISON:
            return POISON
        return min(acc, val)
    return fmin


def _reduction(interp, node, frame, name):
    pos, named = _args(node)
    arrnode = named.get("array", pos[0] if pos else None)
    arr = _as_arrval(interp, _array_arg(interp, arrnode, frame), arrnode)
    # positional: (array, dim, mask) or (array, mask)
    dim = None
    mask = None
    rest = pos[1:]
    if "dim" in named:
        dim = interp._int(interp.eval(named["dim"], frame), "dim")
    if "mask" in named:
        mask = interp.eval(named["mask"], frame)
    for extra in rest:
        val = interp.eval(extra, frame)
        if isinstance(val, ArrVal) or isinstance(val, bool):
            mask = val
        else:
            dim = interp._int(val, "dim")
    if isinstance(mask, ArrVal) and mask.shape != arr.shape:
        raise UB("shape", "mask shape")
    func = _red_func(name)
    numeric_int = all(_isint(v) for v in arr.vals if v is not POISON)
    if name == "SUM":
        init = 0 if numeric_int else Fraction(0)
    elif name == "PRODUCT":
        init = 1 if numeric_int else Fraction(1)
    else:
        init = _NOVAL
    if dim is not None and len(arr.shape) > 1:
        res = _reduce_along(arr, dim, func, init, mask)
    else:
        if dim is not None and dim != 1:
            raise UB("dim", f"dim={dim} for rank 1")
        acc = init
        for k, val in enumerate(arr.vals):
            if mask is not None:
                mval = mask.vals[k] if isinstance(mask, ArrVal) else mask
                if mval is POISON:
                    raise UB("poison-control", "reduction mask")
                if not mval:
                    continue
            acc = func(acc, val)
        res = acc
    if res is _NOVAL or (isinstance(res, ArrVal) and
                         any(v is _NOVAL for v in res.vals)):
        # MAXVAL/MINVAL of an empty set: -HUGE / HUGE, not representable here
        raise UB("empty-extremum", name)
    return res


def _inquiry_array(interp, node, frame):
    stor = _array_arg(interp, node, frame, inquiry=True)
    if isinstance(stor, ArrVal):
        return [(1, e) for e in stor.shape]
    if not isinstance(stor, ArrayVal):
        raise UB("type", "inquiry on scalar")
    return stor.bounds


def evaluate(interp, node, frame):
    name = node.intrinsic.name
    pos, named = _args(node)
    if name in ("SIZE", "LBOUND", "UBOUND"):
        bounds = _inquiry_array(interp, named.get("array", pos[0]), frame)
        dim = _dim_value(interp, named, pos, 1, frame)
        if name == "SIZE":
            if dim is None:
                return _size(tuple(max(0, h - l + 1) for l, h in bounds))
            if dim < 1 or dim > len(bounds):
                raise UB("dim", "size")
            low, high = bounds[dim - 1]
            return max(0, high - low + 1)
        if dim is None:
            vals = []
            for low, high in bounds:
                empty = high < low
                vals.append((1 if empty else low) if name == "LBOUND"
                            else (0 if empty else high))
            return ArrVal((len(bounds),), vals)
        if dim < 1 or dim > len(bounds):
            raise UB("dim", name)
        low, high = bounds[dim - 1]
        if high < low:
            return 1 if name == "LBOUND" else 0
        return low if name == "LBOUND" else high
    if name == "ALLOCATED":
        stor = interp.designator(pos[0], frame)
        return bool(isinstance(stor, ArrayVal) and stor.allocated)
    if name == "KIND":
        val = interp.eval(pos[0], frame)
        if isinstance(val, Fraction):
            text = getattr(pos[0], "value", "")
            return 8 if "d" in str(text).lower() else 4
        return 4
    if name in ("HUGE", "TINY", "EPSILON"):
        from psyclone.psyir.symbols import ScalarType
        try:
            is_int = pos[0].datatype.intrinsic == ScalarType.Intrinsic.INTEGER
        except Exception:  # pylint: disable=broad-except
            is_int = False
        if name == "HUGE":
            return 2 ** 31 - 1 if is_int else \
                (2 - Fraction(1, 2 ** 23)) * Fraction(2) ** 127
        if is_int:
            raise UB("type", f"{name} of integer")
        return Fraction(1, 2 ** 126) if name == "TINY" else Fraction(1, 2 ** 23)
    if name == "PRESENT":
        sym = pos[0].symbol
        return id(sym) in frame.store
    if name in ELEMENTAL:
        allargs = list(pos)
        if name in ("INT", "REAL", "NINT", "FLOOR", "CEILING"):
            allargs = pos[:1] if "a" not in named else [named["a"]]
        elif name == "MERGE":
            allargs = [named.get("tsource", pos[0] if pos else None),
                       named.get("fsource", pos[1] if len(pos) > 1 else None),
                       named.get("mask", pos[2] if len(pos) > 2 else None)]
        elif named:
            # a, b / a, p / a1, a2, ... keep source order
            allargs = list(node.arguments)
        vals = [interp.eval(a, frame) for a in allargs]
        return elementwise(ELEMENTAL[name], *vals)
    if name in ("SUM", "PRODUCT", "MAXVAL", "MINVAL"):
        return _reduction(interp, node, frame, name)
    if name == "DOT_PRODUCT":
        lhs = _as_arrval(interp, _array_arg(interp, pos[0], frame), pos[0])
        rhs = _as_arrval(interp, _array_arg(interp, pos[1], frame), pos[1])
        if len(lhs.shape) != 1 or lhs.shape != rhs.shape:
            raise UB("shape", "dot_product")
        acc = 0
        for one, two in zip(lhs.vals, rhs.vals):
            if one is POISON or two is POISON or acc is POISON:
                acc = POISON
            else:
                acc = acc + one * two
        return acc
    if name == "MATMUL":
        lhs = _as_arrval(interp, _array_arg(interp, pos[0], frame), pos[0])
        rhs = _as_arrval(interp, _array_arg(interp, pos[1], frame), pos[1])
        return _matmul(lhs, rhs)
    if name == "TRANSPOSE":
        arr = _as_arrval(interp, _array_arg(interp, pos[0], frame), pos[0])
        if len(arr.shape) != 2:
            raise UB("shape", "transpose")
        rows, cols = arr.shape
        vals = [arr.vals[i + j * rows] for i in range(rows) for j in range(cols)]
        return ArrVal((cols, rows), vals)
    if interp.hooks is not None and hasattr(interp.hooks, "intrinsic"):
        res = interp.hooks.intrinsic(interp, node, frame)
        if res is not NotImplemented:
            return res
    raise Unsupported(f"intrinsic function {name}")


def _matmul(lhs, rhs):
    def mul_add(acc, one, two):
        if acc is POISON or one is POISON or two is POISON:
            return POISON
        return acc + one * two
    if len(lhs.shape) == 2 and len(rhs.shape) == 1:
        rows, inner = lhs.shape
        if inner != rhs.shape[0]:
            raise UB("shape", "matmul")
        out = []
        for i in range(rows):
            acc = 0
            for k in range(inner):
                acc = mul_add(acc, lhs.vals[i + k * rows], rhs.vals[k])
            out.append(acc)
        return ArrVal((rows,), out)
    if len(lhs.shape) == 2 and len(rhs.shape) == 2:
        rows, inner = lhs.shape
        inner2, cols = rhs.shape
        if inner != inner2:
            raise UB("shape", "matmul")
        out = []
        for j in range(cols):
            for i in range(rows):
                acc = 0
                for k in range(inner):
                    acc = mul_add(acc, lhs.vals[i + k * rows],
                                  rhs.vals[k + j * inner])
                out.append(acc)
        return ArrVal((rows, cols), out)
    if len(lhs.shape) == 1 and len(rhs.shape) == 2:
        inner, cols = rhs.shape
        if inner != lhs.shape[0]:
            raise UB("shape", "matmul")
        out = []
        for j in range(cols):
            acc = 0
            for k in range(inner):
                acc = mul_add(acc, lhs.vals[k], rhs.vals[k + j * inner])
            out.append(acc)
        return ArrVal((cols,), out)
    raise UB("shape", "matmul ranks")


def execute(interp, node, frame):
    """Intrinsic subroutines / statements."""
    name = node.intrinsic.name
    pos, named = _args(node)
    if name == "ALLOCATE":
        for arg in pos:
            if not isinstance(arg, N.ArrayReference):
                raise Unsupported("allocate of non-array")
            arr = interp.storage(arg.symbol, frame, arg)
            if not isinstance(arr, ArrayVal):
                raise UB("type", "allocate")
            if arr.allocated:
                raise UB("allocated", "already allocated")
            bounds = []
            for idx in arg.indices:
                if isinstance(idx, N.Range):
                    bounds.append((interp._int(interp.eval(idx.start, frame), "alloc"),
                                   interp._int(interp.eval(idx.stop, frame), "alloc")))
                else:
                    bounds.append((1, interp._int(interp.eval(idx, frame), "alloc")))
            arr.bounds = bounds
            from mc.fortsem.interp import index_tuples
            arr.cells = [Cell((arr.name, idx), arr.typ, parent=arr, pos=p)
                         for p, idx in enumerate(index_tuples(bounds))]
            arr.allocated = True
        if "stat" in named:
            cell = interp.designator(named["stat"], frame)
            interp._wr(cell, 0, named["stat"])
        return
    if name == "DEALLOCATE":
        for arg in pos:
            arr = interp.designator(arg, frame)
            if not isinstance(arr, ArrayVal) or not arr.allocated:
                raise UB("unallocated", "deallocate")
            arr.allocated = False
            arr.cells = []
        if "stat" in named:
            cell = interp.designator(named["stat"], frame)
            interp._wr(cell, 0, named["stat"])
        return
    if interp.hooks is not None and hasattr(interp.hooks, "intrinsic_stmt"):
        if interp.hooks.intrinsic_stmt(interp, node, frame):
            return
    raise Unsupported(f"intrinsic subroutine {name}")
