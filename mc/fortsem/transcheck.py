"""Generic 'accepted transformation preserves the store' engine (C05, C06,
C07): parse a program, enumerate (transformation, target, options) attempts,
apply each to a fresh parse, and compare E1 runs on every enumerated input."""
import traceback

from psyclone.psyir.frontend.fortran import FortranReader
from psyclone.psyir.backend.fortran import FortranWriter
from psyclone.psyir.transformations import TransformationError
from psyclone.psyir import nodes as N

from mc.fortsem import equiv, interp as I


class Attempt:
    """One (transformation, target, options) attempt.
    locate(tree) -> tuple of arguments for trans.apply (nodes of a FRESH tree)."""

    def __init__(self, label, make_trans, locate, options=None):
        self.label = label
        self.make_trans = make_trans
        self.locate = locate
        self.options = options


class InvalidResult(Exception):
    """Raised by an `exec_view` callable: the accepted result is not a program
    any more (cannot be written, re-read, or uses undeclared names).
    `tag` is a short stable description used in the signature."""

    def __init__(self, tag, msg=""):
        super().__init__(f"{tag}: {msg}" if msg else tag)
        self.tag = tag


def nth(cls, index):
    """Locator: the index-th node of class cls in walk order."""
    def locate(tree):
        return (tree.walk(cls)[index],)
    return locate


def parse(src):
    return FortranReader().psyir_from_source(src)


def write(tree):
    try:
        return FortranWriter()(tree)
    except Exception as err:  # pylint: disable=broad-except
        return f"<writer failed: {err}>"


def check_program(key, src, attempts_fn, inputs, routine="s", horizon=100000,
                  prepare=None, sig_fn=None, monitor=None, exec_view=None,
                  fresh_parse=False, diag_fn=None, consume_tree=False):
    """inputs: list of (input key, callable -> list of argument storage).
    prepare: optional callable applied to the parsed tree (builds program
    variants that only the PSyIR API can express).
    monitor: optional factory, called once per run of the ORIGINAL program;
    the object's `hooks` / `tracer` attributes are handed to E1 (extra
    admissibility filters raising interp.UB, e.g. Fortran's aliasing rules).
    exec_view: optional callable(transformed tree) -> tree that is executed
    instead (e.g. FortranWriter output re-read by the frontend, so that names
    are resolved as in the generated source); raises InvalidResult when the
    result is not a program.
    fresh_parse: every attempt works on a new parse of `src` instead of
    tree.copy() (no copy guard needed).
    consume_tree (with fresh_parse): the last attempt is applied to the
    originally parsed tree itself (saves one parse per program); diag_fn and
    the message then get a new parse of `src` as the original.
    diag_fn: optional callable(tree, fresh, run_tree, attempt, bad, inputs,
    orig) -> short mechanism tag, passed to sig_fn as a 5th argument and
    appended to the message.
    Returns a result dict in the runner's format."""
    classes = {}
    viol = []

    def count(cls):
        classes[cls] = classes.get(cls, 0) + 1

    tree = parse(src)
    if prepare is not None:
        prepare(tree)
    # -- original runs
    orig = {}
    for ikey, make in inputs:
        args = make()
        mon = monitor() if monitor is not None else None
        res = equiv.run(tree, routine, args, horizon=horizon,
                        hooks=getattr(mon, "hooks", None),
                        tracer=getattr(mon, "tracer", None))
        if res[0] == "ok":
            orig[ikey] = equiv.observe(args)
        elif res[0] == "unsupported":
            raise RuntimeError(f"E1 cannot run original program {key}: {res[1]}\n{src}")
        else:
            count(f"orig-inadmissible:{res[1]}")
    attempts = list(attempts_fn(tree))
    evals = 0
    accepted = 0
    # Attempts work on copies of the parsed tree (parsing costs 15-40 ms, a
    # copy 1 ms).  Guard: the copy must write to the same text as the tree
    # it was taken from (checked once per program).
    if attempts and not fresh_parse and write(tree.copy()) != write(tree):
        raise RuntimeError(f"copy of program {key} does not write identically")
    for num, att in enumerate(attempts):
        evals += 1
        if fresh_parse and consume_tree and num == len(attempts) - 1:
            fresh = tree
            tree = None
        elif fresh_parse:
            fresh = parse(src)
            if prepare is not None:
                prepare(fresh)
        else:
            fresh = tree.copy()
        try:
            targets = att.locate(fresh)
        except IndexError:
            raise RuntimeError(f"locator failed for {att.label} on {key}")
        trans = att.make_trans()
        try:
            if att.options is None:
                trans.apply(*targets)
            else:
                trans.apply(*targets, att.options)
        except TransformationError:
            count(f"{type(trans).__name__}:refused")
            continue
        except Exception as err:  # pylint: disable=broad-except
            # Not a clean refusal, but no wrong code is produced either:
            # counted, not judged (the property allows refusal).
            count(f"{type(trans).__name__}:raised-{type(err).__name__}")
            continue
        accepted += 1
        count(f"{type(trans).__name__}:accepted")
        bad = []
        run_tree = fresh
        if exec_view is not None and orig:
            try:
                run_tree = exec_view(fresh)
            except InvalidResult as err:
                run_tree = None
                bad.append((f"invalid:{err.tag}",
                            f"the transformed program is not valid ({err})"))
        for ikey, make in inputs:
            if ikey not in orig or run_tree is None:
                continue
            args = make()
            res = equiv.run(run_tree, routine, args, horizon=horizon)
            if res[0] == "unsupported":
                raise RuntimeError(
                    f"E1 cannot run transformed program {key} / {att.label}: "
                    f"{res[1]}\n{write(fresh)}")
            if res[0] == "ub":
                bad.append((ikey, f"transformed program is undefined ({res[2]}) "
                                  f"where the original is defined"))
                continue
            diff = equiv.first_difference(orig[ikey], equiv.observe(args))
            if diff is not None:
                loc, want, got = diff
                bad.append((ikey, f"{equiv.show_loc(loc)} = {equiv.show_val(got)} "
                                  f"instead of {equiv.show_val(want)}"))
        if bad:
            tname = type(trans).__name__
            where = ",".join(b[0] for b in bad)
            short = where
            if len(short) > 40:
                # long lists of failing inputs: count + checksum keep the
                # signature sensitive to any change of the failing set
                import zlib
                short = (f"{len(bad)}of{len(orig)}inputs#"
                         f"{zlib.crc32(where.encode()) & 0xffffffff:08x}")
            if tree is None:
                tree = parse(src)
                if prepare is not None:
                    prepare(tree)
            diag = None
            if diag_fn is not None:
                diag = diag_fn(tree, fresh, run_tree, att, bad, inputs, orig)
            if sig_fn is None:
                sig = f"{att.label}|{key}|bad@{short}"
            elif diag_fn is not None:
                sig = sig_fn(tname, att.label, key, [b[0] for b in bad], diag)
            else:
                sig = sig_fn(tname, att.label, key, [b[0] for b in bad])
            viol.append({
                "key": f"{key}|{att.label}",
                "sig": sig,
                "group": tname,
                "msg": f"{att.label} accepted on program {key}; wrong on inputs "
                       f"{where}; e.g. input {bad[0][0]}: {bad[0][1]}."
                       + (f" [{diag}]" if diag else "") + "\n"
                       f"--- original ---\n{write(tree) if prepare else src}"
                       f"--- transformed ---\n{write(fresh)}",
                "case": {"src": src, "label": att.label, "key": key,
                         "inputs": where},
            })
    return {"evals": evals, "nontrivial": accepted, "states": evals,
            "transitions": accepted * max(1, len(orig)),
            "validated": accepted, "classes": classes, "viol": viol,
            "sample": {"program": key, "attempts": len(attempts),
                       "accepted": accepted,
                       "admissible_inputs": sorted(orig)}}


def merge_results(results):
    out = {"evals": 0, "nontrivial": 0, "states": 0, "transitions": 0,
           "validated": 0, "classes": {}, "viol": []}
    for res in results:
        for name in ("evals", "nontrivial", "states", "transitions", "validated"):
            out[name] += res[name]
        for cls, num in res["classes"].items():
            out["classes"][cls] = out["classes"].get(cls, 0) + num
        out["viol"] += res["viol"]
        out["sample"] = res.get("sample")
    return out
