"""Store-equivalence harness on top of the E1 interpreter: run a routine of an
original and of a transformed PSyIR tree on the same enumerated inputs and
compare every observable (dummy argument / module variable) cell."""
from fractions import Fraction as F

from mc.fortsem import interp as I


def std_inputs(nval, kval=2):
    """Argument storage for the generic loop-program signature
    s(n, m, k, t, u, a, b, c, q) with m = n + 1.  All values distinct and
    exactly representable."""
    mval = nval + 1
    rng = range(0, mval + 1)
    return [
        I.make_scalar("n", "int", nval),
        I.make_scalar("m", "int", mval),
        I.make_scalar("k", "int", kval),
        I.make_scalar("t", "real", F(7, 2)),
        I.make_scalar("u", "real", F(-3, 2)),
        I.make_array("a", "real", [(0, mval)], [F(2 * i + 1, 2) for i in rng]),
        I.make_array("b", "real", [(0, mval)], [F(10 + 2 * i) for i in rng]),
        I.make_array("c", "real", [(0, mval)], [F(-4 * i - 1, 4) for i in rng]),
        I.make_array("q", "real", [(0, mval), (0, mval)],
                     [F(800 + 80 * i + 8 * j + 1, 8) for j in rng for i in rng]),
        I.make_array("iv", "int", [(0, mval)], [i % 3 for i in rng]),
    ]


def run(tree, name, args, hooks=None, horizon=100000, tracer=None):
    """Returns ('ok', interp) | ('ub', kind, msg) | ('unsupported', msg)."""
    it = I.Interp(tree, hooks=hooks, horizon=horizon, tracer=tracer)
    try:
        it.run(name, args)
    except I.UB as err:
        return ("ub", err.kind, str(err))
    except I.Unsupported as err:
        return ("unsupported", str(err))
    except RecursionError:
        return ("ub", "recursion", "python recursion limit")
    return ("ok", it)


def observe(args):
    """Flat dict location -> value for a list of argument storage objects."""
    out = {}
    for stor in args:
        if isinstance(stor, I.Cell):
            out[stor.loc] = stor.v
        elif isinstance(stor, I.ArrayVal):
            for cell in stor.cells:
                out[cell.loc] = cell.v
        elif isinstance(stor, I.StructVal):
            _observe_struct(stor, out)
    return out


def _observe_struct(stor, out):
    for _name, sub in sorted(stor.members.items()):
        if isinstance(sub, I.Cell):
            if isinstance(sub.v, I.StructVal):
                _observe_struct(sub.v, out)
            else:
                out[sub.loc] = sub.v
        elif isinstance(sub, I.ArrayVal):
            for cell in sub.cells:
                if isinstance(cell.v, I.StructVal):
                    _observe_struct(cell.v, out)
                else:
                    out[cell.loc] = cell.v
        else:
            _observe_struct(sub, out)


def first_difference(orig, new):
    """orig/new: dicts from observe().  A location that is POISON (undefined)
    after the original run is not observable and is never compared."""
    for loc in sorted(orig, key=str):
        want = orig[loc]
        if want is I.POISON:
            continue
        got = new.get(loc, "<missing>")
        if got is I.POISON or got != want:
            return loc, want, got
    return None


def show_loc(loc):
    name = loc[0]
    rest = "".join(str(p) if not isinstance(p, tuple) else
                   ("(" + ",".join(str(x) for x in p) + ")" if p else "")
                   for p in loc[1:])
    return f"{name}{rest}"


def show_val(val):
    if isinstance(val, F):
        return str(float(val)) if val.denominator in (1, 2, 4, 8, 16) else str(val)
    return repr(val)
