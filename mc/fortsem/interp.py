"""E1: exact reference interpreter for language-level PSyIR.

Values: INTEGER = int (Fortran truncating semantics), REAL = Fraction (exact),
LOGICAL = bool, CHARACTER = str.  Every storage cell starts as POISON
(undefined); POISON propagates through arithmetic.  A run that does something
the Fortran standard leaves undefined (out-of-bounds access, division by zero,
POISON steering control flow or a subscript, step horizon exceeded, ...)
raises ``UB``: callers treat the (program, input) pair as *inadmissible*.

Memory is made of ``Cell`` objects.  Each cell carries ``loc`` =
(name of the variable that allocated it, index tuple [, member path]) so that
accesses through dummy arguments, sections and sequence association report the
true memory location.  An optional ``tracer`` receives every read / write.
"""
import itertools
from fractions import Fraction

from psyclone.psyir import nodes as N
from psyclone.psyir.symbols import (
    ArrayType, DataSymbol, DataTypeSymbol, ScalarType, StructureType,
    UnresolvedType, UnsupportedFortranType, RoutineSymbol)
from psyclone.psyir.symbols.interfaces import (
    ArgumentInterface, ImportInterface, UnresolvedInterface)


class UB(Exception):
    """Undefined / out-of-model behaviour: the run is inadmissible."""

    def __init__(self, kind, msg=""):
        super().__init__(f"{kind}: {msg}")
        self.kind = kind


class Unsupported(Exception):
    """The interpreter does not model this construct (harness limitation)."""


class _Poison:
    __slots__ = ()

    def __repr__(self):
        return "POISON"


POISON = _Poison()


class Cell:
    """One scalar storage location."""
    __slots__ = ("v", "loc", "typ", "parent", "pos")

    def __init__(self, loc, typ, val=POISON, parent=None, pos=0):
        self.v = val
        self.loc = loc
        self.typ = typ          # 'int' | 'real' | 'bool' | 'char' | 'struct' | None
        self.parent = parent    # ArrayVal that allocated the cell (or None)
        self.pos = pos          # flat position in parent

    def __repr__(self):
        return f"Cell({self.loc}={self.v})"


class ArrayVal:
    """An array object: bounds + cells in column-major order.  Sections and
    dummy arguments are further ArrayVal objects sharing the same cells."""
    __slots__ = ("bounds", "cells", "typ", "name", "allocated")

    def __init__(self, bounds, cells, typ, name, allocated=True):
        self.bounds = bounds    # list of (lo, hi)
        self.cells = cells
        self.typ = typ
        self.name = name
        self.allocated = allocated

    @property
    def shape(self):
        return tuple(max(0, hi - lo + 1) for lo, hi in self.bounds)

    def flat(self, idx):
        if len(idx) != len(self.bounds):
            raise UB("rank", f"{self.name}: {len(idx)} subscripts for rank "
                             f"{len(self.bounds)}")
        pos, mult = 0, 1
        for val, (low, high) in zip(idx, self.bounds):
            if not isinstance(val, int) or isinstance(val, bool):
                raise UB("subscript", f"{self.name}{idx}")
            if val < low or val > high:
                raise UB("bounds", f"{self.name}{tuple(idx)} outside "
                                   f"{self.bounds}")
            pos += (val - low) * mult
            mult *= (high - low + 1)
        return pos

    def cell(self, idx):
        return self.cells[self.flat(idx)]


class ArrVal:
    """A temporary array value (result of an array expression)."""
    __slots__ = ("shape", "vals")

    def __init__(self, shape, vals):
        self.shape = tuple(shape)
        self.vals = vals


class StructVal:
    __slots__ = ("members", "tname")

    def __init__(self, members, tname=""):
        self.members = members   # name(lower) -> Cell | ArrayVal | StructVal
        self.tname = tname


class ObjVal:
    """A Python object standing for a value of a derived type whose
    definition is not part of the interpreted tree (mock run-time objects,
    e.g. the LFRic field / proxy / mesh / function-space objects of E6).

    Components and type-bound procedures are attributes of the wrapped
    object: an attribute that is a storage object (Cell / ArrayVal /
    StructVal / ObjVal) is a data component, a callable attribute is a
    type-bound procedure (called with evaluated actual arguments; named
    actual arguments are passed as keywords), a plain Python value is a
    read-only scalar component and any other object is wrapped in a new
    ObjVal.  Assigning an ObjVal to a variable stores the handle (reference
    semantics: the mock object decides what a copy means)."""
    __slots__ = ("obj",)

    def __init__(self, obj):
        self.obj = obj

    def member(self, name):
        try:
            return getattr(self.obj, name)
        except AttributeError:
            raise Unsupported(f"{type(self.obj).__name__} object has no "
                              f"component or procedure '{name}'")

    def __repr__(self):
        return f"ObjVal({self.obj!r})"


_NOT_OBJ = object()


class _Return(Exception):
    pass


class _Exit(Exception):
    pass


class _Cycle(Exception):
    pass


class Frame:
    __slots__ = ("routine", "store", "depth")

    def __init__(self, routine, depth):
        self.routine = routine
        self.store = {}          # id(symbol) -> storage
        self.depth = depth


class Thunk:
    """Call-by-name binding of a dummy argument (only created when
    Interp.by_name is set): the actual argument is re-evaluated in the
    caller's frame at every use of the dummy."""
    __slots__ = ("dummy", "arg", "caller", "callee")

    def __init__(self, dummy, arg, caller, callee):
        self.dummy = dummy
        self.arg = arg
        self.caller = caller
        self.callee = callee

    def force(self, interp):
        arg = self.arg
        if isinstance(arg, N.Reference) and not isinstance(arg, N.Call):
            kind, obj = "ref", interp.designator(arg, self.caller)
        else:
            kind, obj = "val", interp.eval(arg, self.caller)
        return interp._bind(self.dummy, kind, obj, self.callee, arg)


def _size(shape):
    tot = 1
    for ext in shape:
        tot *= ext
    return tot


def index_tuples(bounds):
    """All index tuples of an array with these bounds in column-major order
    (first subscript varies fastest)."""
    ranges = [range(low, high + 1) for low, high in reversed(bounds)]
    return [tuple(reversed(t)) for t in itertools.product(*ranges)]


# ---------------------------------------------------------------------------
# Fortran arithmetic
# ---------------------------------------------------------------------------
def _isint(val):
    return isinstance(val, int) and not isinstance(val, bool)


def _isnum(val):
    return _isint(val) or isinstance(val, Fraction)


def f_div(lhs, rhs):
    if _isint(lhs) and _isint(rhs):
        if rhs == 0:
            raise UB("divzero")
        quo = abs(lhs) // abs(rhs)
        return quo if (lhs >= 0) == (rhs >= 0) else -quo
    if rhs == 0:
        raise UB("divzero")
    return Fraction(lhs) / Fraction(rhs)


def f_mod(lhs, rhs):
    if rhs == 0:
        raise UB("divzero", "mod")
    if _isint(lhs) and _isint(rhs):
        return lhs - f_div(lhs, rhs) * rhs
    quo = Fraction(lhs) / Fraction(rhs)
    trunc = int(quo)  # int() truncates toward zero for Fractions
    return Fraction(lhs) - trunc * Fraction(rhs)


def f_pow(lhs, rhs):
    if _isint(rhs):
        if _isint(lhs):
            if rhs >= 0:
                if rhs > 64 and abs(lhs) > 1:
                    raise UB("overflow", "integer power")
                return lhs ** rhs
            if lhs == 0:
                raise UB("divzero", "0**negative")
            return f_div(1, lhs ** (-rhs))
        if rhs < 0 and lhs == 0:
            raise UB("divzero", "0.0**negative")
        if abs(rhs) > 64:
            raise UB("overflow", "real power")
        return Fraction(lhs) ** rhs
    raise UB("inexact", "real exponent")


def f_int(val):
    """INT(): truncation toward zero."""
    if _isint(val):
        return val
    return int(val)


def f_nint(val):
    if _isint(val):
        return val
    frac = Fraction(val)
    half = Fraction(1, 2)
    return int(frac + half) if frac >= 0 else -int(-frac + half)


def _arith(oper, lhs, rhs):
    if not (_isnum(lhs) and _isnum(rhs)):
        raise UB("type", f"numeric operator on {lhs!r}, {rhs!r}")
    if oper == "ADD":
        return lhs + rhs
    if oper == "SUB":
        return lhs - rhs
    if oper == "MUL":
        return lhs * rhs
    if oper == "DIV":
        return f_div(lhs, rhs)
    if oper == "REM":
        return f_mod(lhs, rhs)
    return f_pow(lhs, rhs)


def _compare(oper, lhs, rhs):
    if isinstance(lhs, str) and isinstance(rhs, str):
        width = max(len(lhs), len(rhs))
        lhs, rhs = lhs.ljust(width), rhs.ljust(width)
    elif not (_isnum(lhs) and _isnum(rhs)):
        raise UB("type", f"relational operator on {lhs!r}, {rhs!r}")
    return {"EQ": lhs == rhs, "NE": lhs != rhs, "GT": lhs > rhs,
            "LT": lhs < rhs, "GE": lhs >= rhs, "LE": lhs <= rhs}[oper]


def _logical(oper, lhs, rhs):
    if not (isinstance(lhs, bool) and isinstance(rhs, bool)):
        raise UB("type", f"logical operator on {lhs!r}, {rhs!r}")
    return {"AND": lhs and rhs, "OR": lhs or rhs, "EQV": lhs == rhs,
            "NEQV": lhs != rhs}[oper]


def binop(oper, lhs, rhs):
    if lhs is POISON or rhs is POISON:
        return POISON
    if oper in ("ADD", "SUB", "MUL", "DIV", "REM", "POW"):
        return _arith(oper, lhs, rhs)
    if oper in ("EQ", "NE", "GT", "LT", "GE", "LE"):
        return _compare(oper, lhs, rhs)
    return _logical(oper, lhs, rhs)


def unop(oper, val):
    if val is POISON:
        return POISON
    if oper == "MINUS":
        if not _isnum(val):
            raise UB("type", "unary minus")
        return -val
    if oper == "PLUS":
        if not _isnum(val):
            raise UB("type", "unary plus")
        return val
    if not isinstance(val, bool):
        raise UB("type", ".not.")
    return not val


def convert(val, typ):
    """Fortran assignment conversion to the declared type of the target."""
    if val is POISON or typ is None:
        return val
    if typ == "int":
        if isinstance(val, bool) or isinstance(val, str):
            raise UB("type", f"assigning {val!r} to integer")
        return f_int(val)
    if typ == "real":
        if isinstance(val, bool) or isinstance(val, str):
            raise UB("type", f"assigning {val!r} to real")
        return Fraction(val)
    if typ == "bool":
        if not isinstance(val, bool):
            raise UB("type", f"assigning {val!r} to logical")
        return val
    if typ == "char":
        if not isinstance(val, str):
            raise UB("type", f"assigning {val!r} to character")
        return val
    return val


def elementwise(func, *args):
    """Apply func to scalars / conformable ArrVals."""
    shape = None
    for arg in args:
        if isinstance(arg, ArrVal):
            if shape is None:
                shape = arg.shape
            elif shape != arg.shape:
                raise UB("shape", f"{shape} vs {arg.shape}")
    if shape is None:
        return func(*args)
    num = _size(shape)
    cols = [a.vals if isinstance(a, ArrVal) else [a] * num for a in args]
    return ArrVal(shape, [func(*vals) for vals in zip(*cols)])


_INTRINSIC_TYPES = {ScalarType.Intrinsic.INTEGER: "int",
                    ScalarType.Intrinsic.REAL: "real",
                    ScalarType.Intrinsic.BOOLEAN: "bool",
                    ScalarType.Intrinsic.CHARACTER: "char"}


# ---------------------------------------------------------------------------
class Interp:
    """Interprets Routines found in a PSyIR tree."""

    def __init__(self, root, hooks=None, horizon=200000, tracer=None):
        self.root = root
        self.hooks = hooks
        self.horizon = horizon
        self.steps = 0
        self.tracer = tracer
        self.routines = {}
        if root is not None:
            for rout in root.walk(N.Routine):
                self.routines.setdefault(rout.name.lower(), rout)
        self.globals = {}        # id(symbol) -> storage for container symbols
        self.frames = []
        self.loop_stack = []     # [loop node, current iteration value]
        self.stmt_stack = []
        self.output = []         # PRINT / PSyData style events
        # Diagnostic mode (never used as an oracle): dummies of routines
        # called from the interpreted code are bound by NAME, i.e. the
        # semantics of textually substituting the actual arguments.
        self.by_name = False
        # Opt-in: assignment to an unallocated allocatable array allocates
        # it with the shape of the right-hand side (Fortran 2003).
        self.realloc_lhs = False

    # -- events ----------------------------------------------------------
    def _rd(self, cell, node):
        if self.tracer is not None:
            self.tracer("R", cell, node, self)
        return cell.v

    def _wr(self, cell, val, node):
        cell.v = convert(val, cell.typ)
        if self.tracer is not None:
            self.tracer("W", cell, node, self)

    def _tick(self):
        self.steps += 1
        if self.steps > self.horizon:
            raise UB("horizon", f"more than {self.horizon} steps")

    # -- types and allocation -------------------------------------------
    def _typ_of(self, dtype):
        if isinstance(dtype, ScalarType):
            return _INTRINSIC_TYPES[dtype.intrinsic]
        if isinstance(dtype, ArrayType):
            if isinstance(dtype.intrinsic, ScalarType.Intrinsic):
                return _INTRINSIC_TYPES[dtype.intrinsic]
            return "struct"
        if isinstance(dtype, (StructureType, DataTypeSymbol)):
            return "struct"
        return None

    def _resolve_struct(self, dtype):
        while isinstance(dtype, DataTypeSymbol):
            dtype = dtype.datatype
        if isinstance(dtype, StructureType):
            return dtype
        raise Unsupported(f"structure type {dtype}")

    def _eval_bound(self, expr, frame):
        val = self.eval(expr, frame)
        if val is POISON or not _isint(val):
            raise UB("poison-bound", f"array bound {val!r}")
        return val

    def allocate(self, name, dtype, frame, loc_prefix=None, init=None):
        """Create storage for a variable of the given datatype."""
        locname = loc_prefix if loc_prefix is not None else (name,)
        if isinstance(dtype, UnsupportedFortranType):
            if dtype.partial_datatype is not None:
                dtype = dtype.partial_datatype
            else:
                raise Unsupported(f"declaration '{dtype.declaration}'")
        if isinstance(dtype, ArrayType):
            bounds = []
            deferred = False
            for dim in dtype.shape:
                if isinstance(dim, ArrayType.ArrayBounds):
                    low = self._eval_bound(dim.lower, frame)
                    if isinstance(dim.upper, ArrayType.Extent):
                        deferred = True
                        bounds.append((low, low - 1))
                    else:
                        bounds.append((low, self._eval_bound(dim.upper, frame)))
                else:
                    deferred = True
                    bounds.append((1, 0))
            typ = self._typ_of(dtype)
            arr = ArrayVal(bounds, [], typ, name, allocated=not deferred)
            if not deferred:
                self._fill(arr, dtype, frame, locname)
            return arr
        if isinstance(dtype, (StructureType, DataTypeSymbol)):
            return self._alloc_struct(dtype, frame, locname)
        if isinstance(dtype, ScalarType):
            return Cell(locname + ((),), self._typ_of(dtype))
        if isinstance(dtype, UnresolvedType):
            raise Unsupported(f"unresolved type of '{name}'")
        raise Unsupported(f"datatype {dtype} of '{name}'")

    def _fill(self, arr, dtype, frame, locname):
        elem_struct = not isinstance(dtype.intrinsic, ScalarType.Intrinsic)
        arr.cells = []
        for pos, idx in enumerate(index_tuples(arr.bounds)):
            if elem_struct:
                cell = Cell(locname + (idx,), "struct", parent=arr, pos=pos)
                cell.v = self._alloc_struct(dtype.intrinsic, frame,
                                            locname + (idx,))
            else:
                cell = Cell(locname + (idx,), arr.typ, parent=arr, pos=pos)
            arr.cells.append(cell)

    def _alloc_struct(self, dtype, frame, locname):
        stype = self._resolve_struct(dtype)
        members = {}
        for comp in stype.components.values():
            sub = self.allocate(comp.name, comp.datatype, frame,
                                loc_prefix=locname + ("%" + comp.name.lower(),))
            if comp.initial_value is not None and isinstance(sub, Cell):
                sub.v = convert(self.eval(comp.initial_value, frame), sub.typ)
            members[comp.name.lower()] = sub
        tname = dtype.name if isinstance(dtype, DataTypeSymbol) else ""
        return StructVal(members, tname)

    # -- symbol storage --------------------------------------------------
    def storage(self, sym, frame, node=None):
        """Storage object of a symbol as seen from `frame`."""
        key = id(sym)
        if key in frame.store:
            stor = frame.store[key]
            if type(stor) is Thunk:
                return stor.force(self)
            return stor
        if key in self.globals:
            return self.globals[key]
        # A symbol object that is not declared in the interpreted tree (e.g.
        # the bounds of an ArrayType in a copied tree still reference the
        # symbols of the tree it was copied from) denotes the same-named
        # entity visible from the routine.
        if frame.routine is not None:
            other = self._visible_symbol(sym, frame)
            if other is not None and other is not sym:
                return self.storage(other, frame, node)
        iface = getattr(sym, "interface", None)
        if isinstance(iface, ImportInterface):
            target = self._imported(sym)
            if target is not None:
                return self.storage(target, frame)
            if self.hooks is not None and hasattr(self.hooks, "extern"):
                stor = self.hooks.extern(self, sym, frame)
                if stor is not None:
                    self.globals[key] = stor
                    return stor
            raise Unsupported(f"imported symbol '{sym.name}'")
        if isinstance(iface, UnresolvedInterface):
            if self.hooks is not None and hasattr(self.hooks, "extern"):
                stor = self.hooks.extern(self, sym, frame)
                if stor is not None:
                    self.globals[key] = stor
                    return stor
            raise Unsupported(f"unresolved symbol '{sym.name}'")
        if isinstance(iface, ArgumentInterface):
            raise UB("absent-arg", f"argument '{sym.name}' is not bound")
        if not isinstance(sym, DataSymbol):
            raise Unsupported(f"symbol '{sym.name}' ({type(sym).__name__})")
        # A same-named symbol of another (copied) table may already have
        # storage in this frame (transformations create duplicates rarely).
        in_routine = self._declared_in_routine(sym, frame)
        # Optional hook `local(interp, symbol, frame)`: storage for a local
        # variable the interpreter cannot allocate itself (unresolved
        # derived types, pointer declarations); None = not handled.
        if self.hooks is not None and hasattr(self.hooks, "local"):
            stor = self.hooks.local(self, sym, frame)
            if stor is not None:
                if in_routine:
                    frame.store[key] = stor
                else:
                    self.globals[key] = stor
                return stor
        stor = self.allocate(sym.name.lower(), sym.datatype, frame)
        init = sym.initial_value
        if init is not None:
            val = self.eval(init, frame)
            if isinstance(stor, Cell):
                stor.v = convert(val, stor.typ)
            elif isinstance(stor, ArrayVal):
                self._assign_array(stor, val, init)
        if in_routine and not (sym.is_constant and False):
            frame.store[key] = stor
        else:
            self.globals[key] = stor
        return stor

    def _declared_in_routine(self, sym, frame):
        if frame.routine is None:
            return False
        node = frame.routine
        for sched in node.walk(N.ScopingNode):
            if any(one is sym for one in sched.symbol_table.symbols):
                return True
        return False

    def _visible_symbol(self, sym, frame):
        """None if `sym` is declared in the interpreted tree; otherwise the
        same-named symbol visible from the routine (or None)."""
        if self._declared_in_routine(sym, frame):
            return None
        node = frame.routine.parent
        while node is not None:
            if isinstance(node, N.ScopingNode) and \
                    any(one is sym for one in node.symbol_table.symbols):
                return None
            node = node.parent
        if self.root is not None:
            for cont in self.root.walk(N.Container):
                if any(one is sym for one in cont.symbol_table.symbols):
                    return None
        try:
            return frame.routine.symbol_table.lookup(sym.name)
        except KeyError:
            return None

    def _imported(self, sym):
        cname = sym.interface.container_symbol.name.lower()
        orig = sym.interface.orig_name or sym.name
        if self.root is None:
            return None
        for cont in self.root.walk(N.Container):
            if cont.name.lower() == cname:
                try:
                    return cont.symbol_table.lookup(orig, scope_limit=cont)
                except KeyError:
                    return None
        return None

    # -- designators -----------------------------------------------------
    def designator(self, node, frame):
        """Reference-like node -> Cell | ArrayVal | StructVal."""
        if isinstance(node, N.StructureReference):
            base = self.storage(node.symbol, frame, node)
            if isinstance(node, N.ArrayOfStructuresReference):
                base = self._index(base, node.indices, frame, node)
                base = self._struct_of(base)
            return self._member(base, node.member, frame)
        if isinstance(node, N.ArrayReference):
            base = self.storage(node.symbol, frame, node)
            return self._index(base, node.indices, frame, node)
        if isinstance(node, N.Reference):
            return self.storage(node.symbol, frame, node)
        raise Unsupported(f"designator {type(node).__name__}")

    @staticmethod
    def _struct_of(stor):
        if isinstance(stor, Cell):
            if isinstance(stor.v, (StructVal, ObjVal)):
                return stor.v
            raise UB("type", "not a structure")
        return stor

    def _member(self, base, mem, frame):
        base = self._struct_of(base)
        if isinstance(base, ObjVal):
            return self._obj_member(base, mem, frame)
        if not isinstance(base, StructVal):
            if isinstance(base, ArrayVal):
                raise Unsupported("member of array of structures section")
            raise UB("type", "member access on non-structure")
        try:
            sub = base.members[mem.name.lower()]
        except KeyError:
            raise Unsupported(f"no component {mem.name}")
        if isinstance(mem, N.ArrayOfStructuresMember):
            sub = self._struct_of(self._index(sub, mem.indices, frame, mem))
            return self._member(sub, mem.member, frame)
        if isinstance(mem, N.StructureMember):
            return self._member(sub, mem.member, frame)
        if isinstance(mem, N.ArrayMember):
            return self._index(sub, mem.indices, frame, mem)
        return sub

    @staticmethod
    def _wrap_obj(val):
        """Result of looking up / calling something on an ObjVal -> storage."""
        if isinstance(val, (Cell, ArrayVal, StructVal, ObjVal)):
            return val
        if val is POISON or isinstance(val, (bool, int, Fraction, str)):
            return Cell(("<obj>", ()), None, val)
        return ObjVal(val)

    def _obj_member(self, base, mem, frame):
        """Component / type-bound function reference on a Python object.
        `obj%f(i, j)` is an ArrayMember in PSyIR: when `f` is callable it is
        a function reference with the subscripts as actual arguments."""
        sub = base.member(mem.name.lower())
        if isinstance(mem, N.ArrayOfStructuresMember):
            sub = self._struct_of(self._index(self._wrap_obj(sub),
                                              mem.indices, frame, mem))
            return self._member(sub, mem.member, frame)
        if isinstance(mem, N.StructureMember):
            return self._member(self._wrap_obj(sub), mem.member, frame)
        if isinstance(mem, N.ArrayMember):
            if callable(sub):
                args = [self.eval(idx, frame) for idx in mem.indices]
                return self._wrap_obj(sub(*args))
            return self._index(self._wrap_obj(sub), mem.indices, frame, mem)
        if callable(sub):
            raise Unsupported(f"procedure component '{mem.name}' used as data")
        return self._wrap_obj(sub)

    def _typebound_call(self, node, frame):
        """`call obj%path%proc(args)` / `obj%path%proc(args)` where obj is
        bound to an ObjVal: returns the procedure's result, or _NOT_OBJ if
        the base is not a Python object (existing behaviour applies)."""
        ref = node.routine
        try:
            base = self._struct_of(self.storage(ref.symbol, frame, ref))
        except (UB, Unsupported):
            return _NOT_OBJ
        mem = ref.member
        while True:
            if not isinstance(base, ObjVal):
                return _NOT_OBJ
            if isinstance(mem, N.StructureMember):
                base = self._struct_of(
                    self._wrap_obj(base.member(mem.name.lower())))
                mem = mem.member
                continue
            break
        if type(mem) is not N.Member:
            return _NOT_OBJ
        proc = base.member(mem.name.lower())
        if not callable(proc):
            raise UB("type", f"'{mem.name}' is not a procedure")
        args, kwargs = [], {}
        for arg, name in zip(node.arguments, node.argument_names):
            if isinstance(arg, N.Reference) and not isinstance(arg, N.Call):
                stor = self.designator(arg, frame)
                val = stor if isinstance(stor, (ArrayVal, ObjVal)) \
                    else self.read(stor, arg)
            else:
                val = self.eval(arg, frame)
            if name is None:
                args.append(val)
            else:
                kwargs[name.lower()] = val
        res = proc(*args, **kwargs)
        if res is None or isinstance(res, (ArrayVal, ArrVal, StructVal,
                                           ObjVal)):
            return res
        if res is POISON or isinstance(res, (bool, int, Fraction, str)):
            return res
        return ObjVal(res)

    def _index(self, arr, indices, frame, node):
        if not isinstance(arr, ArrayVal):
            raise UB("type", f"subscripting non-array {getattr(node, 'name', '')}")
        if not arr.allocated:
            raise UB("unallocated", arr.name)
        if len(indices) != len(arr.bounds):
            raise UB("rank", f"{arr.name}: {len(indices)} subscripts, rank "
                             f"{len(arr.bounds)}")
        dims = []
        section = False
        for dim, idx in enumerate(indices):
            if isinstance(idx, N.Range):
                section = True
                self._cur_array = arr
                low = self._int(self.eval(idx.start, frame), "section bound")
                high = self._int(self.eval(idx.stop, frame), "section bound")
                step = self._int(self.eval(idx.step, frame), "section stride")
                if step == 0:
                    raise UB("zero-stride")
                vals = list(range(low, high + (1 if step > 0 else -1), step))
                dims.append(vals)
            else:
                val = self.eval(idx, frame)
                if isinstance(val, ArrVal):
                    raise Unsupported("vector subscript")
                dims.append(self._int(val, f"subscript of {arr.name}"))
        if not section:
            return arr.cell(tuple(dims))
        # Build the section (column-major over the Range dimensions).
        lists = [d if isinstance(d, list) else [d] for d in dims]
        combos = [tuple(reversed(t))
                  for t in itertools.product(*reversed(lists))]
        cells = [arr.cell(c) for c in combos]
        bounds = [(1, len(d)) for d in dims if isinstance(d, list)]
        return ArrayVal(bounds, cells, arr.typ, arr.name)

    @staticmethod
    def _int(val, what):
        if val is POISON:
            raise UB("poison-control", what)
        if not _isint(val):
            raise UB("type", f"{what}: {val!r} is not an integer")
        return val

    # -- expressions -----------------------------------------------------
    def read(self, stor, node):
        """rvalue of a storage object."""
        if isinstance(stor, Cell):
            if isinstance(stor.v, (StructVal, ObjVal)):
                return stor.v
            return self._rd(stor, node)
        if isinstance(stor, ArrayVal):
            if not stor.allocated:
                raise UB("unallocated", stor.name)
            return ArrVal(stor.shape, [self._rd(c, node) for c in stor.cells])
        return stor

    def eval(self, node, frame):
        if isinstance(node, N.Literal):
            return self._literal(node)
        if isinstance(node, N.Reference):
            return self.read(self.designator(node, frame), node)
        if isinstance(node, N.BinaryOperation):
            lhs = self.eval(node.children[0], frame)
            rhs = self.eval(node.children[1], frame)
            oper = node.operator.name
            return elementwise(lambda a, b: binop(oper, a, b), lhs, rhs)
        if isinstance(node, N.UnaryOperation):
            val = self.eval(node.children[0], frame)
            oper = node.operator.name
            return elementwise(lambda a: unop(oper, a), val)
        if isinstance(node, N.IntrinsicCall):
            from mc.fortsem import intrinsics
            return intrinsics.evaluate(self, node, frame)
        if isinstance(node, N.Call):
            return self.call_node(node, frame, function=True)
        if isinstance(node, N.CodeBlock):
            # Optional hook `codeblock_expr(interp, node, frame)` evaluates
            # an expression the reader kept as a CodeBlock (e.g. type-bound
            # function references); it returns the value.
            if self.hooks is not None and \
                    hasattr(self.hooks, "codeblock_expr"):
                return self.hooks.codeblock_expr(self, node, frame)
            raise Unsupported("expression CodeBlock")
        raise Unsupported(f"expression {type(node).__name__}")

    @staticmethod
    def _literal(node):
        intr = node.datatype.intrinsic
        text = node.value
        if intr == ScalarType.Intrinsic.INTEGER:
            return int(text)
        if intr == ScalarType.Intrinsic.REAL:
            return Fraction(text.lower().replace("d", "e"))
        if intr == ScalarType.Intrinsic.BOOLEAN:
            return text.lower() == "true"
        return text

    # -- statements ------------------------------------------------------
    def exec_schedule(self, sched, frame):
        for child in sched.children:
            self.exec(child, frame)

    def exec(self, node, frame):
        self._tick()
        if isinstance(node, N.Assignment):
            self.stmt_stack.append(node)
            try:
                self._assign(node, frame)
            finally:
                self.stmt_stack.pop()
        elif isinstance(node, N.Loop):
            self._loop(node, frame)
        elif isinstance(node, N.IfBlock):
            cond = self.eval(node.condition, frame)
            if cond is POISON:
                raise UB("poison-control", "if condition")
            if not isinstance(cond, bool):
                raise UB("type", "if condition")
            if cond:
                self.exec_schedule(node.if_body, frame)
            elif node.else_body is not None:
                self.exec_schedule(node.else_body, frame)
        elif isinstance(node, N.WhileLoop):
            while True:
                self._tick()
                cond = self.eval(node.condition, frame)
                if cond is POISON:
                    raise UB("poison-control", "while condition")
                if not cond:
                    break
                try:
                    self.exec_schedule(node.loop_body, frame)
                except _Cycle:
                    continue
                except _Exit:
                    break
        elif isinstance(node, N.IntrinsicCall):
            from mc.fortsem import intrinsics
            intrinsics.execute(self, node, frame)
        elif isinstance(node, N.Call):
            self.call_node(node, frame, function=False)
        elif isinstance(node, N.Return):
            raise _Return()
        elif isinstance(node, N.CodeBlock):
            self._codeblock(node, frame)
        elif isinstance(node, N.Directive):
            if self.hooks is not None and hasattr(self.hooks, "directive") \
                    and self.hooks.directive(self, node, frame):
                return
            if isinstance(node, N.RegionDirective):
                self.exec_schedule(node.dir_body, frame)
            # standalone directives are transparent
        elif isinstance(node, N.PSyDataNode):
            if self.hooks is not None and hasattr(self.hooks, "psydata") \
                    and self.hooks.psydata(self, node, frame):
                return
            self.exec_schedule(node.psy_data_body, frame)
        elif isinstance(node, N.Schedule):
            self.exec_schedule(node, frame)
        else:
            if self.hooks is not None and hasattr(self.hooks, "statement") \
                    and self.hooks.statement(self, node, frame):
                return
            raise Unsupported(f"statement {type(node).__name__}")

    def _assign(self, node, frame):
        # Fortran: the RHS (and LHS subscripts) are evaluated before any
        # element of the LHS is defined.
        val = self.eval(node.rhs, frame)
        target = self.designator(node.lhs, frame)
        if isinstance(target, Cell):
            if isinstance(val, ArrVal):
                raise UB("shape", "array value assigned to scalar")
            if isinstance(val, ObjVal):
                # handle assignment (no tracer event: not a data location)
                target.v = val
                return
            if isinstance(val, StructVal):
                raise Unsupported("structure assignment")
            self._wr(target, val, node.lhs)
        elif isinstance(target, ArrayVal):
            if self.realloc_lhs and not target.allocated and \
                    not target.cells and isinstance(val, (ArrVal, ArrayVal)):
                # Fortran 2003 allocation on assignment (opt-in)
                if isinstance(val, ArrayVal):
                    val = self.read(val, node.rhs)
                self._alloc_on_assign(target, val.shape)
            self._assign_array(target, val, node.lhs)
        else:
            raise Unsupported("assignment to whole structure")

    @staticmethod
    def _alloc_on_assign(target, shape):
        target.bounds = [(1, ext) for ext in shape]
        target.cells = [Cell((target.name, idx), target.typ, parent=target,
                             pos=pos)
                        for pos, idx in enumerate(index_tuples(target.bounds))]
        target.allocated = True

    def _assign_array(self, target, val, node):
        if not target.allocated:
            raise UB("unallocated", target.name)
        if isinstance(val, ArrVal):
            if val.shape != target.shape:
                raise UB("shape", f"{target.name}{target.shape} = {val.shape}")
            for cell, one in zip(target.cells, val.vals):
                self._wr(cell, one, node)
        else:
            for cell in target.cells:
                self._wr(cell, val, node)

    def _loop(self, node, frame):
        start = self._int(self.eval(node.start_expr, frame), "loop start")
        stop = self._int(self.eval(node.stop_expr, frame), "loop stop")
        step = self._int(self.eval(node.step_expr, frame), "loop step")
        if step == 0:
            raise UB("zero-step")
        trips = f_div(stop - start + step, step)
        trips = max(trips, 0)
        var = self.storage(node.variable, frame, node)
        if not isinstance(var, Cell):
            raise UB("type", "loop variable")
        self.loop_seq = getattr(self, "loop_seq", 0) + 1
        # [loop node, current iteration value, execution instance number]
        entry = [node, start, self.loop_seq]
        self.loop_stack.append(entry)
        try:
            value = start
            for _ in range(trips):
                self._tick()
                entry[1] = value
                self._wr(var, value, node)
                try:
                    self.exec_schedule(node.loop_body, frame)
                except _Cycle:
                    pass
                except _Exit:
                    break
                value += step
            else:
                entry[1] = None
                self._wr(var, value, node)
        finally:
            self.loop_stack.pop()

    def _codeblock(self, node, frame):
        from fparser.two import Fortran2003 as F
        for ast in node.get_ast_nodes:
            if isinstance(ast, F.Exit_Stmt) and ast.items[1] is None:
                raise _Exit()
            if isinstance(ast, F.Cycle_Stmt) and ast.items[1] is None:
                raise _Cycle()
            if self.hooks is not None and hasattr(self.hooks, "codeblock") \
                    and self.hooks.codeblock(self, ast, node, frame):
                continue
            raise Unsupported(f"CodeBlock {type(ast).__name__}: {ast}")

    # -- calls -----------------------------------------------------------
    def call_node(self, node, frame, function):
        if isinstance(node.routine, N.StructureReference):
            res = self._typebound_call(node, frame)
            if res is not _NOT_OBJ:
                return res
        name = node.routine.name.lower()
        rout = self.routines.get(name)
        if rout is None:
            if self.hooks is not None and hasattr(self.hooks, "call"):
                return self.hooks.call(self, node, frame)
            raise Unsupported(f"call to unknown routine '{name}'")
        if self.by_name:
            return self._call_by_name(rout, node, frame, function)
        actuals = []
        for arg in node.arguments:
            if isinstance(arg, N.Reference) and not isinstance(arg, N.Call):
                stor = self.designator(arg, frame)
                actuals.append(("ref", stor, arg))
            else:
                actuals.append(("val", self.eval(arg, frame), arg))
        names = list(node.argument_names)
        return self.call_routine(rout, actuals, names, function, node)

    def _call_by_name(self, rout, node, caller, function):
        """Positional call with every dummy bound to a Thunk."""
        if len(self.frames) > 40:
            raise UB("recursion")
        if any(name is not None for name in node.argument_names):
            raise Unsupported("named arguments in by-name mode")
        frame = Frame(rout, len(self.frames))
        dummies = list(rout.symbol_table.argument_list)
        if len(node.arguments) > len(dummies):
            raise UB("args", f"too many arguments to {rout.name}")
        for dummy, arg in zip(dummies, node.arguments):
            frame.store[id(dummy)] = Thunk(dummy, arg, caller, frame)
        self.frames.append(frame)
        try:
            try:
                self.exec_schedule(rout, frame)
            except _Return:
                pass
        finally:
            self.frames.pop()
        if function:
            rsym = rout.return_symbol
            if rsym is None:
                raise UB("args", f"{rout.name} is not a function")
            return self.read(self.storage(rsym, frame), node)
        return None

    def call_routine(self, rout, actuals, names=None, function=False,
                     node=None):
        """actuals: list of ('ref', storage, node) / ('val', value, node)."""
        if len(self.frames) > 40:
            raise UB("recursion")
        frame = Frame(rout, len(self.frames))
        dummies = list(rout.symbol_table.argument_list)
        names = names or [None] * len(actuals)
        bound = {}
        pos = 0
        for (kind, obj, anode), name in zip(actuals, names):
            if name is None:
                if pos >= len(dummies):
                    raise UB("args", f"too many arguments to {rout.name}")
                dummy = dummies[pos]
                pos += 1
            else:
                match = [d for d in dummies if d.name.lower() == name.lower()]
                if not match:
                    raise UB("args", f"no dummy named {name}")
                dummy = match[0]
            bound[id(dummy)] = (dummy, kind, obj, anode)
        # Scalars first so that array bounds using them can be evaluated.
        order = sorted(bound.values(),
                       key=lambda b: isinstance(self._base_type(b[0]), ArrayType))
        for dummy, kind, obj, anode in order:
            frame.store[id(dummy)] = self._bind(dummy, kind, obj, frame, anode)
        self.frames.append(frame)
        # Optional hooks `enter(interp, frame, routine, call node)` /
        # `leave(...)` bracket every routine invocation (dummies are bound
        # in frame.store when `enter` is called); used by admissibility
        # monitors (argument-aliasing rules, C07).
        entered = False
        try:
            if self.hooks is not None and hasattr(self.hooks, "enter"):
                self.hooks.enter(self, frame, rout, node)
            entered = True
            try:
                self.exec_schedule(rout, frame)
            except _Return:
                pass
        finally:
            if entered and self.hooks is not None and \
                    hasattr(self.hooks, "leave"):
                self.hooks.leave(self, frame, rout, node)
            self.frames.pop()
        if function:
            rsym = rout.return_symbol
            if rsym is None:
                raise UB("args", f"{rout.name} is not a function")
            stor = self.storage(rsym, frame)
            return self.read(stor, node)
        return None

    @staticmethod
    def _base_type(sym):
        dtype = sym.datatype
        if isinstance(dtype, UnsupportedFortranType) and \
                dtype.partial_datatype is not None:
            dtype = dtype.partial_datatype
        return dtype

    def _bind(self, dummy, kind, obj, frame, anode):
        dtype = self._base_type(dummy)
        if isinstance(dtype, UnsupportedFortranType):
            raise Unsupported(f"declaration '{dtype.declaration}'")
        if isinstance(dtype, ArrayType):
            if kind == "val":
                if not isinstance(obj, ArrVal):
                    raise UB("args", "scalar expression to array dummy")
                cells = [Cell(("<expr>", (i,)), None, v)
                         for i, v in enumerate(obj.vals)]
                actual = ArrayVal([(1, e) for e in obj.shape], cells, None,
                                  "<expr>")
            elif isinstance(obj, Cell):
                # sequence association from an array element
                if obj.parent is None:
                    raise UB("args", "scalar actual for array dummy")
                par = obj.parent
                actual = ArrayVal([(1, len(par.cells) - obj.pos)],
                                  par.cells[obj.pos:], par.typ, par.name)
            elif isinstance(obj, ArrayVal):
                actual = obj
            else:
                raise UB("args", "structure actual for array dummy")
            if not actual.allocated:
                raise UB("unallocated", actual.name)
            bounds = []
            assumed = False
            for dim, spec in enumerate(dtype.shape):
                if isinstance(spec, ArrayType.ArrayBounds):
                    low = self._eval_bound(spec.lower, frame)
                    if isinstance(spec.upper, ArrayType.Extent):
                        assumed = True
                        if dim >= len(actual.bounds):
                            raise UB("rank", "assumed-shape rank mismatch")
                        ext = actual.shape[dim]
                        bounds.append((low, low + ext - 1))
                    else:
                        bounds.append((low, self._eval_bound(spec.upper, frame)))
                else:
                    assumed = True
                    if dim >= len(actual.bounds):
                        raise UB("rank", "assumed-shape rank mismatch")
                    bounds.append((1, actual.shape[dim]))
            if assumed and len(bounds) != len(actual.bounds):
                raise UB("rank", "assumed-shape rank mismatch")
            need = _size(tuple(max(0, h - l + 1) for l, h in bounds))
            if need > len(actual.cells):
                raise UB("args", f"dummy {dummy.name} larger than actual")
            return ArrayVal(bounds, actual.cells[:need], actual.typ,
                            dummy.name.lower())
        if kind == "val":
            if isinstance(obj, ArrVal):
                raise UB("args", "array expression to scalar dummy")
            cell = Cell(("<expr>", ()), self._typ_of(dtype), POISON)
            cell.v = convert(obj, cell.typ)
            return cell
        if isinstance(obj, ArrayVal):
            raise UB("args", f"array actual for scalar dummy {dummy.name}")
        return obj

    # -- entry point -----------------------------------------------------
    def run(self, name, args):
        """Run routine `name`; args = list of storage objects (Cell /
        ArrayVal / StructVal) bound by reference to its dummies."""
        rout = self.routines[name.lower()]
        actuals = [("ref", a, None) for a in args]
        return self.call_routine(rout, actuals, None, False, None)


# ---------------------------------------------------------------------------
# helpers for building argument storage from Python data
# ---------------------------------------------------------------------------
def make_scalar(name, typ, val=POISON):
    cell = Cell((name, ()), typ)
    cell.v = convert(val, typ)
    return cell


def make_array(name, typ, bounds, values=None):
    """values: list in column-major order (or None for all POISON)."""
    arr = ArrayVal(list(bounds), [], typ, name)
    for pos, idx in enumerate(index_tuples(arr.bounds)):
        cell = Cell((name, idx), typ, parent=arr, pos=pos)
        if values is not None:
            cell.v = convert(values[pos], typ)
        arr.cells.append(cell)
    return arr


def snapshot(stor):
    """Hashable, comparable snapshot of a storage object."""
    if isinstance(stor, Cell):
        if isinstance(stor.v, StructVal):
            return snapshot(stor.v)
        return stor.v
    if isinstance(stor, ArrayVal):
        return ("array", tuple(stor.bounds), tuple(snapshot(c) for c in stor.cells))
    if isinstance(stor, StructVal):
        return ("struct", tuple((k, snapshot(v))
                                for k, v in sorted(stor.members.items())))
    return stor
