"""C21 helper: my own reader of the two generated Fortran texts.

* `read_caller(psy_text, kernel)` finds the `CALL <kernel>_code(...)` statement
  in the PSy layer and describes every actual argument (intrinsic type, kind,
  rank after subscripting, definability) from the declarations of the
  enclosing PSy subroutine.
* `read_stub(stub_text, kernel)` returns the dummy argument list of the stub
  subroutine with the declared type, kind, rank and intent of every dummy.
* `role_of_dummy` / `role_of_actual` map PSyclone's (documented) naming
  conventions onto a shared vocabulary of argument roles; they are only used
  to word signatures and for the "same quantity at the same position" test.

Nothing here uses PSyclone or fparser: both texts are produced by PSyclone's
f2pygen back-end with one statement per line, so declarations are read with
regular expressions.  Anything the reader does not understand raises
ReaderError (a harness error, never a verdict).
"""
import re


class ReaderError(Exception):
    """The reader met text it cannot interpret (harness problem)."""


def split_top(text, sep=","):
    """Split at separators that are not nested in parentheses/brackets."""
    parts = []
    depth = 0
    cur = []
    for char in text:
        if char in "([":
            depth += 1
        elif char in ")]":
            depth -= 1
        if char == sep and depth == 0:
            parts.append("".join(cur).strip())
            cur = []
        else:
            cur.append(char)
    tail = "".join(cur).strip()
    if tail or parts:
        parts.append(tail)
    return parts


def _matching_paren(text, start):
    depth = 0
    for pos in range(start, len(text)):
        if text[pos] == "(":
            depth += 1
        elif text[pos] == ")":
            depth -= 1
            if depth == 0:
                return pos
    raise ReaderError(f"unbalanced parentheses in '{text}'")


_DECL_START = re.compile(
    r"^(real|integer|logical|character|type|class|double\s+precision)\b",
    re.I)


def parse_declaration(line):
    """One declaration statement -> list of (name, info) where info has
    type, kind, rank, intent, attrs."""
    text = line.strip()
    match = _DECL_START.match(text)
    if not match:
        raise ReaderError(f"not a declaration: {line}")
    base = match.group(1).lower()
    rest = text[match.end():].lstrip()
    kind = None
    tname = None
    if rest.startswith("("):
        close = _matching_paren(rest, 0)
        inner = rest[1:close].strip()
        rest = rest[close + 1:].lstrip()
        if base in ("type", "class"):
            tname = inner.lower()
        else:
            kmatch = re.match(r"^(kind\s*=\s*)?(\w+)$", inner, re.I)
            if not kmatch:
                raise ReaderError(f"kind selector '{inner}' in: {line}")
            kind = kmatch.group(2).lower()
    elif rest.startswith("*"):
        smatch = re.match(r"^\*\s*(\d+)", rest)
        kind = "*" + smatch.group(1)
        rest = rest[smatch.end():].lstrip()
    if base in ("type", "class"):
        ftype = f"type:{tname}"
    else:
        ftype = base
        if kind is None:
            kind = "default"
    # attributes up to '::' (absent in some f2pygen declarations)
    attrs = []
    if "::" in rest:
        head, ents = rest.split("::", 1)
        attrs = [a for a in split_top(head.strip().lstrip(",")) if a]
    else:
        if rest.startswith(","):
            raise ReaderError(f"attributes without '::' in: {line}")
        ents = rest
    intent = None
    dim_rank = None
    flags = set()
    for attr in attrs:
        low = attr.lower().replace(" ", "")
        imatch = re.match(r"^intent\((in|out|inout)\)$", low)
        if imatch:
            intent = imatch.group(1)
            continue
        dmatch = re.match(r"^dimension\((.*)\)$", low)
        if dmatch:
            dim_rank = len(split_top(dmatch.group(1)))
            continue
        if low in ("pointer", "allocatable", "target", "parameter", "save",
                   "optional", "contiguous", "value"):
            flags.add(low)
            continue
        raise ReaderError(f"unknown attribute '{attr}' in: {line}")
    out = []
    for ent in split_top(ents):
        if not ent:
            raise ReaderError(f"empty entity in: {line}")
        init = None
        if "=>" in ent:
            ent, init = [p.strip() for p in ent.split("=>", 1)]
        elif "=" in ent:
            ent, init = [p.strip() for p in ent.split("=", 1)]
        ematch = re.match(r"^(\w+)\s*(\((.*)\))?$", ent)
        if not ematch:
            raise ReaderError(f"entity '{ent}' in: {line}")
        name = ematch.group(1).lower()
        if ematch.group(2):
            rank = len(split_top(ematch.group(3)))
        elif dim_rank is not None:
            rank = dim_rank
        else:
            rank = 0
        out.append((name, {"type": ftype, "kind": kind, "rank": rank,
                           "intent": intent, "attrs": sorted(flags),
                           "init": init}))
    return out


def _routine_lines(text, header_re):
    """Lines of the first subroutine whose SUBROUTINE statement matches."""
    lines = text.splitlines()
    start = None
    for idx, line in enumerate(lines):
        if header_re.match(line.strip()):
            start = idx
            break
    if start is None:
        return None, None
    body = []
    for line in lines[start + 1:]:
        if re.match(r"^\s*end\s+subroutine\b", line, re.I):
            return lines[start].strip(), body
        body.append(line)
    raise ReaderError("subroutine without END SUBROUTINE")


def _declarations(body):
    """name -> info for all declaration statements; also the names made
    visible by USE ..., ONLY: statements."""
    decls = {}
    imported = {}
    for line in body:
        text = line.strip()
        if not text or text.startswith("!"):
            continue
        umatch = re.match(r"^use\s+(\w+)\s*(,\s*only\s*:\s*(.*))?$", text, re.I)
        if umatch:
            mod = umatch.group(1).lower()
            for sym in split_top(umatch.group(3) or ""):
                if sym:
                    imported[sym.lower()] = mod
            continue
        if _DECL_START.match(text):
            for name, info in parse_declaration(text):
                if name in decls:
                    raise ReaderError(f"'{name}' declared twice")
                decls[name] = info
    return decls, imported


# Components of LFRic proxy types that PSyclone passes directly, from
# infrastructure/operator/operator_mod.F90 (integer(kind=i_def) :: ncell_3d).
KNOWN_COMPONENTS = {"ncell_3d": ("integer", "i_def", 0)}
# Named constants PSyclone imports into the PSy layer (flux_direction_mod:
# integer(i_def), parameter :: x_direction, y_direction).
KNOWN_CONSTANTS = {"x_direction": ("integer", "i_def"),
                   "y_direction": ("integer", "i_def")}


def describe_actual(text, decls, imported):
    """Type description of one actual argument of the kernel call."""
    src = text.strip()
    low = src.lower().replace(" ", "")
    lit = re.match(r"^[+-]?\d+(_(\w+))?$", low)
    if lit:
        return {"text": src, "type": "integer", "kind": lit.group(2) or "default",
                "rank": 0, "definable": False, "form": "literal"}
    lit = re.match(r"^[+-]?(\d+\.\d*|\.\d+|\d+)([ed][+-]?\d+)?(_(\w+))?$", low)
    if lit:
        return {"text": src, "type": "real", "kind": lit.group(4) or "default",
                "rank": 0, "definable": False, "form": "literal"}
    lit = re.match(r"^\.(true|false)\.(_(\w+))?$", low)
    if lit:
        return {"text": src, "type": "logical", "kind": lit.group(3) or "default",
                "rank": 0, "definable": False, "form": "literal"}
    comp = re.match(r"^(\w+)(\([^()]*\))?%(\w+)$", low)
    if comp:
        base, _sub, member = comp.groups()
        if base not in decls:
            return {"text": src, "type": None, "kind": None, "rank": None,
                    "definable": False, "form": "undeclared", "base": base}
        if member not in KNOWN_COMPONENTS:
            raise ReaderError(f"unknown derived-type component in '{src}'")
        ftype, kind, rank = KNOWN_COMPONENTS[member]
        return {"text": src, "type": ftype, "kind": kind, "rank": rank,
                "definable": True, "form": "component", "base": base}
    ref = re.match(r"^(\w+)(\((.*)\))?$", low)
    if not ref:
        raise ReaderError(f"cannot interpret actual argument '{src}'")
    name = ref.group(1)
    if name not in decls:
        if name in imported and name in KNOWN_CONSTANTS and not ref.group(2):
            ftype, kind = KNOWN_CONSTANTS[name]
            return {"text": src, "type": ftype, "kind": kind, "rank": 0,
                    "definable": False, "form": "constant", "base": name}
        return {"text": src, "type": None, "kind": None, "rank": None,
                "definable": False, "form": "undeclared", "base": name}
    info = decls[name]
    rank = info["rank"]
    form = "variable"
    if ref.group(2):
        subs = split_top(ref.group(3))
        if len(subs) != info["rank"]:
            return {"text": src, "type": info["type"], "kind": info["kind"],
                    "rank": None, "definable": False, "form": "bad-subscripts",
                    "base": name}
        nranges = sum(1 for s in subs if ":" in _strip_nested(s))
        rank = nranges
        form = "section" if nranges else "element"
    definable = info["intent"] != "in" and "parameter" not in info["attrs"]
    return {"text": src, "type": info["type"], "kind": info["kind"],
            "rank": rank, "definable": definable, "form": form, "base": name,
            "decl_rank": info["rank"]}


def _strip_nested(text):
    """Remove parenthesised parts (a ':' inside them belongs to an inner
    reference, not to this subscript)."""
    out = []
    depth = 0
    for char in text:
        if char == "(":
            depth += 1
        elif char == ")":
            depth -= 1
        elif depth == 0:
            out.append(char)
    return "".join(out)


def read_caller(psy_text, kernel):
    """-> list of actual descriptions for the call of <kernel>_code (exactly
    one call expected) plus the PSy routine's declaration table."""
    call_re = re.compile(r"^\s*call\s+" + re.escape(kernel) + r"_code\s*\((.*)\)\s*$",
                         re.I)
    calls = [m.group(1) for m in (call_re.match(l) for l in psy_text.splitlines())
             if m]
    if len(calls) != 1:
        raise ReaderError(f"expected one call of {kernel}_code, found {len(calls)}")
    _, body = _routine_lines(psy_text, re.compile(r"^subroutine\s+invoke_", re.I))
    if body is None:
        raise ReaderError("no invoke subroutine in the PSy layer")
    decls, imported = _declarations(body)
    actuals = [describe_actual(a, decls, imported) for a in split_top(calls[0])]
    return actuals, decls


def read_stub(stub_text, kernel):
    """-> list of dummy descriptions (name, type, kind, rank, intent)."""
    header, body = _routine_lines(
        stub_text, re.compile(r"^subroutine\s+" + re.escape(kernel) + r"_code\s*\(",
                              re.I))
    if header is None:
        raise ReaderError(f"no subroutine {kernel}_code in the stub")
    inner = header[header.index("(") + 1:header.rindex(")")]
    names = [n.lower() for n in split_top(inner) if n]
    decls, _ = _declarations(body)
    dummies = []
    for name in names:
        info = decls.get(name)
        if info is None:
            dummies.append({"name": name, "type": None, "kind": None,
                            "rank": None, "intent": None})
        else:
            dummies.append({"name": name, "type": info["type"],
                            "kind": info["kind"], "rank": info["rank"],
                            "intent": info["intent"]})
    extra = sorted(set(decls) - set(names))
    return dummies, extra


# --------------------------------------------------------------------------
# roles (naming conventions -> shared vocabulary)
# --------------------------------------------------------------------------
# A role is (role, detail): `role` names the kind of quantity (used in
# signatures), `detail` identifies which metadata argument / function space /
# quadrature rule it belongs to.  The name of the argument that PSyclone
# appends to any_space names (aspc1_f1 / aspc1_field_1) is dropped.
_QR = r"(qr_)?(?P<qr>xyoz|face|edge)"
_FS = r"(?P<fs>\w+?)"
_ARGN = r"(_(f|field_|op|op_|cma|cma_op_)\d+)?"
_DUMMY_ROLES = [
    (r"^cell$", "cell", ""), (r"^nlayers$", "nlayers", ""),
    (r"^ncell_2d$", "ncell_2d", ""),
    (r"^ncell_2d_no_halos$", "ncell_2d_no_halos", ""),
    (r"^(?P<t>[ril])scalar_(?P<pos>\d+)$", "{t}scalar", "{pos}"),
    (r"^field_(?P<pos>\d+)_stencil_size$", "stencil-size", "{pos}"),
    (r"^field_(?P<pos>\d+)_stencil_dofmap$", "stencil-dofmap", "{pos}"),
    (r"^field_(?P<pos>\d+)_direction$", "stencil-direction", "{pos}"),
    (r"^field_(?P<pos>\d+)_max_branch_length$", "stencil-max-branch-length",
     "{pos}"),
    (r"^field_(?P<pos>\d+)_\w+?_v(?P<comp>\d)$", "field-vector-component",
     "{pos}.{comp}"),
    (r"^field_(?P<pos>\d+)_\w+$", "field", "{pos}"),
    (r"^op_(?P<pos>\d+)_ncell_3d$", "operator-ncell_3d", "{pos}"),
    (r"^op_(?P<pos>\d+)$", "operator", "{pos}"),
    (r"^cma_op_(?P<pos>\d+)_(?P<p>nrow|ncol|bandwidth|alpha|beta|gamma_m|gamma_p)$",
     "cma-{p}", "{pos}"),
    (r"^cma_op_(?P<pos>\d+)$", "cma-matrix", "{pos}"),
    (r"^ndf_" + _FS + _ARGN + "$", "ndf", "{fs}"),
    (r"^undf_" + _FS + _ARGN + "$", "undf", "{fs}"),
    (r"^map_" + _FS + _ARGN + "$", "dofmap", "{fs}"),
    (r"^cbanded_map_" + _FS + _ARGN + "$", "cma-banded-dofmap", "{fs}"),
    (r"^cma_indirection_map_" + _FS + _ARGN + "$", "cma-indirection-dofmap",
     "{fs}"),
    (r"^diff_basis_" + _FS + _ARGN + r"_on_(?P<tfs>\w+?)" + _ARGN + "$",
     "diff-basis-evaluator", "{fs}>{tfs}"),
    (r"^basis_" + _FS + _ARGN + r"_on_(?P<tfs>\w+?)" + _ARGN + "$",
     "basis-evaluator", "{fs}>{tfs}"),
    (r"^diff_basis_" + _FS + _ARGN + "_" + _QR + "$", "diff-basis-qr-{qr}",
     "{fs}"),
    (r"^basis_" + _FS + _ARGN + "_" + _QR + "$", "basis-qr-{qr}", "{fs}"),
    (r"^(?P<n>np_xy|np_z|np_xyz|nfaces|nedges)_" + _QR + "$", "qr-{n}", "{qr}"),
    (r"^weights_(?P<n>xy|z|xyz)_" + _QR + "$", "qr-weights_{n}", "{qr}"),
    (r"^(?P<n>nfaces_re(_h|_v)?)$", "{n}", ""),
    (r"^(?P<n>(out_)?normals_to_(horiz_|vert_)?faces)$", "refelem-{n}", ""),
    (r"^adjacent_face$", "mesh-adjacent_face", ""),
    (r"^boundary_dofs_\w+$", "boundary-dofs", ""),
    (r"^cell_map\w*$", "cell-map", ""),
]
_GENERIC = [t for t in _DUMMY_ROLES
            if t[1] in ("cell", "nlayers", "ncell_2d", "ncell_2d_no_halos",
                        "ndf", "undf", "cma-banded-dofmap",
                        "cma-indirection-dofmap", "diff-basis-evaluator",
                        "basis-evaluator", "diff-basis-qr-{qr}",
                        "basis-qr-{qr}", "qr-{n}", "qr-weights_{n}", "{n}",
                        "refelem-{n}", "boundary-dofs")]
_ACTUAL_ROLES = [
    (r"^cmap\(colour,cell\)$", "cell", ""),
    (r"^(?P<t>[ril])s(?P<pos>\d+)$", "{t}scalar", "{pos}"),
    (r"^f(?P<pos>\d+)_(?P<comp>\d)_data$", "field-vector-component",
     "{pos}.{comp}"),
    (r"^f(?P<pos>\d+)_data$", "field", "{pos}"),
    (r"^f(?P<pos>\d+)_stencil_size\(", "stencil-size", "{pos}"),
    (r"^f(?P<pos>\d+)_stencil_dofmap\(", "stencil-dofmap", "{pos}"),
    (r"^f(?P<pos>\d+)_direction$", "stencil-direction", "{pos}"),
    (r"^[xy]_direction$", "stencil-direction", "?"),
    (r"^f(?P<pos>\d+)_max_branch_length$", "stencil-max-branch-length",
     "{pos}"),
    (r"^op(?P<pos>\d+)_proxy%ncell_3d$", "operator-ncell_3d", "{pos}"),
    (r"^op(?P<pos>\d+)_local_stencil$", "operator", "{pos}"),
    (r"^cma(?P<pos>\d+)_(?P<p>nrow|ncol|bandwidth|alpha|beta|gamma_m|gamma_p)$",
     "cma-{p}", "{pos}"),
    (r"^cma(?P<pos>\d+)_cma_matrix(\(:,:,:\))?$", "cma-matrix", "{pos}"),
    (r"^map_" + _FS + _ARGN + r"(\(:,cell\))?$", "dofmap", "{fs}"),
    (r"^adjacent_face\(:,cell\)$", "mesh-adjacent_face", ""),
    (r"^cell_map\w*\(", "cell-map", ""),
] + _GENERIC


def _role(text, table):
    low = text.lower().replace(" ", "")
    for pattern, role, detail in table:
        match = re.match(pattern, low)
        if match:
            groups = {k: (v or "") for k, v in match.groupdict().items()}
            return role.format(**groups), detail.format(**groups)
    return "other", re.sub(r"\d+", "#", low)


def role_of_dummy(name):
    """(role, detail) of a stub dummy argument, from its name."""
    return _role(name, _DUMMY_ROLES)


def role_of_actual(text):
    """(role, detail) of an actual argument of the PSy-layer call."""
    return _role(text, _ACTUAL_ROLES)
