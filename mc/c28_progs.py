"""C28 program space: a mini-AST for small control-flow programs, its Fortran
text, an (independent) reference interpreter used to enumerate every distinct
control-flow path as a concrete input, and the region placements.

Mini-AST (nested tuples; it mirrors the PSyIR PSyclone builds for the text):

    ("A",)              a(p) = a(p) + 1                 (p = static position)
    ("Z",)              c(q,i1,i2) = 0                  (reset of the enclosing
                                                         condition, only before a
                                                         backward GOTO)
    ("X",) ("Y",) ("R",) ("G",)   EXIT / CYCLE / RETURN / GOTO 10   (CodeBlocks,
                                                         Return node)
    ("T",)              10 CONTINUE                     (labelled, CodeBlock)
    ("L", body)         DO i<d> = 1, n ; body ; END DO  (d = loop depth 1..2)
    ("W", (K, body..))  DO WHILE (k(j) < n) ; k(j) = k(j) + 1 ; body ; END DO
    ("B", (K, Q, body..))  DO ; k(j) = k(j) + 1 ; IF (k(j) > n) EXIT ; body ; END DO
                        (PSyIR WhileLoops; j = static number of the loop, k is a
                        zero-initialised argument; only outside other loops, no
                        loops or GOTOs inside; ("K",) is the counter increment,
                        ("Q", (("X",),)) the terminating guard)
    ("I", then, else)   IF (c(q,i1,i2) > 0) THEN then [ELSE else] END IF

Every IF gets its own static condition number q (pre-order); the condition of
IF number q inside loops i1 (and i2) reads the input element c(q,i1,i2) (1 for
a missing loop level; c(q,k(j),1) inside WHILE / bare loop j): every dynamic evaluation of every branch condition in
every iteration vector has its own independent truth value.  A backward GOTO
first clears its own condition element so that every program terminates.
"""
QMAX = 4          # conditions per program (first extent of c)
NMAX = 3          # largest trip count (other extents of c)
AMAX = 8          # size of a
KMAX = 3          # WHILE / bare DO loops per program (size of k)
LABEL = 10

TRANSFERS = {"X": "EXIT", "Y": "CYCLE", "R": "RETURN", "G": f"GOTO {LABEL}"}


# ---------------------------------------------------------------------------
# keys
# ---------------------------------------------------------------------------
def key(prog):
    """Short canonical string of a statement sequence."""
    out = []
    for st in prog:
        if st[0] in ("L", "W", "B", "Q"):
            out.append(st[0] + "(" + key(st[1]) + ")")
        elif st[0] == "I":
            if st[2]:
                out.append("I(" + key(st[1]) + "|" + key(st[2]) + ")")
            else:
                out.append("I(" + key(st[1]) + ")")
        else:
            out.append(st[0])
    return "".join(out)


def size(prog):
    """Number of statements; a guarded transfer `IF (c) EXIT` (optionally with
    the reset statement of a backward GOTO) counts as one statement."""
    tot = 0
    for st in prog:
        if st[0] in ("L", "W", "B"):
            tot += 1 + size(st[1])
        elif st[0] in ("K", "Q"):
            pass                # fixed parts of a WHILE / bare DO loop
        elif st[0] == "I":
            if _is_guard(st):
                tot += 1
            else:
                tot += 1 + size(st[1]) + size(st[2])
        else:
            tot += 1
    return tot


def _is_guard(st):
    return st[0] == "I" and not st[2] and st[1][-1][0] in TRANSFERS and \
        all(s[0] == "Z" for s in st[1][:-1])


def walk(prog):
    for st in prog:
        yield st
        if st[0] in ("L", "W", "B", "Q"):
            yield from walk(st[1])
        elif st[0] == "I":
            yield from walk(st[1])
            yield from walk(st[2])


def kinds(prog):
    return {st[0] for st in walk(prog)}


# ---------------------------------------------------------------------------
# enumeration
# ---------------------------------------------------------------------------
def _stmts(budget, depth, in_loop, ifdepth, goto):
    """All single statements of size <= budget.  depth = loops already open;
    goto: None (no GOTO/label machinery) or 'G' (may contain the GOTO)."""
    if budget < 1:
        return
    yield ("A",)
    # guarded transfers
    yield ("I", (("R",),), ())
    if in_loop:
        yield ("I", (("X",),), ())
        yield ("I", (("Y",),), ())
    if goto == "G":
        yield ("I", (("G",),), ())          # reset inserted later if backward
    if budget >= 2:
        if depth < 2:
            for body in _seqs(budget - 1, 2, depth + 1, True, ifdepth, goto):
                yield ("L", body)
        if depth == 0:
            # WHILE and bare DO loops: not nested in loops, no loops/GOTO inside
            for body in _seqs(budget - 1, 2, 2, True, ifdepth, None):
                yield ("W", (("K",),) + body)
                yield ("B", (("K",), ("Q", (("X",),))) + body)
        if ifdepth < 1:
            for then in _seqs(budget - 1, 2, depth, in_loop, ifdepth + 1, goto):
                if _only_transfer(then):
                    continue            # already produced as a guarded transfer
                yield ("I", then, ())
                rest = budget - 1 - size(then)
                egoto = None if "G" in kinds(then) else goto
                for els in _seqs(rest, 1, depth, in_loop, ifdepth + 1, egoto):
                    yield ("I", then, els)


def _only_transfer(seq):
    return len(seq) == 1 and seq[0][0] in TRANSFERS


def _seqs(budget, maxlen, depth, in_loop, ifdepth, goto):
    """All non-empty statement sequences of length <= maxlen and total size
    <= budget; at most one statement of the sequence contains the GOTO."""
    def rec(prefix, left, used_goto):
        if prefix:
            yield tuple(prefix)
        if len(prefix) >= maxlen or left < 1:
            return
        for st in _stmts(left, depth, in_loop, ifdepth,
                         None if used_goto else goto):
            has = "G" in kinds((st,))
            yield from rec(prefix + [st], left - size((st,)), used_goto or has)
    yield from rec([], budget, False)


def _with_label(prog):
    """All ways of inserting the label statement `10 CONTINUE` into a program
    that contains one GOTO such that the jump is legal Fortran (the label is
    in a block that encloses the GOTO: same sequence or an outer one)."""
    # path of the statement sequence chain that contains the GOTO
    def chain(seq):
        for pos, st in enumerate(seq):
            if st[0] == "I" and _only_transfer(st[1]) and st[1][0][0] == "G":
                return [(pos,)]
            if st[0] in ("L", "W", "B"):
                sub = chain(st[1])
                if sub is not None:
                    return [(pos, 1)] + sub
            elif st[0] == "I":
                for which in (1, 2):
                    sub = chain(st[which])
                    if sub is not None:
                        return [(pos, which)] + sub
        return None

    steps = chain(prog)
    if steps is None:
        return

    def rebuild(seq, lvl, target_lvl, where):
        """Insert the label at position `where` of the sequence reached after
        `target_lvl` steps; the GOTO gets its reset statement if the label
        precedes it (backward jump)."""
        step = steps[lvl]
        pos = step[0]
        if lvl == target_lvl:
            backward = where <= pos
            new = list(seq)
            new[pos] = _mark(seq[pos], steps[lvl:], backward)
            new.insert(where, ("T",))
            return tuple(new)
        st = seq[pos]
        sub = rebuild(st[step[1]], lvl + 1, target_lvl, where)
        new = list(seq)
        new[pos] = st[:step[1]] + (sub,) + st[step[1] + 1:]
        return tuple(new)

    def seq_at(seq, lvl):
        for step in steps[:lvl]:
            seq = seq[step[0]][step[1]]
        return seq

    for lvl in range(len(steps)):
        here = seq_at(prog, lvl)
        for where in range(len(here) + 1):
            yield rebuild(prog, 0, lvl, where)


def _mark(st, steps, backward):
    """Returns statement `st` (which contains the GOTO along `steps`) with the
    reset statement added in front of the GOTO if the jump is backward."""
    if not backward:
        return st
    if len(steps) == 1:
        return ("I", (("Z",), ("G",)), ())
    which = steps[0][1]
    seq = list(st[which])
    seq[steps[1][0]] = _mark(seq[steps[1][0]], steps[1:], backward)
    return st[:which] + (tuple(seq),) + st[which + 1:]


def programs(maxsize, goto_maxsize, while_maxsize):
    """Deterministic, size-ordered list of (key, prog).  GOTO programs consist
    of a GOTO-free skeleton of size <= goto_maxsize - 1 ... the label counts as
    one statement.  Programs with a WHILE / bare DO loop are kept up to size
    while_maxsize."""
    seen = {}
    for prog in _seqs(maxsize, 3, 0, False, 0, None):
        if _nconds(prog) <= QMAX and _nassign(prog) <= AMAX and \
                _nwhile(prog) <= KMAX:
            seen.setdefault(key(prog), prog)
    for prog in _seqs(goto_maxsize - 1, 3, 0, False, 0, "G"):
        if "G" not in kinds(prog):
            continue
        for full in _with_label(prog):
            if _nconds(full) <= QMAX and _nassign(full) <= AMAX and \
                    _nwhile(full) <= KMAX:
                seen.setdefault(key(full), full)
    out = sorted(seen.items(), key=lambda kv: (size(kv[1]), len(kv[0]), kv[0]))
    return [(k, p) for k, p in out
            if not _nwhile(p) or size(p) <= while_maxsize]


def _nconds(prog):
    return sum(1 for st in walk(prog) if st[0] == "I")


def _nwhile(prog):
    return sum(1 for st in walk(prog) if st[0] in ("W", "B"))


def _nassign(prog):
    return sum(1 for st in walk(prog) if st[0] == "A")


# ---------------------------------------------------------------------------
# numbering and Fortran text
# ---------------------------------------------------------------------------
def number(prog):
    """Annotated copy: every statement becomes a dict with the static numbers
    (assignment position p, condition q, loop depth d, enclosing loop depths)."""
    counters = {"p": 0, "q": 0, "w": 0}

    def rec(seq, depth, cond, wnum):
        out = []
        for st in seq:
            if st[0] == "A":
                counters["p"] += 1
                out.append({"k": "A", "p": counters["p"]})
            elif st[0] == "Z":
                out.append({"k": "Z", "q": cond, "d": depth, "w": wnum})
            elif st[0] == "L":
                out.append({"k": "L", "d": depth + 1,
                            "body": rec(st[1], depth + 1, cond, wnum)})
            elif st[0] in ("W", "B"):
                counters["w"] += 1
                mine = counters["w"]
                out.append({"k": st[0], "w": mine,
                            "body": rec(st[1], depth, cond, mine)})
            elif st[0] in ("K", "Q"):
                out.append({"k": st[0], "w": wnum})
                if st[0] == "Q":
                    out[-1]["then"] = rec(st[1], depth, cond, wnum)
            elif st[0] == "I":
                counters["q"] += 1
                qnum = counters["q"]
                out.append({"k": "I", "q": qnum, "d": depth, "w": wnum,
                            "then": rec(st[1], depth, qnum, wnum),
                            "else": rec(st[2], depth, qnum, wnum)})
            else:
                out.append({"k": st[0]})
        return out

    return rec(prog, 0, 0, 0)


def _cref(qnum, depth, wnum=0):
    if wnum:
        return f"c({qnum}, k({wnum}), 1)"
    idx = [str(qnum)] + [f"i{d}" if d <= depth else "1" for d in (1, 2)]
    return "c(" + ", ".join(idx) + ")"


def fortran(prog, name):
    """Source of `subroutine <name>(n, c, a, k)`."""
    lines = [f"subroutine {name}(n, c, a, k)",
             "  integer, intent(in) :: n",
             f"  integer, intent(inout) :: c({QMAX},{NMAX},{NMAX})",
             f"  integer, intent(inout) :: a({AMAX})",
             f"  integer, intent(inout) :: k({KMAX})",
             "  integer :: i1",
             "  integer :: i2"]

    def emit(seq, ind):
        pad = "  " * ind
        for st in seq:
            kind = st["k"]
            if kind == "A":
                lines.append(f"{pad}a({st['p']}) = a({st['p']}) + 1")
            elif kind == "Z":
                lines.append(f"{pad}{_cref(st['q'], st['d'], st['w'])} = 0")
            elif kind == "T":
                lines.append(f"{LABEL} continue")
            elif kind in TRANSFERS:
                lines.append(f"{pad}{TRANSFERS[kind].lower()}")
            elif kind == "L":
                lines.append(f"{pad}do i{st['d']} = 1, n")
                emit(st["body"], ind + 1)
                lines.append(f"{pad}end do")
            elif kind in ("W", "B"):
                lines.append(f"{pad}do while (k({st['w']}) < n)" if kind == "W"
                             else f"{pad}do")
                emit(st["body"], ind + 1)
                lines.append(f"{pad}end do")
            elif kind == "K":
                lines.append(f"{pad}k({st['w']}) = k({st['w']}) + 1")
            elif kind == "Q":
                lines.append(f"{pad}if (k({st['w']}) > n) exit")
            else:
                cond = f"{_cref(st['q'], st['d'], st['w'])} > 0"
                if not st["else"] and len(st["then"]) == 1 and \
                        st["then"][0]["k"] in TRANSFERS:
                    word = TRANSFERS[st["then"][0]["k"]].lower()
                    lines.append(f"{pad}if ({cond}) {word}")
                    continue
                lines.append(f"{pad}if ({cond}) then")
                emit(st["then"], ind + 1)
                if st["else"]:
                    lines.append(f"{pad}else")
                    emit(st["else"], ind + 1)
                lines.append(f"{pad}end if")

    emit(number(prog), 1)
    lines.append(f"end subroutine {name}")
    return "\n".join(lines) + "\n"


# ---------------------------------------------------------------------------
# reference interpreter for the mini-AST and path enumeration
# ---------------------------------------------------------------------------
class _Jump(Exception):
    def __init__(self, kind):
        super().__init__(kind)
        self.kind = kind


class _Budget(Exception):
    pass


_KIND_NAME = {"X": "exit", "Y": "cycle", "R": "return"}


def execute(nprog, nval, bits, reads=None, horizon=5000, watch=None,
            events=None):
    """Runs the numbered program with trip count `nval` and the condition
    elements in `bits` (set of (q,i1,i2)) positive.  Returns the final
    counters a(1..AMAX).  `reads` (list) receives every input element in the
    order of its first evaluation.  watch = (sequence object, start, stop):
    `events` receives the kind of every control transfer that leaves that
    statement range other than by running off its end ('exit', 'cycle',
    'return', 'goto-out') or enters it other than at its first statement
    ('goto-in')."""
    cvals = {}
    avals = [0] * AMAX
    seen = set()
    steps = [0]
    ivars = {1: 1, 2: 1}
    kvals = [0] * (KMAX + 1)

    def cidx(qnum, depth, wnum=0):
        if wnum:
            return (qnum, kvals[wnum], 1)
        return (qnum, ivars[1] if depth >= 1 else 1, ivars[2] if depth >= 2 else 1)

    def run_seq(seq, start=0):
        pos = start
        watched = watch is not None and seq is watch[0]
        while pos < len(seq):
            try:
                run_stmt(seq[pos])
            except _Jump as jmp:
                inside = watched and watch[1] <= pos < watch[2]
                if jmp.kind != "G":
                    if inside:
                        events.append(_KIND_NAME[jmp.kind])
                    raise
                # a GOTO: continue at the label if it is in this sequence
                tgt = [i for i, st in enumerate(seq) if st["k"] == "T"]
                if not tgt:
                    if inside:
                        events.append("goto-out")
                    raise
                if watched:
                    lands_in = watch[1] <= tgt[0] < watch[2]
                    if inside and not lands_in:
                        events.append("goto-out")
                    elif lands_in and not inside:
                        events.append("goto-in")
                pos = tgt[0]
                continue
            pos += 1

    def run_stmt(st):
        steps[0] += 1
        if steps[0] > horizon:
            raise _Budget()
        kind = st["k"]
        if kind == "A":
            avals[st["p"] - 1] += 1
        elif kind == "Z":
            cvals[cidx(st["q"], st["d"], st["w"])] = 0
        elif kind == "T":
            pass
        elif kind in TRANSFERS:
            raise _Jump(kind)
        elif kind == "L":
            dep = st["d"]
            val = 1
            while val <= nval:
                ivars[dep] = val
                try:
                    run_seq(st["body"])
                except _Jump as jmp:
                    if jmp.kind == "X":
                        break
                    if jmp.kind != "Y":
                        raise
                val += 1
            else:
                ivars[dep] = val
        elif kind in ("W", "B"):
            while kind == "B" or kvals[st["w"]] < nval:
                steps[0] += 1
                if steps[0] > horizon:
                    raise _Budget()
                try:
                    run_seq(st["body"])
                except _Jump as jmp:
                    if jmp.kind == "X":
                        break
                    if jmp.kind != "Y":
                        raise
        elif kind == "K":
            kvals[st["w"]] += 1
        elif kind == "Q":
            if kvals[st["w"]] > nval:
                run_seq(st["then"])
        else:
            idx = cidx(st["q"], st["d"], st["w"])
            if idx in cvals:
                val = cvals[idx]
            else:
                val = 1 if idx in bits else 0
                if idx not in seen:
                    seen.add(idx)
                    if reads is not None:
                        reads.append(idx)
            if val > 0:
                run_seq(st["then"])
            else:
                run_seq(st["else"])

    try:
        run_seq(nprog)
    except _Jump as jmp:
        if jmp.kind != "R":
            raise
    return avals


def paths(prog, nvals):
    """Every distinct control-flow path of the program as a concrete input
    (nval, sorted tuple of positive condition elements), found by lazy
    splitting on the conditions in the order they are evaluated.  Elements
    that are never evaluated on a path stay 0."""
    nprog = number(prog)
    out = []
    for nval in nvals:
        stack = [((), frozenset())]     # (decided prefix of reads, bits)
        while stack:
            prefix, bits = stack.pop()
            reads = []
            avals = execute(nprog, nval, bits, reads)
            if tuple(reads[:len(prefix)]) != prefix:
                raise AssertionError("path enumeration lost its prefix")
            out.append({"n": nval, "bits": sorted(bits), "a": avals})
            for pos in range(len(reads) - 1, len(prefix) - 1, -1):
                if reads[pos] in bits:
                    raise AssertionError("undecided element already set")
                stack.append((tuple(reads[:pos + 1]),
                              bits | {reads[pos]}))
    out.sort(key=lambda inp: (inp["n"], len(inp["bits"]), inp["bits"]))
    return out


# ---------------------------------------------------------------------------
# schedules and ranges
# ---------------------------------------------------------------------------
def schedules(prog):
    """All statement sequences of the program: list of (path, seq) where path
    is a tuple of (position, slot) steps, slot 1 = loop body / then, 2 = else."""
    out = []

    def rec(seq, path):
        out.append((path, seq))
        for pos, st in enumerate(seq):
            if st[0] in ("L", "W", "B", "Q"):
                rec(st[1], path + ((pos, 1),))
            elif st[0] == "I":
                rec(st[1], path + ((pos, 1),))
                if st[2]:
                    rec(st[2], path + ((pos, 2),))
    rec(prog, ())
    return out


def ranges(prog):
    """Every consecutive statement range of every sequence:
    (path, start, stop) with stop exclusive; deterministic order."""
    out = []
    for path, seq in schedules(prog):
        for start in range(len(seq)):
            for stop in range(start + 1, len(seq) + 1):
                out.append((path, start, stop))
    return out


def range_key(rng):
    path, start, stop = rng
    pre = "".join(f"{p}{'b' if s == 1 else 'e'}." for p, s in path)
    return f"{pre}{start}-{stop}"


def bypasses(prog, rng, nval, bits):
    """Kinds of the control transfers that, in the run (nval, bits), leave the
    statement range `rng` other than through its end or enter it other than
    through its start, in execution order (reference interpreter; used for
    signatures and messages only, never for the verdict)."""
    nprog = number(prog)
    path, start, stop = rng
    seq = nprog
    for pos, slot in path:
        st = seq[pos]
        seq = st["body"] if st["k"] in ("L", "W", "B") else (
            st["then"] if slot == 1 else st["else"])
    events = []
    execute(nprog, nval, frozenset(tuple(b) for b in bits),
            watch=(seq, start, stop), events=events)
    return events


def textual_order(ranges_in_application_order):
    """Indices of the regions in the order in which their start calls appear
    in the source text (outer region first).  Later applied regions wrap
    earlier ones when the ranges coincide."""
    def sort_key(num):
        path, start, stop = ranges_in_application_order[num]
        pos = tuple(x for step in path for x in step) + (start,)
        return (pos, -stop, -num)
    return sorted(range(len(ranges_in_application_order)), key=sort_key)
