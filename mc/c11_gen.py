"""C11 generator: deterministic corpus of small programs.  Every program is

    subroutine s(n, k, j, t, u, l, a, b, q, ix, sd, se, sa, c1, c2, c3, iv)

with locals al, bl (allocatable, initially unallocated), i, ii (see MAIN_DECL)

in a module that also holds the derived types and the helper routines called
by the programs.  The names of every helper's dummies / locals start with 'z'
and are disjoint from the names declared in `s` (checked by the harness), so
an access observed by the interpreter can be attributed to a variable of `s`.
"""
import itertools
import re

TYPES = """  type :: dt
    real :: w
    real :: d(0:6)
    integer :: k
  end type dt
  type :: dt2
    type(dt) :: in
    real :: e(0:6)
  end type dt2
"""

MAIN_ARGS = "n, k, j, t, u, l, a, b, q, ix, sd, se, sa, c1, c2, c3, iv"
MAIN_DECL = """  integer, intent(in) :: n
  integer, intent(inout) :: k
  integer, intent(inout) :: j
  real, intent(inout) :: t
  real, intent(inout) :: u
  logical, intent(inout) :: l
  real, intent(inout) :: a(0:6)
  real, intent(inout) :: b(0:6)
  real, intent(inout) :: q(0:3,0:3)
  integer, intent(inout) :: ix(0:6)
  type(dt), intent(inout) :: sd
  type(dt2), intent(inout) :: se
  type(dt), intent(inout) :: sa(0:3)
  integer, intent(inout) :: c1
  integer, intent(inout) :: c2
  integer, intent(inout) :: c3
  integer, intent(inout) :: iv(8)
  real, allocatable :: al(:)
  real, allocatable :: bl(:)
  integer :: i
  integer :: ii
"""

# ---------------------------------------------------------------------------
# helper routines (name -> source)
# ---------------------------------------------------------------------------
HELPERS = {}


def _sub(name, args, decls, body, prefix=""):
    text = f"{prefix}subroutine {name}({args})\n"
    text += "".join(f"  {d}\n" for d in decls)
    text += "".join(f"  {b}\n" for b in body)
    text += f"end subroutine {name}\n"
    HELPERS[name] = text


def _fun(name, rtype, args, decls, body, prefix=""):
    text = f"{prefix}{rtype} function {name}({args})\n"
    text += "".join(f"  {d}\n" for d in decls)
    text += "".join(f"  {b}\n" for b in body)
    text += f"end function {name}\n"
    HELPERS[name] = text


def _intent(word):
    return f", intent({word})" if word != "no" else ""


# scalar real dummy, every intent x what the body really does
for _it, _full in (("in", "in"), ("out", "out"), ("io", "inout"), ("no", "no")):
    _d = f"real{_intent(_full)} :: zx"
    if _it != "out":
        _sub(f"c_{_it}_r", "zx", [_d, "real :: zl"], ["zl = zx"])
        _sub(f"c_{_it}_n", "zx", [_d], [])
    if _it != "in":
        _sub(f"c_{_it}_w", "zx", [_d], ["zx = 2.5"])
    if _it in ("io", "no"):
        _sub(f"c_{_it}_rw", "zx", [_d], ["zx = zx + 1.0"])
        _sub(f"c_{_it}_cw", "zx, zf", [_d, "integer, intent(in) :: zf"],
             ["if (zf > 1) then", "  zx = 2.5", "end if"])
_sub("cp", "zx, zy", ["real, intent(out) :: zx", "real, intent(in) :: zy"],
     ["zx = zy"])
_sub("sw", "zx, zy", ["real, intent(inout) :: zx", "real, intent(inout) :: zy",
                      "real :: zl"], ["zl = zx", "zx = zy", "zy = zl"])
_sub("ci_w", "zi", ["integer, intent(out) :: zi"], ["zi = 2"])
_sub("ci_rw", "zi", ["integer, intent(inout) :: zi"], ["zi = zi + 1"])
# array dummies
_sub("ar_r", "zv", ["real, intent(in) :: zv(0:6)", "real :: zl"], ["zl = zv(1)"])
_sub("ar_w1", "zv", ["real, intent(inout) :: zv(0:6)"], ["zv(1) = 2.5"])
_sub("ar_ws", "zv, zn", ["integer, intent(in) :: zn", "real, intent(inout) :: zv(0:zn)"],
     ["zv(0:zn) = 1.5"])
_sub("ar_sq", "zv", ["real, intent(inout) :: zv(0:2)"], ["zv(2) = zv(0)"])
_sub("as_w", "zv", ["real, intent(inout) :: zv(:)", "integer :: zi"],
     ["do zi = 1, size(zv)", "  zv(zi) = 0.5", "end do"])
_sub("as_r", "zv, zr", ["real, intent(in) :: zv(:)", "real, intent(out) :: zr"],
     ["zr = sum(zv)"])
_sub("ai_w", "zw", ["integer, intent(inout) :: zw(0:6)"], ["zw(1) = 2"])
# structure dummies
_sub("st_w", "zs", ["type(dt), intent(inout) :: zs"], ["zs%w = zs%d(1)"])
_sub("st_r", "zs, zr", ["type(dt), intent(in) :: zs", "real, intent(out) :: zr"],
     ["zr = zs%w"])
_sub("st_n", "zs", ["type(dt), intent(inout) :: zs"], [])
# pure / elemental subroutines
_sub("p_out", "zx", ["real, intent(out) :: zx"], ["zx = 1.5"], "pure ")
_sub("p_io", "zx", ["real, intent(inout) :: zx"], ["zx = zx + 1.0"], "pure ")
_sub("p_in", "zx", ["real, intent(in) :: zx", "real :: zl"], ["zl = zx"], "pure ")
_sub("p_cp", "zx, zy", ["real, intent(out) :: zx", "real, intent(in) :: zy"],
     ["zx = zy"], "pure ")
_sub("p_ar", "zv", ["real, intent(inout) :: zv(0:6)"], ["zv(1) = 0.5"], "pure ")
_sub("e_io", "zx", ["real, intent(inout) :: zx"], ["zx = zx * 2.0"], "elemental ")
_sub("e_out", "zx", ["real, intent(out) :: zx"], ["zx = 0.25"], "pure elemental ")
# functions
_fun("fr", "real", "zx", ["real :: zx"], ["fr = zx * 2.0"])
_fun("fw", "real", "zx", ["real, intent(inout) :: zx"],
     ["zx = zx + 1.0", "fw = zx"])
_fun("fp", "real", "zx", ["real, intent(in) :: zx"], ["fp = zx + 0.5"], "pure ")
_fun("fn", "real", "zx", ["real :: zx"], ["fn = 1.5"])
_fun("ifw", "integer", "zi", ["integer, intent(inout) :: zi"],
     ["zi = zi + 1", "ifw = zi"])
_fun("ifr", "integer", "zi", ["integer, intent(in) :: zi"], ["ifr = zi + 1"])
_fun("fa", "real", "zv, zi", ["real, intent(in) :: zv(0:6)",
                               "integer, intent(in) :: zi"], ["fa = zv(zi)"])
_fun("fs", "real", "zv", ["real, intent(in) :: zv(:)"], ["fs = sum(zv)"])
_fun("fst", "real", "zs", ["type(dt), intent(in) :: zs"], ["fst = zs%d(2)"])

#: category of each helper (used in violation signatures)
CATEGORY = {}
for _n, _t in HELPERS.items():
    _pure = _t.startswith("pure ") or _t.startswith("elemental ")
    _isfun = " function " in _t.split("\n")[0]
    CATEGORY[_n] = ("pure-" if _pure else "") + ("function" if _isfun else "subroutine")

# ---------------------------------------------------------------------------
# operand shapes
# ---------------------------------------------------------------------------
#: scalar real designators (usable as targets, rvalues and actual arguments)
SREF = ["t", "a(k)", "a(k + j)", "a(ix(k))", "a(2 * k - 1)", "q(k, j)",
        "q(k, ix(j))", "sd%w", "sd%d(k)", "sd%d(ix(k))", "se%in%w", "se%in%d(k)",
        "se%e(j)", "sa(k)%w", "sa(k)%d(j)", "sa(ix(k))%d(k + 1)", "a(sd%k)",
        "a(ubound(b, 1) - k)", "a(size(b(0:n)))", "a(ifr(k))"]
#: further scalar real rvalues
SEXPR = ["1.5", "u", "real(k)", "abs(u)", "max(t, u)", "t * u + b(k)",
         "sum(a(1:n))", "sum(b)", "maxval(a(0:n))", "dot_product(a(0:n), b(0:n))",
         "real(size(a))", "real(size(a(1:n)))", "real(size(sa(k)%d))",
         "real(ubound(sa(j)%d, 1))", "real(lbound(b, 1))", "real(lbound(sa(k)%d, 1))", "merge(t, u, l)",
         "fr(u)", "fw(u)", "fp(u)", "fn(u)", "fr(a(ix(k)))", "fw(sd%d(k))",
         "fa(a, k)", "fa(b, ix(j))", "fs(a(1:n))", "fs(sd%d)", "fst(sd)",
         "fst(sa(k))", "fr(fw(u))", "-b(k + 1)", "b(k) ** 2", "a(k) / b(j + 1)",
         "real(ifw(j))", "sum(sa(k)%d(0:n))", "sum(q(k, :))", "sum(q(0:n, j))"]
#: array-section targets and conformable array rvalues (extent n)
ATGT = ["a(1:n)", "a(k:k + n - 1)", "sd%d(1:n)", "se%in%d(1:n)", "sa(k)%d(1:n)",
        "q(1:n, j)", "q(k, 1:n)", "a(ix(k):ix(k) + n - 1)"]
AEXPR = ["b(1:n)", "2.0 * b(0:n - 1)", "b(1:n) + a(0:n - 1)", "t", "sd%d(0:n - 1)",
         "q(0:n - 1, k)", "abs(b(1:n)) + u", "b(j:j + n - 1)", "a(2:n + 1)",
         "max(b(1:n), t)", "sa(j)%d(1:n) * se%e(1:n)", "fr(u) + b(1:n)",
         "merge(a(1:n), b(1:n), b(1:n) > 2.0)"]
WHOLE = [("a(:)", "b(:)"), ("a", "b"), ("a", "0.0"), ("a(:)", "b + 1.0"),
         ("sd%d", "a"), ("sd%d(:)", "se%e(:)"), ("q(:, j)", "q(:, k)"),
         ("q", "0.0"), ("q(:, :)", "q(:, :) + 1.0"), ("se%e", "sd%d * 2.0"),
         ("b", "a(6:0:-1)"), ("a(0:6:2)", "b(0:3)")]
#: integer / logical statements
ISTMT = ["k = ix(j) + n", "j = k", "ix(k) = k + 1", "ix(ix(k)) = 1", "k = size(a)",
         "k = size(a(1:n))", "k = int(t)", "k = mod(k, 2)", "i = sd%k", "sd%k = k",
         "sa(k)%k = ix(sa(j)%k)", "k = ubound(q, 2)", "k = ifw(j)", "j = ifr(n) + ifw(k)",
         "ix(1:n) = ix(0:n - 1)", "k = count(a(0:n) > 1.0)", "k = max(n, k, j)",
         "k = k + 1", "i = i"]
LSTMT = ["l = t > u", "l = .not. l", "l = allocated(al)", "l = k == n .and. l",
         "l = any(a(0:n) > 2.0)", "l = all(b(k:n) > a(k:n))", "l = fw(u) > 1.0",
         "l = sd%w > a(ix(k)) .or. l"]
#: conditions
CONDS = ["l", "t > u", "a(k) > 1.0", "k == n", "sd%w > a(ix(k))", ".not. l",
         ".not. allocated(al)", "any(a(0:n) > 2.0)", "fw(u) > 1.0", "size(a(0:n)) > 2",
         "sa(k)%d(j) > se%in%d(n)", "k < n .and. b(k) > 1.0", "fr(a(j)) > t",
         "ubound(sa(k)%d, 1) > n + 4"]
#: loop headers  (start, stop[, step])
LOOPS = ["1, n", "n, 1, -1", "0, n, 2", "k, n", "1, ix(k)", "sd%k, 3", "0, size(a) - 1",
         "lbound(a, 1), ubound(a, 1)", "1, max(n, k)", "1, 3, j", "ix(j), ix(k)",
         "1, size(a(1:n))", "1, ifr(n)", "1, ifw(j)", "n - 1, n + 1", "1, sa(k)%k"]
#: loop bodies over i
LBODY = ["a(i) = b(i) + 1.0", "t = t + a(i)", "a(i) = a(i - 1)", "sd%d(i) = a(ix(i))",
         "q(i, j) = q(j, i) + u", "sa(1)%d(i) = real(i)", "b(i) = fr(a(i))",
         "call c_io_rw(a(i))", "k = i", "if (a(i) > 1.0) then\n  b(i) = 0.0\nend if",
         "call random_number(b(i))", "u = fw(t)"]

# user calls: (callee, [argument shape classes])
SCALAR_CALLEES = [n for n in HELPERS if re.match(r"(c|p|e)_(in|out|io|no)_", n)
                  or n in ("p_out", "p_io", "p_in", "e_io", "e_out")]
CALL_EXTRA = ["call cp(t, u)", "call cp(a(k), a(k + 1))", "call cp(zy=u, zx=t)",
              "call cp(sd%w, t + 1.0)", "call cp(t, fw(u))", "call cp(a(ifw(j)), u)",
              "call p_cp(t, u)", "call p_cp(a(k), sd%d(j))", "call p_cp(zy=t, zx=sd%w)",
              "call sw(t, u)", "call sw(a(k), b(k))", "call sw(sd%w, sa(k)%w)",
              "call ci_w(k)", "call ci_w(ix(k))", "call ci_w(sd%k)", "call ci_rw(j)",
              "call ci_rw(ix(j + 1))", "call ci_rw(sa(k)%k)",
              "call ar_r(a)", "call ar_r(sd%d)", "call ar_r(b + 1.0)", "call ar_r(sa(k)%d)",
              "call ar_w1(a)", "call ar_w1(sd%d)", "call ar_w1(sa(k)%d)", "call ar_w1(se%in%d)",
              "call ar_ws(a, n)", "call ar_ws(a(k), n)", "call ar_ws(sd%d, n)",
              "call ar_ws(q, n)", "call ar_ws(q(0, j), 2)",
              "call ar_sq(a(k))", "call ar_sq(a(ix(k)))", "call ar_sq(sd%d(k))",
              "call ar_sq(q(1, k))",
              "call as_w(a)", "call as_w(a(1:n))", "call as_w(sd%d(k:n))", "call as_w(q(:, j))",
              "call as_w(sa(k)%d)", "call as_w(a(0:6:2))",
              "call as_r(a, t)", "call as_r(a(1:n), a(0))", "call as_r(b(1:n) * 2.0, u)",
              "call as_r(sd%d, sd%w)", "call ai_w(ix)", "call ai_w(iv)",
              "call st_w(sd)", "call st_w(sa(k))", "call st_w(se%in)", "call st_n(sd)",
              "call st_r(sd, t)", "call st_r(sa(ix(k)), a(k))", "call st_r(se%in, se%e(k))",
              "call p_ar(a)", "call p_ar(sd%d)", "call p_ar(sa(k)%d)"]

# intrinsic subroutines: texts of call statements (all with non-character arguments)
ISUB = []
for _x in ["t", "a(k)", "a(ix(k))", "sd%w", "sd%d(k)", "sa(k)%w", "a", "a(1:n)",
           "sd%d", "q(:, j)", "q", "sa(j)%d(k:n)", "se%e"]:
    ISUB.append(f"call random_number({_x})")
ISUB.append("call random_number(harvest=u)")
for _x in ["t", "a(k)", "sd%w", "sa(ix(k))%w", "se%in%d(j)"]:
    ISUB.append(f"call cpu_time({_x})")
ISUB.append("call cpu_time(time=u)")
ISUB += ["call system_clock(c1)", "call system_clock(c1, c2)",
         "call system_clock(c1, c2, c3)", "call system_clock(count=k)",
         "call system_clock(count_rate=c2)", "call system_clock(count_max=ix(k))",
         "call system_clock(count_rate=t)", "call system_clock(ix(j), count_max=sd%k)",
         "call system_clock(count=c1, count_rate=c2, count_max=c3)",
         "call date_and_time(values=iv)", "call date_and_time(values=iv(1:8))",
         "call mvbits(k, 0, 2, j, 1)", "call mvbits(ix(k), n, 1, c1, j)",
         "call mvbits(from=k, frompos=0, len=j, to=sd%k, topos=n)",
         "call mvbits(3, 0, 2, ix(j), 0)",
         "call get_command_argument(1, length=c1)",
         "call get_command_argument(k, length=c1, status=c2)",
         "call get_command_argument(number=ix(k), status=sd%k)",
         "call get_command(length=c1)", "call get_command(length=ix(k), status=c2)",
         "call get_environment_variable('HOME', length=c1)",
         "call get_environment_variable('HOME', length=c1, status=ix(j), trim_name=l)",
         "call random_seed(size=c1)", "call random_seed(size=ix(k))",
         "call random_seed(get=iv)", "call random_seed(put=iv)",
         "call random_seed(put=iv + k)", "call random_seed()",
         "call random_init(l, .true.)", "call random_init(repeatable=k > n, image_distinct=l)",
         "call co_sum(a)", "call co_sum(t)", "call co_sum(a(1:n), stat=c1)",
         "call co_max(sd%w)", "call co_max(sa(k)%d, result_image=1)",
         "call co_min(a(ix(k)), stat=ix(j))", "call co_broadcast(a, 1)",
         "call co_broadcast(sd%d(k), source_image=j, stat=c2)",
         "call execute_command_line('true', exitstat=c1)",
         "call execute_command_line('true', l, c1, c2)",
         "call execute_command_line('true', wait=l, cmdstat=ix(k))"]

# allocate / deallocate: short sequences (locals al, bl start unallocated)
ALLOC = ["allocate(al(n))", "allocate(al(k:n))", "allocate(al(n), stat=c1)",
         "allocate(al(ix(k)), stat=ix(j))", "allocate(al(n), stat=sd%k)",
         "allocate(al(0:n), source=a(0:n))", "allocate(al(n), source=t)",
         "allocate(al(n), source=sd%w + u)", "allocate(al(n), bl(k))",
         "allocate(al(n), bl(k), stat=c2)", "allocate(al(n), bl(n), source=b(1:n))",
         "allocate(al(0:n), source=sd%d(k:k + n), stat=c1)",
         "allocate(al(n), mold=a(1:n))",
         "allocate(al(0:n))\nal(:) = a(0:n)\nallocate(bl, source=al)",
         "allocate(al(0:n))\nal(:) = 1.5\nallocate(bl, mold=al)\nbl(:) = al(:)",
         "allocate(al(n))\ndeallocate(al)",
         "allocate(al(n))\ndeallocate(al, stat=c1)",
         "allocate(al(n), bl(2))\ndeallocate(al, bl, stat=ix(k))",
         "allocate(al(0:n))\nal(:) = b(0:n)\nt = sum(al)\ndeallocate(al)",
         "allocate(al(0:n))\nal(:) = b(0:n)\ncall move_alloc(al, bl)\nu = bl(0)",
         "allocate(al(0:n))\nal(:) = 0.5\ncall move_alloc(from=al, to=bl, stat=c1)",
         "allocate(al(n))\nal(:) = 0.5\nallocate(bl(2))\ncall move_alloc(al, bl)\nl = allocated(al)",
         "allocate(al(0:n))\ncall random_number(al)\na(0:n) = al",
         "allocate(al(0:n))\ncall as_w(al)\ncall ar_r(a + sum(al))",
         "allocate(al(0:2))\nal(:) = 1.0\ndo i = 0, size(al) - 1\n  al(i) = al(i) + a(i)\nend do",
         "if (.not. allocated(al)) then\n  allocate(al(n), stat=c1)\nend if"]


def indent(text, pre="  "):
    return "".join(pre + line + "\n" for line in text.split("\n"))


def loop(head, body, var="i"):
    return f"do {var} = {head}\n{indent(body).rstrip()}\nend do"


def ifblk(cond, then, els=None):
    text = f"if ({cond}) then\n{indent(then).rstrip()}\n"
    if els is not None:
        text += f"else\n{indent(els).rstrip()}\n"
    return text + "end if"


_SIDE_EFFECT = re.compile(r"\bi?fw\((\w+)")


def conforming(body):
    """Fortran 2018 10.1.4: a function reference must not define a variable
    that is referenced elsewhere in the same statement.  fw/ifw define their
    argument; statements that also mention that variable are not generated."""
    for line in body.split("\n"):
        for var in _SIDE_EFFECT.findall(line):
            if len(re.findall(rf"\b{var}\b", line)) > 1:
                return False
    return True


def call_stmts():
    out = []
    actuals = SREF[:16]
    for callee in SCALAR_CALLEES:
        two = callee.endswith("_cw")
        intent_in = "_in_" in callee or callee == "p_in"
        for act in actuals:
            out.append(f"call {callee}({act}{', k' if two else ''})")
        if intent_in:
            for act in ("t + 1.0", "fw(u)", "sum(a(1:n))", "fr(a(k)) * 2.0"):
                out.append(f"call {callee}({act})")
    return out + CALL_EXTRA


def corpus(tier):
    """List of (key, family, body text); deterministic; quick is a subset of
    thorough (same keys)."""
    rich = tier == "thorough"
    out = []

    def add(fam, body):
        if conforming(body):
            out.append((fam + ":" + body.replace("\n", " ; "), fam, body))

    # A: scalar real assignments: every target x every rvalue
    rvals = SREF + SEXPR
    for tgt, rv in itertools.product(SREF, rvals):
        add("A", f"{tgt} = {rv}")
    # A2: accumulate / self-reference shapes
    for tgt in SREF:
        add("A2", f"{tgt} = {tgt} + 1.0")
        add("A2", f"{tgt} = u * {tgt} - {tgt}")
    if rich:
        # two-level nesting of the expression
        for tgt in SREF[:6]:
            for rv1, rv2 in itertools.product(rvals, rvals):
                add("AN", f"{tgt} = ({rv1}) * 2.0 - ({rv2})")
    # B: array assignments
    for tgt, rv in itertools.product(ATGT, AEXPR):
        add("B", f"{tgt} = {rv}")
    for tgt, rv in WHOLE:
        add("B", f"{tgt} = {rv}")
    # C: integer / logical
    for stmt in ISTMT + LSTMT:
        add("C", stmt)
    # D: loops
    for head, body in itertools.product(LOOPS, LBODY):
        add("D", loop(head, body))
    for head in LOOPS[:6]:
        add("D2", loop("0, n", loop(head, "q(i, ii) = q(ii, i) + a(i)"), var="ii"))
        add("D2", loop(head, loop("0, i", "t = t + q(ii, i)", var="ii")))
    # E: if blocks
    bodies = ["t = u", "a(k) = b(k)", "call c_io_w(u)", "k = k + 1",
              "sd%d(k) = sa(k)%w", "call random_number(t)"]
    for cond in CONDS:
        for idx, body in enumerate(bodies):
            add("E", ifblk(cond, body))
            add("E", ifblk(cond, body, bodies[(idx + 1) % len(bodies)]))
    # F: while loops
    add("F", "do while (k < n)\n  k = k + 1\n  a(k) = b(k)\nend do")
    add("F", "do while (ix(k) < 3 .and. k < 3)\n  k = k + 1\n  t = t + a(ix(k))\nend do")
    add("F", "do while (fw(u) < 3.0)\n  sd%d(k) = u\nend do")
    add("F", "do while (size(a(0:k)) < n)\n  k = k + 1\nend do")
    # G: user calls
    for stmt in call_stmts():
        add("G", stmt)
    # H: intrinsic subroutines
    for stmt in ISUB:
        add("H", stmt)
    # I: allocate / deallocate
    for body in ALLOC:
        add("I", body)
    # J: two-level nesting of statements inside loops / if blocks
    inner = (["a(i) = b(i) + t", "sd%d(i) = a(ix(i))", "t = t + sa(k)%d(i)",
              "call c_io_rw(a(i))", "call p_io(b(i))", "call cp(a(i), b(i))",
              "call random_number(a(i))", "k = size(a(0:i))", "u = fw(t)",
              "call cpu_time(sd%d(i))", "call system_clock(count=ix(i))",
              "call as_w(q(:, i))", "call st_w(sa(i))", "q(i, :) = q(:, i)"])
    for cond, stmt in itertools.product(CONDS[:6], inner):
        add("J", loop("1, n", ifblk(cond, stmt)))
        add("J", ifblk(cond, loop("1, n", stmt)))
    if rich:
        for cond, head, stmt in itertools.product(CONDS, LOOPS, inner):
            add("JN", loop(head, ifblk(cond, stmt, "t = a(i)")))
            add("JN", ifblk(cond, loop(head, stmt), loop(head, "b(i) = t")))
        for stmt in call_stmts() + ISUB:
            add("JC", loop("1, n", ifblk("a(i) > 1.0", stmt)))
    keys = [k for k, _f, _b in out]
    if len(set(keys)) != len(keys):
        dup = sorted({k for k in keys if keys.count(k) > 1})
        raise RuntimeError(f"duplicate program keys: {dup[:3]}")
    return out


_CALLED = re.compile(r"\b(" + "|".join(sorted(HELPERS, key=len, reverse=True)) + r")\b")


def module_source(bodies):
    """One module holding the helpers used and one main routine s<idx> per body."""
    used = sorted({m for body in bodies for m in _CALLED.findall(body)})
    text = "module c11_mod\n" + TYPES + "contains\n"
    for idx, body in enumerate(bodies):
        text += f"subroutine s{idx}({MAIN_ARGS})\n" + MAIN_DECL
        text += indent(body) + f"end subroutine s{idx}\n"
    for name in used:
        text += HELPERS[name]
    return text + "end module c11_mod\n"
