"""C11 helper: E1 with a statement stack, the effect of ALLOCATE(source=/mold=)
and a model of the Fortran intrinsic SUBROUTINES, driven by a table of the
argument intents written from the Fortran 2018 standard (16.9).

Nothing in mc/fortsem is modified: the additions are a subclass of the E1
interpreter (statement stack + ALLOCATE with source=/mold=) and a hooks object
(`intrinsic_stmt`, `call`, `intrinsic`).
"""
from fractions import Fraction as F

from psyclone.psyir import nodes as N

from mc.fortsem import interp as I
from mc.fortsem import intrinsics as X

# ---------------------------------------------------------------------------
# Fortran 2018, 16.9: dummy arguments (standard order) and their INTENT for
# every intrinsic subroutine.  "in" arguments are only read, "out" arguments
# are defined by the call, "inout" arguments may be read and (re)defined.
# ---------------------------------------------------------------------------
SUBROUTINE_ARGS = {
    "CPU_TIME": [("time", "out")],                                    # 16.9.57
    "DATE_AND_TIME": [("date", "out"), ("time", "out"), ("zone", "out"),
                      ("values", "out")],                             # 16.9.59
    "EXECUTE_COMMAND_LINE": [("command", "in"), ("wait", "in"),
                             ("exitstat", "inout"), ("cmdstat", "out"),
                             ("cmdmsg", "inout")],                    # 16.9.73
    "GET_COMMAND": [("command", "out"), ("length", "out"), ("status", "out"),
                    ("errmsg", "inout")],                             # 16.9.82
    "GET_COMMAND_ARGUMENT": [("number", "in"), ("value", "out"),
                             ("length", "out"), ("status", "out"),
                             ("errmsg", "inout")],                    # 16.9.83
    "GET_ENVIRONMENT_VARIABLE": [("name", "in"), ("value", "out"),
                                 ("length", "out"), ("status", "out"),
                                 ("trim_name", "in"), ("errmsg", "inout")],
    "MOVE_ALLOC": [("from", "inout"), ("to", "out"), ("stat", "out"),
                   ("errmsg", "inout")],                              # 16.9.137
    "MVBITS": [("from", "in"), ("frompos", "in"), ("len", "in"),
               ("to", "inout"), ("topos", "in")],                     # 16.9.138
    "RANDOM_INIT": [("repeatable", "in"), ("image_distinct", "in")],
    "RANDOM_NUMBER": [("harvest", "out")],                            # 16.9.155
    "RANDOM_SEED": [("size", "out"), ("put", "in"), ("get", "out")],  # 16.9.156
    "SYSTEM_CLOCK": [("count", "out"), ("count_rate", "out"),
                     ("count_max", "out")],                           # 16.9.186
    # collective subroutines (A need not be a coarray)        16.9.46 - 16.9.50
    "CO_BROADCAST": [("a", "inout"), ("source_image", "in"), ("stat", "out"),
                     ("errmsg", "inout")],
    "CO_MAX": [("a", "inout"), ("result_image", "in"), ("stat", "out"),
               ("errmsg", "inout")],
    "CO_MIN": [("a", "inout"), ("result_image", "in"), ("stat", "out"),
               ("errmsg", "inout")],
    "CO_SUM": [("a", "inout"), ("result_image", "in"), ("stat", "out"),
               ("errmsg", "inout")],
}


def bind_intrinsic_args(name, node):
    """{dummy name: (argument node, intent)} for a call node to the intrinsic
    subroutine `name` (positional arguments follow the standard's order)."""
    table = SUBROUTINE_ARGS[name]
    intents = dict(table)
    out = {}
    pos = 0
    for arg, kw in zip(node.arguments, node.argument_names):
        if kw is None:
            if pos >= len(table):
                raise I.UB("args", f"too many arguments to {name}")
            dummy = table[pos][0]
            pos += 1
        else:
            dummy = kw.lower()
            if dummy not in intents:
                raise I.UB("args", f"{name} has no argument {kw}")
        out[dummy] = (arg, intents[dummy])
    return out


def _cells(stor):
    if isinstance(stor, I.Cell):
        return [stor]
    if isinstance(stor, I.ArrayVal):
        if not stor.allocated:
            raise I.UB("unallocated", stor.name)
        return list(stor.cells)
    raise I.Unsupported("structure argument to an intrinsic subroutine")


def _define(interp, frame, arg, values):
    """Defines every cell of the object designated by `arg`; values is a
    callable position -> value (of a type the cell accepts)."""
    stor = interp.designator(arg, frame)
    for pos, cell in enumerate(_cells(stor)):
        val = values(pos)
        if cell.typ == "real":
            val = F(val)
        elif cell.typ == "int":
            val = int(val)
        interp._wr(cell, val, arg)


def _is_designator(arg):
    return isinstance(arg, N.Reference) and not isinstance(arg, N.Call)


def intrinsic_subroutine(interp, name, node, frame):
    """One possible execution of the intrinsic subroutine (the values that a
    nondeterministic intrinsic returns are fixed, admissible ones)."""
    args = bind_intrinsic_args(name, node)
    # every INTENT(IN) argument is evaluated (reads are traced)
    vals = {}
    for dummy, (arg, intent) in args.items():
        if intent == "in":
            vals[dummy] = interp.eval(arg, frame)
        elif not _is_designator(arg):
            raise I.UB("args", f"{name}: {dummy} is not a variable")

    def has(dummy):
        return dummy in args

    if name == "CPU_TIME":
        _define(interp, frame, args["time"][0], lambda p: F(5, 4))
    elif name == "DATE_AND_TIME":
        for dummy in ("date", "time", "zone"):
            if has(dummy):
                raise I.Unsupported("character argument")
        if has("values"):
            stor = interp.designator(args["values"][0], frame)
            cells = _cells(stor)
            if len(cells) < 8:
                raise I.UB("args", "VALUES shorter than 8")
            for cell, val in zip(cells[:8], (2024, 2, 29, 60, 13, 14, 15, 16)):
                interp._wr(cell, val, args["values"][0])
    elif name == "EXECUTE_COMMAND_LINE":
        if has("cmdmsg"):
            raise I.Unsupported("character argument")
        if has("exitstat"):
            _define(interp, frame, args["exitstat"][0], lambda p: 0)
        if has("cmdstat"):
            _define(interp, frame, args["cmdstat"][0], lambda p: 0)
    elif name in ("GET_COMMAND", "GET_COMMAND_ARGUMENT",
                  "GET_ENVIRONMENT_VARIABLE"):
        for dummy in ("command", "value", "errmsg"):
            if has(dummy):
                raise I.Unsupported("character argument")
        if has("length"):
            _define(interp, frame, args["length"][0], lambda p: 0)
        if has("status"):
            _define(interp, frame, args["status"][0], lambda p: 1)
    elif name == "MOVE_ALLOC":
        if has("errmsg"):
            raise I.Unsupported("character argument")
        src = interp.designator(args["from"][0], frame)
        dst = interp.designator(args["to"][0], frame)
        if not (isinstance(src, I.ArrayVal) and isinstance(dst, I.ArrayVal)):
            raise I.UB("args", "move_alloc of non-arrays")
        if src is dst:
            raise I.UB("args", "move_alloc(x, x)")
        if src.allocated:
            dst.bounds = list(src.bounds)
            dst.cells = [I.Cell((dst.name, idx), dst.typ, parent=dst, pos=p)
                         for p, idx in enumerate(I.index_tuples(dst.bounds))]
            dst.allocated = True
            for new, old in zip(dst.cells, src.cells):
                # TO receives the value of FROM (a descriptor move: the
                # elements of FROM are not fetched by the program)
                interp._wr(new, old.v, args["to"][0])
        else:
            dst.allocated = False
            dst.cells = []
        src.allocated = False
        src.cells = []
        if has("stat"):
            _define(interp, frame, args["stat"][0], lambda p: 0)
    elif name == "MVBITS":
        dst = interp.designator(args["to"][0], frame)
        if not isinstance(dst, I.Cell):
            raise I.Unsupported("mvbits on arrays")
        old = interp.read(dst, args["to"][0])
        frm, pos, num, tpos = (vals["from"], vals["frompos"], vals["len"],
                               vals["topos"])
        for val in (old, frm, pos, num, tpos):
            if val is I.POISON or not I._isint(val):
                raise I.UB("poison-control", "mvbits")
        if min(pos, num, tpos) < 0 or pos + num > 32 or tpos + num > 32 \
                or frm < 0 or old < 0:
            raise I.UB("args", "mvbits range")
        mask = (1 << num) - 1
        new = (old & ~(mask << tpos)) | (((frm >> pos) & mask) << tpos)
        if new >= 1 << 31:
            raise I.UB("overflow", "mvbits sign bit")
        interp._wr(dst, new, args["to"][0])
    elif name == "RANDOM_INIT":
        pass
    elif name == "RANDOM_NUMBER":
        _define(interp, frame, args["harvest"][0],
                lambda p: F(2 * (p % 32) + 1, 64))
    elif name == "RANDOM_SEED":
        if len(args) > 1:
            raise I.UB("args", "random_seed with more than one argument")
        if has("size"):
            _define(interp, frame, args["size"][0], lambda p: 8)
        if has("put"):
            val = vals["put"]
            if not isinstance(val, I.ArrVal) or len(val.vals) < 8:
                raise I.UB("args", "PUT shorter than the seed")
        if has("get"):
            stor = interp.designator(args["get"][0], frame)
            if len(_cells(stor)) < 8:
                raise I.UB("args", "GET shorter than the seed")
            _define(interp, frame, args["get"][0], lambda p: 7 * p + 3)
    elif name in ("CO_BROADCAST", "CO_MAX", "CO_MIN", "CO_SUM"):
        # executed by one image: A is (re)defined with the value computed
        # over all images, i.e. its own value
        if has("errmsg"):
            raise I.Unsupported("character argument")
        for dummy in ("source_image", "result_image"):
            if has(dummy) and vals[dummy] != 1:
                raise I.UB("args", f"{dummy} is not an image index")
        stor = interp.designator(args["a"][0], frame)
        for cell in _cells(stor):
            val = interp._rd(cell, args["a"][0])
            if val is I.POISON:
                raise I.UB("poison-control", "undefined argument to a collective")
            interp._wr(cell, val, args["a"][0])
        if has("stat"):
            _define(interp, frame, args["stat"][0], lambda p: 0)
    elif name == "SYSTEM_CLOCK":
        consts = {"count": 12345, "count_rate": 1000, "count_max": 2147483647}
        for dummy, val in consts.items():
            if has(dummy):
                _define(interp, frame, args[dummy][0], lambda p, v=val: v)
    else:
        raise I.Unsupported(f"intrinsic subroutine {name}")
    return True


def _mask_fn(name):
    def run(vals):
        if any(v is I.POISON for v in vals):
            raise I.UB("poison-control", name)
        if not all(isinstance(v, bool) for v in vals):
            raise I.UB("type", name)
        if name == "ANY":
            return any(vals)
        if name == "ALL":
            return all(vals)
        return sum(1 for v in vals if v)
    return run


class Hooks:
    """hooks object for the E1 interpreter."""

    @staticmethod
    def intrinsic_stmt(interp, node, frame):
        name = node.intrinsic.name
        if name in SUBROUTINE_ARGS:
            return intrinsic_subroutine(interp, name, node, frame)
        return False

    @staticmethod
    def call(interp, node, frame):
        """`call random_number(x)` read from source is a plain Call to an
        unresolved routine symbol: same model."""
        name = node.routine.name.upper()
        if name in SUBROUTINE_ARGS and isinstance(node.parent, N.Schedule):
            intrinsic_subroutine(interp, name, node, frame)
            return None
        raise I.Unsupported(f"call to unknown routine '{name}'")

    @staticmethod
    def intrinsic(interp, node, frame):
        name = node.intrinsic.name
        if name in ("ANY", "ALL", "COUNT"):
            pos, named = X._args(node)
            if len(pos) + len(named) != 1:
                raise I.Unsupported(f"{name} with dim=")
            arg = named.get("mask", pos[0] if pos else None)
            val = interp.eval(arg, frame)
            if not isinstance(val, I.ArrVal):
                raise I.UB("type", f"{name} of a scalar")
            return _mask_fn(name)(val.vals)
        return NotImplemented


class TInterp(I.Interp):
    """E1 + stack of the statements being executed + ALLOCATE with
    source= / mold= / unsubscripted allocate objects."""

    def __init__(self, root, tracer=None, horizon=20000):
        super().__init__(root, hooks=Hooks(), horizon=horizon, tracer=tracer)
        self.exec_stack = []

    def exec(self, node, frame):
        self.exec_stack.append(node)
        try:
            if isinstance(node, N.IntrinsicCall) and \
                    node.intrinsic.name == "ALLOCATE":
                self._tick()
                self._allocate(node, frame)
            else:
                super().exec(node, frame)
        finally:
            self.exec_stack.pop()

    def _allocate(self, node, frame):
        pos, named = X._args(node)
        for kw in named:
            if kw not in ("stat", "source", "mold"):
                raise I.Unsupported(f"allocate({kw}=)")
        src = None
        src_bounds = None
        for kw in ("source", "mold"):
            if kw in named:
                snode = named[kw]
                if _is_designator(snode):
                    stor = self.designator(snode, frame)
                    if isinstance(stor, I.ArrayVal):
                        if not stor.allocated:
                            raise I.UB("unallocated", stor.name)
                        # a whole array keeps its bounds; any other array
                        # expression has lower bounds 1
                        whole = type(snode) is N.Reference  # pylint: disable=unidiomatic-typecheck
                        src_bounds = [bnd if whole else (1, ext) for ext, bnd
                                      in zip(stor.shape, stor.bounds)]
                if kw == "source":
                    src = self.eval(snode, frame)
        plans = []
        for arg in pos:
            if isinstance(arg, N.ArrayReference):
                arr = self.storage(arg.symbol, frame, arg)
                bounds = []
                for idx in arg.indices:
                    if isinstance(idx, N.Range):
                        bounds.append(
                            (self._int(self.eval(idx.start, frame), "alloc"),
                             self._int(self.eval(idx.stop, frame), "alloc")))
                    else:
                        bounds.append(
                            (1, self._int(self.eval(idx, frame), "alloc")))
            elif type(arg) is N.Reference:  # pylint: disable=unidiomatic-typecheck
                arr = self.storage(arg.symbol, frame, arg)
                if src_bounds is None:
                    raise I.UB("args", "allocate without shape")
                bounds = list(src_bounds)
            else:
                raise I.Unsupported("allocate of a structure component")
            if not isinstance(arr, I.ArrayVal):
                raise I.UB("type", "allocate")
            if arr.allocated:
                raise I.UB("allocated", "already allocated")
            if len(bounds) != len(arr.bounds):
                raise I.UB("rank", "allocate")
            plans.append((arr, bounds, arg))
        for arr, bounds, arg in plans:
            arr.bounds = bounds
            arr.cells = [I.Cell((arr.name, idx), arr.typ, parent=arr, pos=p)
                         for p, idx in enumerate(I.index_tuples(bounds))]
            arr.allocated = True
            if src is not None:
                self._assign_array(arr, src, arg)
        if "stat" in named:
            cell = self.designator(named["stat"], frame)
            if not isinstance(cell, I.Cell):
                raise I.UB("type", "stat=")
            self._wr(cell, 0, named["stat"])


def run(tree, name, args, tracer):
    """('ok', interp) | ('ub', kind, msg); Unsupported propagates (harness)."""
    itp = TInterp(tree, tracer=tracer)
    try:
        itp.run(name, args)
    except I.UB as err:
        return ("ub", err.kind, str(err))
    except RecursionError:
        return ("ub", "recursion", "python recursion limit")
    return ("ok", itp)
