"""C25 helpers: generated GOcean kernels / algorithms / configuration file, the
frozen reference table of built-in regions, the region evaluator, the mock
dl_esm_inf field objects and the E1 executor that records which grid points a
lowered GOcean invoke visits.

Nothing in this module looks at PSyclone's ``GOLoop._bounds_lookup``: the
reference regions are a frozen transcription (REF) and the text of the
generated configuration file (custom_entry)."""
import itertools
import os
import re

OFFSETS = ["go_offset_ne", "go_offset_sw", "go_offset_any"]
TYPES = ["go_ct", "go_cu", "go_cv", "go_cf", "go_every"]
BUILTIN = ["go_all_pts", "go_internal_pts"]
CUSTOM = ["c25_lit", "c25_nshalo", "c25_row", "c25_corner", "c25_wide",
          "c25_shrink"]
EXTERNAL = "go_external_pts"   # valid metadata value; PSyclone has a region for
#                                it only for go_offset_any or go_every kernels


# ---------------------------------------------------------------------------
# Reference model
# ---------------------------------------------------------------------------
def _ent(ilo, ihi, olo, ohi):
    """(outer start, outer stop, inner start, inner stop) in config syntax."""
    def one(base, delta):
        return base if delta == 0 else f"{base}{delta:+d}"
    return (one("{start}", olo), one("{stop}", ohi),
            one("{start}", ilo), one("{stop}", ihi))


# Frozen transcription of the built-in regions (what dl_esm_inf's field
# constructors store in fld%internal / fld%whole for each index offset and
# grid-point type, as modelled by PSyclone's table at the pinned revision).
# Arguments of _ent: inner lo/hi, outer lo/hi as deltas to {start}/{stop}.
REF = {}
for _typ, _all, _int in [
        ("go_ct", (-1, 1, -1, 1), (0, 0, 0, 0)),
        ("go_cu", (-1, 0, -1, 1), (0, -1, 0, 0)),
        ("go_cv", (-1, 1, -1, 0), (0, 0, 0, -1)),
        ("go_cf", (-1, 0, -1, 0), (-1, -1, -1, -1))]:
    REF[("go_offset_ne", _typ, "go_all_pts")] = _ent(*_all)
    REF[("go_offset_ne", _typ, "go_internal_pts")] = _ent(*_int)
for _typ, _all, _int in [
        ("go_ct", (-1, 1, -1, 1), (0, 0, 0, 0)),
        ("go_cu", (-1, 1, -1, 1), (0, 1, 0, 0)),
        ("go_cv", (-1, 1, -1, 1), (0, 0, 0, 1)),
        ("go_cf", (-1, 1, -1, 1), (0, 1, 0, 1))]:
    REF[("go_offset_sw", _typ, "go_all_pts")] = _ent(*_all)
    REF[("go_offset_sw", _typ, "go_internal_pts")] = _ent(*_int)
for _typ in TYPES[:4]:
    for _spc in BUILTIN:
        REF[("go_offset_any", _typ, _spc)] = _ent(-1, 0, -1, 0)
for _off in OFFSETS:
    for _spc in BUILTIN:
        REF[(_off, "go_every", _spc)] = _ent(-1, 1, -1, 1)
for _typ in TYPES[:4]:
    REF[("go_offset_any", _typ, EXTERNAL)] = _ent(-1, 0, -1, 0)
for _off in OFFSETS:
    REF[(_off, "go_every", EXTERNAL)] = _ent(-1, 1, -1, 1)


def legal(kern):
    """Does PSyclone have a region for this kernel?"""
    off, typ, spc = kern
    return spc != EXTERNAL or off == "go_offset_any" or typ == "go_every"


def combo_index(offset, typ):
    return OFFSETS.index(offset) * len(TYPES) + TYPES.index(typ)


def custom_entry(offset, typ, space):
    """The four bound expressions written into the generated config file for
    a user-defined iteration space (outer start/stop, inner start/stop)."""
    cmb = combo_index(offset, typ)
    return {
        "c25_lit": ("1", str(1 + cmb % 3), "2", str(2 + cmb // 3)),
        "c25_nshalo": ("{start}-1", "{stop}+1", "{start}", "{stop}"),
        "c25_row": ("{start}", "{start}", "{start}-1", "{stop}+1"),
        "c25_corner": ("{stop}", "{stop}+1", "{start}-2", "{start}-1"),
        "c25_wide": ("{start}-2", "{stop}+2", "2", "{stop} -1"),
        "c25_shrink": ("{start}+1", "{stop}-1", "{start}+2", "{stop}-2"),
    }[space]


def config_lines():
    out = []
    for off, typ, spc in itertools.product(OFFSETS, TYPES, CUSTOM):
        out.append(":".join((off, typ, spc) + custom_entry(off, typ, spc)))
    return out


def ev_bound(expr, start, stop):
    """Value of one bound expression: integers, {start}, {stop}, + and -."""
    text = expr.replace("{start}", str(start)).replace("{stop}", str(stop))
    text = text.replace(" ", "")
    toks = re.findall(r"[+-]|\d+", text)
    if "".join(toks) != text or not toks:
        raise ValueError(f"bound expression '{expr}' outside the evaluator")
    val, sign = 0, 1
    for tok in toks:
        if tok in "+-":
            sign = sign if tok == "+" else -sign
        else:
            val, sign = val + sign * int(tok), 1
    return val


def rect(entry, grid, start=None):
    """entry (outer start, outer stop, inner start, inner stop) evaluated on
    grid (xstart, xstop, ystart, ystop) -> (ilo, ihi, jlo, jhi).
    `start` overrides the value substituted for {start} in both directions."""
    xs, xe, ys, ye = grid
    if start is not None:
        xs = ys = start
    return (ev_bound(entry[2], xs, xe), ev_bound(entry[3], xs, xe),
            ev_bound(entry[0], ys, ye), ev_bound(entry[1], ys, ye))


def points(rec):
    ilo, ihi, jlo, jhi = rec
    return [(i, j) for j in range(jlo, jhi + 1) for i in range(ilo, ihi + 1)]


def grid_offset(kernels):
    """Index offset of the (mock) grid of an invoke: the one all its
    offset-specific kernels agree on, 'any' if there is none."""
    offs = sorted({k[0] for k in kernels if k[0] != "go_offset_any"})
    if len(offs) > 1:
        raise ValueError("kernels with different specific offsets")
    return offs[0] if offs else "go_offset_any"


def data_extent(grid):
    """Extent of every field's data array in the mock: (nx, ny)."""
    return grid[1] + 1, grid[3] + 1


def expected_rect(kern, clb, goff, grid, start=None):
    """Expected (ilo, ihi, jlo, jhi) of one kernel.

    kern = (offset, type, space); clb = bounds come from the constant-loop-
    bounds path; goff = index offset of the mock grid; `start` = value used
    for {start} (None = the grid's own internal start)."""
    off, typ, spc = kern
    if spc in BUILTIN or spc == EXTERNAL:
        if typ == "go_every":
            # every element of the data array, in both modes
            nx, ny = data_extent(grid)
            return (1, nx, 1, ny)
        if spc == EXTERNAL:
            # no field rectangle exists for it: the table in both modes
            return rect(REF[(off, typ, spc)], grid, start)
        if not clb:
            # the rectangle stored in the field object (never depends on
            # what PSyclone substitutes for {start})
            return rect(REF[(goff, typ, spc)], grid)
        return rect(REF[(off, typ, spc)], grid, start)
    return rect(custom_entry(off, typ, spc), grid, start)


# ---------------------------------------------------------------------------
# Generated sources
# ---------------------------------------------------------------------------
def kernel_source(name, kern):
    off, typ, spc = kern
    return f"""module {name}_mod
  use kind_params_mod
  use kernel_mod
  use argument_mod
  use field_mod
  use grid_mod
  implicit none
  type, extends(kernel_type) :: {name}
     type(go_arg), dimension(2) :: meta_args =            &
          (/ go_arg(GO_WRITE, {typ.upper()}, GO_POINTWISE),  &
             go_arg(GO_READ,  {typ.upper()}, GO_POINTWISE)   &
           /)
     integer :: ITERATES_OVER = {spc.upper()}
     integer :: index_offset = {off.upper()}
  contains
    procedure, nopass :: code => {name}_code
  end type {name}
contains
  subroutine {name}_code(i, j, a, b)
    implicit none
    integer, intent(in) :: i, j
    real(go_wp), intent(out), dimension(:,:) :: a
    real(go_wp), intent(in),  dimension(:,:) :: b
    a(i,j) = 1.0
  end subroutine {name}_code
end module {name}_mod
"""


def field_names(kernels):
    """Per kernel (written field, read field).  Field names end in the
    grid-point type the field lives on."""
    out = []
    for pos, kern in enumerate(kernels):
        suffix = kern[1][3:]
        out.append((f"w{pos + 1}_{suffix}", f"r_{suffix}"))
    return out


def alg_source(kernels):
    names = field_names(kernels)
    fields = []
    for pair in names:
        for one in pair:
            if one not in fields:
                fields.append(one)
    uses = "".join(f"  use k{p + 1}_mod, only: k{p + 1}\n"
                   for p in range(len(kernels)))
    decls = "".join(f"  type(r2d_field) :: {f}\n" for f in fields)
    calls = ", &\n               ".join(
        f"k{p + 1}({w}, {r})" for p, (w, r) in enumerate(names))
    return (f"program alg\n  use kind_params_mod\n  use grid_mod\n"
            f"  use field_mod\n{uses}  implicit none\n{decls}"
            f"  call invoke( {calls} )\nend program alg\n")


def write_sources(directory, kernels):
    os.makedirs(directory, exist_ok=True)
    for pos, kern in enumerate(kernels):
        with open(os.path.join(directory, f"k{pos + 1}_mod.f90"), "w",
                  encoding="utf-8") as fout:
            fout.write(kernel_source(f"k{pos + 1}", kern))
    path = os.path.join(directory, "alg.f90")
    with open(path, "w", encoding="utf-8") as fout:
        fout.write(alg_source(kernels))
    return path


def write_config(repo, directory):
    """Derived configuration file: the repository's psyclone.cfg plus an
    ``iteration-spaces`` entry in its [gocean] section."""
    with open(os.path.join(repo, "config", "psyclone.cfg"),
              encoding="utf-8") as fin:
        text = fin.read()
    lines = config_lines()
    entry = "iteration-spaces=" + ("\n" + " " * 17).join(lines) + "\n"
    marker = "[gocean]\n"
    if text.count(marker) != 1:
        raise ValueError("unexpected layout of config/psyclone.cfg")
    text = text.replace(marker, marker + entry)
    os.makedirs(directory, exist_ok=True)
    path = os.path.join(directory, "psyclone_c25.cfg")
    with open(path, "w", encoding="utf-8") as fout:
        fout.write(text)
    return path


def load_config(path):
    """Fresh PSyclone configuration state from `path`."""
    from psyclone.configuration import Config
    from psyclone.domain.gocean import GOceanConstants
    from psyclone.gocean1p0 import GOLoop
    Config._instance = None
    GOLoop._bounds_lookup = {}
    GOceanConstants.HAS_BEEN_INITIALISED = False
    conf = Config.get(do_not_load_file=True)
    conf.load(path)
    conf.api = "gocean"
    return conf


# ---------------------------------------------------------------------------
# Mock dl_esm_inf objects and the executor
# ---------------------------------------------------------------------------
KERNEL_CALL = re.compile(r"^k(\d+)(?:_\d+)?_code$")


def _region(interp_mod, name, rec):
    ilo, ihi, jlo, jhi = rec
    vals = {"xstart": ilo, "xstop": ihi, "ystart": jlo, "ystop": jhi}
    return interp_mod.StructVal(
        {k: interp_mod.make_scalar(f"{name}%{k}", "int", v)
         for k, v in vals.items()}, "region_type")


def mock_field(interp_mod, name, goff, grid):
    """StructVal standing for a dl_esm_inf r2d_field on a grid with index
    offset `goff` and internal region `grid`."""
    typ = "go_" + name.rsplit("_", 1)[1]
    if typ == "go_every":
        typ = "go_ct"           # an 'every' kernel is handed some real field
    nx, ny = data_extent(grid)
    sub = interp_mod.StructVal(
        {"internal": _region(interp_mod, name + "%grid%subdomain%internal",
                             (grid[0], grid[1], grid[2], grid[3]))},
        "subdomain_type")
    grd = interp_mod.StructVal(
        {"subdomain": sub,
         "nx": interp_mod.make_scalar(name + "%grid%nx", "int", nx),
         "ny": interp_mod.make_scalar(name + "%grid%ny", "int", ny)},
        "grid_type")
    return interp_mod.StructVal({
        "internal": _region(interp_mod, name + "%internal",
                            rect(REF[(goff, typ, "go_internal_pts")], grid)),
        "whole": _region(interp_mod, name + "%whole",
                         rect(REF[(goff, typ, "go_all_pts")], grid)),
        "grid": grd,
        "data": interp_mod.make_array(name + "%data", "real",
                                      [(1, nx), (1, ny)],
                                      [0] * (max(nx, 0) * max(ny, 0))),
        "data_on_device": interp_mod.make_scalar(name + "%data_on_device",
                                                 "bool", False),
    }, "r2d_field")


class Recorder:
    """E1 hooks + tracer: the list of (kernel number, i, j) in execution
    order.  A kernel whose schedule is registered with the interpreter (it
    carries the mask of GOMoveIterationBoundariesInsideKernelTrans) is
    executed by E1 and counts when its body writes an element; any other
    kernel call counts when it is made."""

    def __init__(self, masked):
        self.visits = []
        self.masked = masked          # routine name -> kernel number
        self.other_calls = 0

    def call(self, interp, node, frame):
        name = node.routine.name.lower()
        match = KERNEL_CALL.match(name)
        if not match:
            self.other_calls += 1
            return None
        args = node.arguments
        ival = interp.eval(args[0], frame)
        jval = interp.eval(args[1], frame)
        self.visits.append((int(match.group(1)), ival, jval))
        return None

    @staticmethod
    def codeblock(_interp, _ast, _node, _frame):
        # PSyData calls and the OpenACC pointer assignment of the enter-data
        # lowering: no effect on which points are visited.
        return True

    def tracer(self, kind, cell, _node, interp):
        if kind != "W" or not interp.frames:
            return
        rout = interp.frames[-1].routine
        num = self.masked.get(rout.name.lower()) if rout is not None else None
        if num is None:
            return
        if not cell.loc[0].endswith("%data"):
            return
        self.visits.append((num,) + tuple(cell.loc[1]))


class Executor:
    """One lowered invoke, executed on many mock grids.  The E1 interpreter
    object is created once; the only E1 behaviour that is overridden is a memo
    for the (pure) question whether a symbol is declared inside a routine."""

    def __init__(self, root, routine_name, masked_scheds):
        from mc.fortsem import interp as I

        class _Interp(I.Interp):
            def _declared_in_routine(self, sym, frame):
                key = (id(sym), id(frame.routine))
                memo = self.__dict__.setdefault("_c25_memo", {})
                if key not in memo:
                    memo[key] = super()._declared_in_routine(sym, frame)
                return memo[key]

        self.mod = I
        self.name = routine_name
        self.masked = masked_scheds
        self.rec = Recorder({k: v[0] for k, v in masked_scheds.items()})
        self.itp = _Interp(root, hooks=self.rec, horizon=400000,
                           tracer=self.rec.tracer if masked_scheds else None)
        for name, (_num, sched) in masked_scheds.items():
            self.itp.routines[name] = sched

    def run(self, args):
        """args: mock fields in dummy-argument order.
        Returns ('ok', visits) | ('ub', text) | ('unsupported', text)."""
        I = self.mod
        self.rec.visits = []
        self.itp.steps = 0
        del self.itp.frames[:]
        del self.itp.loop_stack[:]
        del self.itp.stmt_stack[:]
        try:
            self.itp.run(self.name, args)
        except I.UB as err:
            return ("ub", str(err))
        except I.Unsupported as err:
            return ("unsupported", str(err))
        return ("ok", self.rec.visits)


def mock_fields(field_order, goff, grid):
    from mc.fortsem import interp as I
    return [mock_field(I, name, goff, grid) for name in field_order]


def execute(root, routine_name, field_order, goff, grid, masked_scheds):
    """Run the lowered invoke on one mock grid (see Executor)."""
    return Executor(root, routine_name, masked_scheds).run(
        mock_fields(field_order, goff, grid))
