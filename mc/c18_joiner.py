"""Independent free-form Fortran logical-line joiner used as the oracle of C18.

Written from the Fortran 2008 standard (3.3.2 "Free source form") and the
OpenMP / OpenACC free-form directive rules -- not from psyclone/line_length.py:

* a line whose first non-blank character is ``!`` is a comment line; it may
  appear between the lines of a continued statement;
* ``!$omp`` / ``!$acc`` followed by a blank (or, on a continuation line, by an
  optional blank and ``&``) is a directive line; ``!$omp&`` when no directive
  is being continued is an ordinary comment; a directive line whose last
  non-blank character before any comment is ``&`` is continued on the next
  line, which must carry the same sentinel;
* outside character context ``!`` starts a comment that runs to the end of
  the line; inside character context it is an ordinary character;
* a statement line whose last non-blank character (before a comment) is
  ``&`` is continued; if the first non-blank character of the continuation
  line is ``&`` the statement resumes after it, otherwise (allowed outside
  character context only) at the first character position of the line;
* a character context can only be continued with a trailing ``&`` *and* a
  leading ``&`` on the continuation line; blanks before the trailing ``&``
  belong to the literal;
* PSyclone convention: a comment line starting ``!&`` directly after a pure
  comment line continues that comment (``!&`` and one following blank are
  dropped).

Anything that violates these rules is not an exception: it becomes an entry of
kind ``bad:<reason>`` so that the comparison of input and output fails with a
specific reason (the input corpus is checked to contain no ``bad`` entry).
"""

_BLANK = " \t"
_TWO_CHAR_OPS = ("**", "//", "==", "/=", ">=", "<=", "=>", "::", "(/", "/)")


def scan(content, quote):
    """Scan one physical line (after removal of a leading ``&`` / sentinel).

    :param str content: the text to scan.
    :param quote: the delimiter of the character context that is open at the
        start of the text (``'`` or ``"``) or None.
    :returns: (code, comment, continued, quote, unterminated) where ``code``
        is the part that belongs to the statement (without the continuation
        ``&``), ``comment`` the trailing comment including its ``!`` (or
        None), ``continued`` whether the line ends with a continuation mark,
        ``quote`` the character context open at the end of the line and
        ``unterminated`` is True if a character context is left open without
        a continuation mark.
    """
    comment = None
    code = content
    for idx, char in enumerate(content):
        if quote is None:
            if char in "'\"":
                quote = char
            elif char == "!":
                code = content[:idx]
                comment = content[idx:]
                break
        elif char == quote:
            # A doubled delimiter closes and immediately re-opens the
            # context, which is what this toggle does.
            quote = None
    stripped = code.rstrip(_BLANK)
    continued = stripped.endswith("&")
    if continued:
        code = stripped[:-1]
    unterminated = quote is not None and not continued
    return code, comment, continued, quote, unterminated


def logical_lines(text):
    """Joins the physical lines of a free-form source text.

    :returns: list of (kind, text) with kind in ``stmt``, ``omp``, ``acc``,
        ``comment`` or ``bad:<reason>``. Comments met while a statement or a
        directive is being continued are listed after it, in order.
    """
    out = []
    stmt = None          # pieces of the statement being continued
    quote = None         # character context carried over a continuation
    direc = None         # [kind, pieces] of the directive being continued
    held = []            # comments met while something is being continued
    chain = None         # the comment a '!&' line continues: index in out
                         # or "held" (the last held comment)

    def close_stmt(kind="stmt"):
        nonlocal stmt, quote, held
        out.append((kind, "".join(stmt)))
        out.extend(("comment", c) for c in held)
        stmt, quote, held = None, None, []

    def close_direc(kind=None):
        nonlocal direc, held
        out.append((kind or direc[0], "".join(direc[1])))
        out.extend(("comment", c) for c in held)
        direc, held = None, []

    for line in text.split("\n"):
        body = line.lstrip(_BLANK)
        if not body:
            # A blank line is a comment line without text.
            chain = None
            continue
        if body[0] == "!":
            sentinel = body[:5].lower()
            is_directive = sentinel in ("!$omp", "!$acc") and \
                (len(body) == 5 or body[5] in _BLANK + "&")
            if is_directive and direc is None and body[5:6] == "&":
                # '!$omp&' with no directive to continue: an initial
                # directive line needs a blank after the sentinel, so this
                # is an ordinary comment line (gfortran agrees).
                is_directive = False
            if is_directive:
                chain = None
                kind = sentinel[2:]
                rest = body[5:]
                if stmt is not None:
                    close_stmt("bad:directive-inside-continued-statement")
                if direc is not None and direc[0] != kind:
                    close_direc("bad:directive-continued-by-other-sentinel")
                if direc is not None:
                    rest = rest.lstrip(_BLANK)
                    if rest.startswith("&"):
                        rest = rest[1:]
                else:
                    direc = [kind, []]
                code, comment, cont, _, unterm = scan(rest, None)
                direc[1].append(code)
                if comment is not None:
                    held.append(comment)
                if unterm:
                    close_direc("bad:unterminated-character-context")
                elif not cont:
                    close_direc()
                continue
            if body.startswith("!&") and chain is not None:
                extra = body[2:]
                if extra.startswith(" "):
                    extra = extra[1:]
                if chain == "held":
                    held[-1] += extra
                else:
                    out[chain] = ("comment", out[chain][1] + extra)
                continue
            # An ordinary comment line.
            if stmt is not None or direc is not None:
                held.append(body)
                chain = "held"
            else:
                out.append(("comment", body))
                chain = len(out) - 1
            continue
        # A line with program text.
        chain = None
        if direc is not None:
            close_direc("bad:directive-continuation-missing")
        if stmt is not None:
            if body[0] == "&":
                content = body[1:]
            elif quote is not None:
                close_stmt("bad:character-context-continued-without-&")
                stmt = []
                content = body
            else:
                content = line
        else:
            if body[0] == "&":
                out.append(("bad:orphan-continuation", body))
                continue
            stmt = []
            content = body
        code, comment, cont, quote, unterm = scan(content, quote)
        stmt.append(code)
        if comment is not None:
            held.append(comment)
        if unterm:
            close_stmt("bad:unterminated-character-context")
        elif not cont:
            close_stmt()
    if stmt is not None:
        close_stmt("bad:continuation-at-end-of-text")
    if direc is not None:
        close_direc("bad:directive-continuation-at-end-of-text")
    return out


def tokens(text):
    """Lexical tokens of joined program text: character literals (verbatim),
    runs of letters/digits/``_``/``$``, the two-character operators and single
    other characters. Blanks outside literals only separate tokens."""
    out = []
    idx, num = 0, len(text)
    while idx < num:
        char = text[idx]
        if char in _BLANK:
            idx += 1
        elif char in "'\"":
            end = idx + 1
            while end < num:
                if text[end] == char:
                    if end + 1 < num and text[end + 1] == char:
                        end += 2
                        continue
                    break
                end += 1
            out.append(text[idx:end + 1])
            idx = end + 1
        elif char.isalnum() or char in "_$":
            end = idx + 1
            while end < num and (text[end].isalnum() or text[end] in "_$"):
                end += 1
            out.append(text[idx:end])
            idx = end
        elif text[idx:idx + 2] in _TWO_CHAR_OPS:
            out.append(text[idx:idx + 2])
            idx += 2
        else:
            out.append(char)
            idx += 1
    return out


def canonical(text):
    """The comparable meaning of a source text: the sequence of logical
    lines, statements and directives as token tuples, comments as their text
    from the ``!`` on without trailing blanks."""
    result = []
    for kind, payload in logical_lines(text):
        if kind == "comment":
            result.append((kind, payload.rstrip(_BLANK)))
        elif kind in ("stmt", "omp", "acc"):
            result.append((kind, tuple(tokens(payload))))
        else:
            result.append((kind, payload))
    return result
