"""C02 Written expressions keep the operation order of the PSyIR tree.

All type-correct PSyIR expression trees up to depth 3 over the unary/binary
operators (operands in every child position) are built with the PSyIR API,
written by the real FortranWriter, checked for standard conformance with
gfortran -std=f2008 and read back by the real FortranReader; the re-read tree
must be structurally equal to the original.
"""
import itertools
import os
import re
import shutil
import subprocess

ID = "C02"
LEVEL = "model_checking"
EXHAUSTIVE = True
CASE_TIMEOUT = 1800
RULE = ("trees: numeric = leaves | unary(MINUS,PLUS) | binary(ADD,SUB,MUL,DIV,POW); "
        "logical = leaves | NOT | relational(numeric,numeric) | AND/OR/EQV/NEQV; all "
        "trees of depth<=2 over the full leaf alphabet (i, x, a(i), s%f, 2, -2 (signed "
        "Literal), 1.5, 1.5_wp, MAX(i,j), ABS(x); l, .true.) and all trees of depth 3 "
        "over the reduced alphabet (i, x, 2, -2; l) [thorough: depth-4 spines]; a tree is "
        "non-trivial when it contains at least one operator whose operand is itself an "
        "operator or a signed literal (i.e. parenthesisation can matter)")
ASSUMPTIONS = [
    "a signed Literal('-2') cannot be denoted in a Fortran expression; after the round "
    "trip it is considered equal to UnaryOperation(MINUS, Literal('2')) (weaker than the "
    "property text)",
    "standard conformance is decided by gfortran -std=f2008 -fsyntax-only",
    "value-changing vs structure-only classification uses the E1 evaluator on "
    "i,j in -2..3, x in {-1.5, 2.0}, l in {T,F}",
]

SKELETON = """module c02_mod
  integer, parameter :: wp = kind(1.0d0)
  type :: tt
    real :: f
  end type tt
contains
  subroutine c02_sub(i, j, x, a, s, l, r, lr)
    integer, intent(in) :: i
    integer, intent(in) :: j
    real, intent(in) :: x
    real, dimension(-9:9), intent(in) :: a
    type(tt), intent(in) :: s
    logical, intent(in) :: l
    real, intent(inout) :: r
    logical, intent(inout) :: lr
  end subroutine c02_sub
end module c02_mod
"""

NUM_FULL = ["i", "x", "a(i)", "s%f", "2", "-2", "1.5", "1.5_wp", "max(i,j)", "abs(x)"]
NUM_RED = ["i", "x", "2", "-2"]
BOOL_FULL = ["l", ".true."]
BOOL_RED = ["l"]
ARITH = ["ADD", "SUB", "MUL", "DIV", "POW"]
REL = ["EQ", "NE", "LT", "LE", "GT", "GE"]
LOGIC = ["AND", "OR", "EQV", "NEQV"]
BATCH = 150

# A tree is a nested tuple: ("leaf", text) | ("un", op, t) | ("bin", op, t1, t2)


def depth(tree):
    if tree[0] == "leaf":
        return 1
    return 1 + max(depth(t) for t in tree[2:])


def num_trees(leaves, maxdepth):
    """dict depth -> list of numeric trees of exactly that depth."""
    by_depth = {1: [("leaf", l) for l in leaves]}
    for dep in range(2, maxdepth + 1):
        lower = [t for d in range(1, dep) for t in by_depth[d]]
        prev = by_depth[dep - 1]
        out = []
        for oper in ("MINUS", "PLUS"):
            out += [("un", oper, t) for t in prev]
        prevset = set(prev)
        for oper in ARITH:
            for lhs, rhs in itertools.product(lower, lower):
                if lhs in prevset or rhs in prevset:
                    out.append(("bin", oper, lhs, rhs))
        by_depth[dep] = out
    return by_depth


def bool_trees(num_by_depth, bleaves, maxdepth, rel_leaf_side=False):
    by_depth = {1: [("leaf", l) for l in bleaves]}
    for dep in range(2, maxdepth + 1):
        out = []
        prev = by_depth[dep - 1]
        out += [("un", "NOT", t) for t in prev]
        nlower = [t for d in range(1, dep) for t in num_by_depth.get(d, [])]
        nprev = set(num_by_depth.get(dep - 1, []))
        for oper in REL:
            for lhs, rhs in itertools.product(nlower, nlower):
                if lhs in nprev or rhs in nprev:
                    if rel_leaf_side and dep > 2 and \
                            lhs[0] != "leaf" and rhs[0] != "leaf":
                        continue
                    out.append(("bin", oper, lhs, rhs))
        blower = [t for d in range(1, dep) for t in by_depth[d]]
        bprev = set(prev)
        for oper in LOGIC:
            for lhs, rhs in itertools.product(blower, blower):
                if lhs in bprev or rhs in bprev:
                    out.append(("bin", oper, lhs, rhs))
        by_depth[dep] = out
    return by_depth


def _spines(leaves, ops, unary, length):
    """left and right spines of `length` binary operators (+ optional unary
    at the innermost / outermost position) over one leaf kind."""
    out = []
    for leaf in leaves:
        for combo in itertools.product(ops, repeat=length):
            for side in ("L", "R"):
                tree = ("leaf", leaf)
                for oper in combo:
                    tree = ("bin", oper, tree, ("leaf", leaf)) if side == "L" \
                        else ("bin", oper, ("leaf", leaf), tree)
                out.append(tree)
                for uop in unary:
                    out.append(("un", uop, tree))
    return out


_SPACE = {}


def space(tier):
    """list of (kind, tree) in size order; kind in {'num','bool'}."""
    if tier in _SPACE:
        return _SPACE[tier]
    out = []
    full = num_trees(NUM_FULL, 2)
    red = num_trees(NUM_RED if tier == "thorough" else ["i", "2", "-2"], 3)
    seen = set()
    for dep in (1, 2):
        for tree in full[dep]:
            out.append(("num", tree))
            seen.add(tree)
    for tree in red[3]:
        if tree not in seen:
            out.append(("num", tree))
    bfull = bool_trees(full, BOOL_FULL, 2)
    for dep in (1, 2):
        for tree in bfull[dep]:
            out.append(("bool", tree))
            seen.add(tree)
    # depth-3 logical trees: relational operands from the reduced numeric
    # alphabet {i, 2, -2}, at least one side a leaf
    red_small = num_trees(["i", "2", "-2"] if tier == "thorough" else ["i", "-2"], 2)
    bred = bool_trees(red_small, BOOL_RED, 3, rel_leaf_side=True)
    for tree in bred[3]:
        if tree not in seen:
            out.append(("bool", tree))
    if tier == "thorough":
        for tree in _spines(["i", "x", "-2"], ARITH, ("MINUS",), 3):
            if tree not in seen:
                seen.add(tree)
                out.append(("num", tree))
        for tree in num_trees(NUM_RED + ["a(i)", "1.5"], 3)[3]:
            if tree not in seen:
                seen.add(tree)
                out.append(("num", tree))
    _SPACE[tier] = out
    return out


def bounds(tier):
    spc = space(tier)
    return {"trees": len(spc), "numeric": sum(k == "num" for k, _ in spc),
            "logical": sum(k == "bool" for k, _ in spc), "batch": BATCH}


def cases(tier):
    total = len(space(tier))
    for start in range(0, total, BATCH):
        yield {"key": f"t{start:07d}", "start": start,
               "stop": min(total, start + BATCH)}


def show(tree):
    if tree[0] == "leaf":
        return tree[1]
    if tree[0] == "un":
        return f"{tree[1]}({show(tree[2])})"
    return f"{tree[1]}({show(tree[2])},{show(tree[3])})"


def nontrivial(tree):
    if tree[0] == "leaf":
        return False
    for sub in tree[2:]:
        if sub[0] != "leaf" or sub[1].startswith("-"):
            return True
    return False


# ---------------------------------------------------------------------------
_W = {}


def init_worker(tier):
    _W["tier"] = tier
    _W["scratch"] = None
    space(tier)


def _skeleton():
    from psyclone.psyir.frontend.fortran import FortranReader
    from psyclone.psyir.nodes import Routine
    tree = FortranReader().psyir_from_source(SKELETON)
    return tree, tree.walk(Routine)[0]


def build(tree, tab):
    """nested tuple -> PSyIR node using symbols of table `tab`."""
    from psyclone.psyir import nodes as N
    from psyclone.psyir.symbols import INTEGER_TYPE, REAL_TYPE, BOOLEAN_TYPE, \
        ScalarType
    if tree[0] == "leaf":
        text = tree[1]
        if text in ("i", "x", "l"):
            return N.Reference(tab.lookup(text))
        if text == "a(i)":
            return N.ArrayReference.create(tab.lookup("a"),
                                           [N.Reference(tab.lookup("i"))])
        if text == "s%f":
            return N.StructureReference.create(tab.lookup("s"), ["f"])
        if text in ("2", "-2"):
            return N.Literal(text, INTEGER_TYPE)
        if text == "1.5":
            return N.Literal("1.5", REAL_TYPE)
        if text == "1.5_wp":
            return N.Literal("1.5", ScalarType(ScalarType.Intrinsic.REAL,
                                               tab.lookup("wp")))
        if text == ".true.":
            return N.Literal("true", BOOLEAN_TYPE)
        if text == "max(i,j)":
            return N.IntrinsicCall.create(
                N.IntrinsicCall.Intrinsic.MAX,
                [N.Reference(tab.lookup("i")), N.Reference(tab.lookup("j"))])
        if text == "abs(x)":
            return N.IntrinsicCall.create(N.IntrinsicCall.Intrinsic.ABS,
                                          [N.Reference(tab.lookup("x"))])
        raise ValueError(text)
    if tree[0] == "un":
        return N.UnaryOperation.create(N.UnaryOperation.Operator[tree[1]],
                                       build(tree[2], tab))
    return N.BinaryOperation.create(N.BinaryOperation.Operator[tree[1]],
                                    build(tree[2], tab), build(tree[3], tab))


def skeleton_of(node):
    """Independent structural fingerprint of a PSyIR expression; a signed
    literal is normalised to MINUS(literal)."""
    from psyclone.psyir import nodes as N
    if isinstance(node, N.Literal):
        val = node.value
        prec = node.datatype.precision
        pname = getattr(prec, "name", str(prec)).lower()
        lit = ("lit", node.datatype.intrinsic.name, val.lstrip("+-").lower(), pname)
        if val.startswith("-"):
            return ("un", "MINUS", lit)
        return lit
    if isinstance(node, N.BinaryOperation):
        return ("bin", node.operator.name, skeleton_of(node.children[0]),
                skeleton_of(node.children[1]))
    if isinstance(node, N.UnaryOperation):
        return ("un", node.operator.name, skeleton_of(node.children[0]))
    if isinstance(node, N.IntrinsicCall):
        return ("call", node.intrinsic.name) + tuple(
            skeleton_of(a) for a in node.arguments)
    if isinstance(node, N.StructureReference):
        return ("sref", node.name.lower(), node.member.name.lower())
    if isinstance(node, N.ArrayReference):
        return ("aref", node.name.lower()) + tuple(
            skeleton_of(i) for i in node.indices)
    if isinstance(node, N.Reference):
        return ("ref", node.name.lower())
    return ("other", type(node).__name__)


def _kind(skel):
    if skel[0] in ("bin", "un"):
        return skel[1]
    if skel[0] == "lit":
        return "lit"
    return skel[0]


def _okind(skel):
    """operator name, or 'x' for any operand that is not an operator."""
    return skel[1] if skel[0] in ("bin", "un") else "x"


def _describe(skel):
    """operator with the kinds of its operands (non-operators collapsed to
    x), e.g. POW(POW,x)."""
    if skel[0] == "bin":
        return f"{skel[1]}({_okind(skel[2])},{_okind(skel[3])})"
    if skel[0] == "un":
        return f"{skel[1]}({_okind(skel[2])})"
    return "x"


def first_mismatch(orig, new, parent=None, pos=None):
    """(parent operator, child position, original child, re-read child) at the
    first (pre-order) node where the two skeletons differ."""
    if orig == new:
        return None
    if orig[0] != new[0] or _kind(orig) != _kind(new) or \
            orig[0] not in ("bin", "un"):
        return (parent, pos, _describe(orig), _describe(new))
    for idx, (one, two) in enumerate(zip(orig[2:], new[2:])):
        res = first_mismatch(one, two, _kind(orig), idx)
        if res is not None:
            return res
    return (parent, pos, _describe(orig), _describe(new))


def _scratch():
    if _W.get("scratch") is None:
        from mc.runner import scratch_dir
        _W["scratch"] = scratch_dir("c02")
        import atexit
        atexit.register(shutil.rmtree, _W["scratch"], True)
    return _W["scratch"]


def gfortran_bad_lines(text, tag):
    """Line numbers (1-based) that gfortran -std=f2008 reports an Error on."""
    path = os.path.join(_scratch(), f"{tag}.f90")
    with open(path, "w", encoding="utf-8") as fout:
        fout.write(text)
    res = subprocess.run(
        ["gfortran", "-std=f2008", "-fsyntax-only", "-fimplicit-none",
         "-fmax-errors=0", "-ffree-line-length-none", "-J", _scratch(), path],
        capture_output=True, text=True, check=False)
    os.remove(path)
    bad = {}
    folded = set()
    cur = None
    for line in res.stderr.split("\n"):
        match = re.match(r"^.*\.f90:(\d+):\d+:", line)
        if match:
            cur = int(match.group(1))
        elif line.startswith("Error:") and cur is not None:
            # Only conformance / syntax diagnostics count.  Errors from
            # constant folding (Division by zero, Arithmetic overflow,
            # negative REAL to a REAL power ...) say that the *tree* denotes
            # an invalid computation, not that the writer spelt it wrongly.
            if re.search(r"Extension:|Syntax error|Unclassifiable|Expected|"
                         r"Invalid character|Unexpected|Missing", line):
                bad.setdefault(cur, line)
            else:
                folded.add(cur)
        elif line.startswith("Fatal Error") and cur is None:
            raise RuntimeError(f"gfortran failed: {res.stderr[-500:]}")
    if res.returncode != 0 and not bad and not folded:
        raise RuntimeError(f"gfortran failed without located error: "
                           f"{res.stderr[-800:]}")
    return bad


def process(items):
    """items: list of (index, kind, tree).  Returns one verdict dict per item:
    status in ok | nonstandard | reread-failed | writer-refused, optional
    'mismatch' / 'value_changing'."""
    from psyclone.psyir import nodes as N
    from psyclone.psyir.backend.fortran import FortranWriter
    from psyclone.psyir.backend.visitor import VisitorError
    from psyclone.psyir.frontend.fortran import FortranReader
    root, rout = _skeleton()
    tab = rout.symbol_table
    skels = []
    for _idx, kind, tree in items:
        rhs = build(tree, tab)
        lhs = N.Reference(tab.lookup("r" if kind == "num" else "lr"))
        rout.addchild(N.Assignment.create(lhs, rhs))
        skels.append(skeleton_of(rhs))
    try:
        text = FortranWriter()(root)
    except VisitorError as err:
        if len(items) == 1:
            return [{"status": "writer-refused", "err": str(err)}]
        return [process([item])[0] for item in items]
    lines = text.split("\n")
    stmt_lines = [num for num, line in enumerate(lines, 1)
                  if line.strip().startswith(("r = ", "lr = "))]
    if len(stmt_lines) != len(items):
        raise RuntimeError("statement lines do not match the items (wrapped?)")
    verdicts = [{"status": "ok", "text": lines[num - 1].strip()}
                for num in stmt_lines]
    # (a) standard conformance, one compilation for the whole batch
    bad = gfortran_bad_lines(text, f"b{items[0][0]}")
    for lnum, msg in bad.items():
        if lnum not in stmt_lines:
            raise RuntimeError(f"gfortran error outside a statement: {msg}")
        verdicts[stmt_lines.index(lnum)].update(status="nonstandard", stderr=msg)
    # (b) read back; statements the reader rejects are removed one by one
    alive = [pos for pos in range(len(items))]
    # a statement that is not standard Fortran is already a violation; it is
    # not also read back (the reader rightly rejects it)
    dropped = {pos for pos in range(len(items))
               if verdicts[pos]["status"] == "nonstandard"}
    back = None
    for _attempt in range(len(items) + 1):
        cur = [line for num, line in enumerate(lines, 1)
               if num not in stmt_lines or stmt_lines.index(num) not in dropped]
        try:
            back = FortranReader().psyir_from_source("\n".join(cur))
            break
        except Exception as err:  # pylint: disable=broad-except
            match = re.search(r"at line (\d+)", str(err))
            if not match:
                raise RuntimeError(f"reader failure without line: {err}")
            # translate the line number of the reduced text back
            kept = [num for num in range(1, len(lines) + 1)
                    if num not in stmt_lines
                    or stmt_lines.index(num) not in dropped]
            orig_line = kept[int(match.group(1)) - 1]
            if orig_line not in stmt_lines:
                raise RuntimeError(f"reader failed outside a statement: {err}")
            pos = stmt_lines.index(orig_line)
            dropped.add(pos)
            verdicts[pos]["reread_failed"] = str(err)[:200]
    alive = [pos for pos in alive if pos not in dropped]
    assigns = back.walk(N.Assignment)
    if len(assigns) != len(alive):
        raise RuntimeError(f"{len(assigns)} assignments read back, "
                           f"expected {len(alive)}")
    rout_n = back.walk(N.Routine)[0]
    for assign, pos in zip(assigns, alive):
        mism = first_mismatch(skels[pos], skeleton_of(assign.rhs))
        if mism is not None:
            verdicts[pos]["mismatch"] = mism
            verdicts[pos]["value_changing"] = _value_changing(
                rout.children[pos].rhs, rout, assign.rhs, rout_n)
    return verdicts


def _value_changing(expr_o, rout_o, expr_n, rout_n):
    """True if the two expressions evaluate differently on some valuation."""
    from fractions import Fraction as F
    from mc.fortsem import interp as I

    def frame(rout):
        it = I.Interp(None)
        frm = I.Frame(rout, 0)
        tab = rout.symbol_table
        cells = {}
        for name, typ in (("i", "int"), ("j", "int"), ("x", "real"), ("l", "bool")):
            cells[name] = I.make_scalar(name, typ, 0 if typ != "bool" else False)
            frm.store[id(tab.lookup(name))] = cells[name]
        frm.store[id(tab.lookup("a"))] = I.make_array(
            "a", "real", [(-9, 9)], [F(2 * k + 1, 2) for k in range(-9, 10)])
        sval = I.StructVal({"f": I.make_scalar("f", "real", F(5, 2))})
        frm.store[id(tab.lookup("s"))] = sval
        return it, frm, cells
    it_o, fr_o, c_o = frame(rout_o)
    it_n, fr_n, c_n = frame(rout_n)
    for ival in range(-2, 4):
        for jval in (-1, 2):
            for xval in (F(-3, 2), F(2)):
                for lval in (True, False):
                    for cells in (c_o, c_n):
                        cells["i"].v, cells["j"].v = ival, jval
                        cells["x"].v, cells["l"].v = xval, lval
                    try:
                        v_o = it_o.eval(expr_o, fr_o)
                    except I.UB:
                        continue
                    try:
                        v_n = it_n.eval(expr_n, fr_n)
                    except I.UB:
                        return True
                    if v_o != v_n:
                        return True
    return False


def _subtrees(tree):
    yield tree
    if tree[0] != "leaf":
        for sub in tree[2:]:
            yield from _subtrees(sub)


def _kind_of_tree(tree):
    if tree[0] == "leaf":
        return "bool" if tree[1] in BOOL_FULL else "num"
    return "bool" if tree[1] in REL + LOGIC + ["NOT"] else "num"


def _culprits(failing):
    """For each failing tree: the one-level description of its smallest
    sub-tree that is itself rejected when written on its own."""
    subs = []
    for tree in failing:
        for sub in _subtrees(tree):
            if sub[0] != "leaf" and sub not in subs:
                subs.append(sub)
    status = {}
    for start in range(0, len(subs), BATCH):
        chunk = subs[start:start + BATCH]
        res = process([(900000 + start + k, _kind_of_tree(t), t)
                       for k, t in enumerate(chunk)])
        for tree, one in zip(chunk, res):
            status[tree] = one["status"] != "ok" or "reread_failed" in one
    out = {}
    for tree in failing:
        best = tree
        moved = True
        while moved:
            moved = False
            for sub in best[2:]:
                if sub[0] != "leaf" and status.get(sub):
                    best, moved = sub, True
                    break
        out[tree] = _describe_tree(best)
    return out


def run_case(case):
    spc = space(_W["tier"])
    items = [(idx,) + spc[idx] for idx in range(case["start"], case["stop"])]
    verdicts = process(items)
    failing = [tree for (_i, _k, tree), res in zip(items, verdicts)
               if res["status"] != "ok" or "reread_failed" in res]
    culprit = _culprits(failing) if failing else {}
    # Counterfactual used only to NAME the mechanism: would the same tree be
    # handled correctly if its signed literals were MINUS(unsigned literal)?
    bad_items = [(k, t) for (_i, k, t), res in zip(items, verdicts)
                 if (res["status"] != "ok" or "reread_failed" in res
                     or "mismatch" in res) and _has_neglit(t)]
    variant = {}
    for start in range(0, len(bad_items), BATCH):
        chunk = bad_items[start:start + BATCH]
        res_v = process([(800000 + start + n, k, _unsign(t))
                         for n, (k, t) in enumerate(chunk)])
        for (_k, tree), one in zip(chunk, res_v):
            variant[tree] = one
    viol = []
    classes = {}
    nontriv = 0
    for (idx, kind, tree), res in zip(items, verdicts):
        if nontrivial(tree):
            nontriv += 1
        status = res["status"]
        classes[status] = classes.get(status, 0) + 1
        key = show(tree)
        payload = {"kind": kind, "tree": tree}
        if status == "writer-refused":
            viol.append({"key": key, "sig": f"writer-refused:{_describe_tree(tree)}",
                         "msg": f"FortranWriter refuses tree {key}: {res['err']}",
                         "case": payload})
            continue
        var = variant.get(tree)
        if status == "nonstandard":
            lit = var is not None and var["status"] == "ok"
            viol.append({"key": key,
                         "sig": ("signed-literal-not-parenthesised:nonstandard"
                                 if lit else f"nonstandard:{culprit[tree]}"),
                         "msg": f"tree {key} is written as '{res['text']}' which "
                                f"gfortran -std=f2008 rejects: {res['stderr']}",
                         "case": payload})
        if "reread_failed" in res:
            classes["reread-failed"] = classes.get("reread-failed", 0) + 1
            lit = var is not None and "reread_failed" not in var
            viol.append({"key": key + "#rd",
                         "sig": ("signed-literal-not-parenthesised:reread-failed"
                                 if lit else f"reread-failed:{culprit[tree]}"),
                         "msg": f"tree {key} is written as '{res['text']}' which the "
                                f"reader cannot read back ({res['reread_failed']})",
                         "case": payload})
        if "mismatch" in res:
            par, pos, was, now = res["mismatch"]
            sev = "value-changing" if res["value_changing"] else "structure-only"
            classes[sev] = classes.get(sev, 0) + 1
            # attributable to the signed literal iff the variant with
            # MINUS(literal) does not show the same local mismatch
            lit = var is not None and var.get("mismatch") != res["mismatch"]
            viol.append({"key": key + "#rt",
                         "sig": (f"signed-literal-not-parenthesised:roundtrip:{sev}"
                                 if lit else _mismatch_sig(sev, par, pos, was, now)),
                         "msg": f"tree {key} is written as '{res['text']}' and read "
                                f"back with a different structure ({sev}): operand "
                                f"{pos} of {par} was {was}, is now {now}",
                         "case": payload})
    sample = {"tree": show(items[0][2]), "written": verdicts[0].get("text")}
    return {"evals": len(items), "nontrivial": nontriv, "states": len(items),
            "transitions": len(items) * 2, "validated": len(items),
            "classes": classes, "viol": viol, "sample": sample}


def _mismatch_sig(sev, par, pos, was, now):
    """Signature of a round-trip mismatch.  One mechanism is named: a unary
    operator that was the LEFT operand of *, / or ** comes back applied to the
    whole operation (the writer emitted `-a * b`)."""
    match = re.match(r"^(MINUS|PLUS)\((MUL|DIV|POW)\)$", now)
    if match and was.startswith(match.group(2) + "("):
        return (f"roundtrip:{sev}:unary-{match.group(1)}-left-operand-of-"
                f"{match.group(2)}-not-parenthesised")
    return f"roundtrip:{sev}:{par}[{pos}]={was}->{now}"


def _has_neglit(tree):
    if tree[0] == "leaf":
        return tree[1].startswith("-")
    return any(_has_neglit(t) for t in tree[2:])


def _unsign(tree):
    """Same tree with every signed literal -c replaced by MINUS(c)."""
    if tree[0] == "leaf":
        if tree[1].startswith("-"):
            return ("un", "MINUS", ("leaf", tree[1][1:]))
        return tree
    return tree[:2] + tuple(_unsign(t) for t in tree[2:])


def _describe_tree(tree):
    if tree[0] == "leaf":
        return _leaf_kind(tree[1])
    subs = ",".join(t[1] if t[0] != "leaf" else _leaf_kind(t[1]) for t in tree[2:])
    return f"{tree[1]}({subs})"


def _leaf_kind(text):
    if text.startswith("-"):
        return "neglit"
    if text[0].isdigit() or text.startswith("."):
        return "lit"
    return "ref"


def replay(case):
    _W.setdefault("scratch", None)

    def tup(obj):
        return tuple(tup(o) if isinstance(o, list) else o for o in obj)
    tree = tup(case["tree"])
    _SPACE["replay"] = [(case["kind"], tree)]
    _W["tier"] = "replay"
    return run_case({"start": 0, "stop": 1})
