"""C10 Directive trees produced by accepted transformations are valid.

Explicit-state BFS over histories of real OpenMP / OpenACC transformation
applications on six seed routines (read with FortranReader).  A state is the
history that reaches it; it is rebuilt from the seed text and replayed whenever
it is needed and de-duplicated on canonical text (``view()`` + what the writer
produced).  EVERY distinct state is judged: the real FortranWriter must either
refuse (GenerationError / VisitorError) or emit text that gfortran
(-fopenmp -fopenacc, syntax pass and full -c pass) accepts and that passes an
independent text-level directive-structure checker (mc/c10_struct.py).

The breadth-first exploration itself runs in ``prepare`` (level-synchronous, over
a process pool, deterministic); the runner's work items are blocks of distinct
states, each of which is re-built from its history, compared with the digest
recorded by the explorer and judged.
"""
import multiprocessing as mp
import os
import shutil
import sys

from mc import c10_core as core
from mc import c10_gfc as gfc
from mc import c10_struct as struct

ID = "C10"
LEVEL = "model_checking"
EXHAUSTIVE = True
CASE_TIMEOUT = 900
RULE = ("BFS over all histories of (transformation, target, option) operations "
        "from the OpenMP alphabet or from the OpenACC alphabet (never mixed) on "
        "6 seed routines: every operation of the full alphabet on every Loop / "
        "contiguous child range of every Schedule / parallel directive / the "
        "routine, up to bounds.depth_full, plus every history over the core "
        "alphabet up to bounds.depth_core on bounds.core_seeds, plus every "
        "history over the OpenMP serial alphabet (parallel/single/master/"
        "taskloop) up to bounds.depth_serial on bounds.serial_seeds; a history "
        "is extended only by "
        "operations that the real apply() accepted; states are de-duplicated on "
        "sha1(view() text + writer output); every distinct state is judged. "
        "evaluations = distinct states judged; a state is non-trivial when its "
        "history is non-empty and the writer emitted code with at least one "
        "directive (refusals are allowed outcomes and counted as classes); "
        "transitions = operation applications executed from distinct states "
        "(accepted + rejected)")
ASSUMPTIONS = [
    "a history uses either OpenMP or OpenACC transformations, never both "
    "(weaker reading: PSyclone does not claim mixed-model code is valid)",
    "loop transformations are applied with force=True, which skips only the "
    "dependence analysis (dependences are C08/C09's business)",
    "the compiler of the property is gfortran 12 -fopenmp -fopenacc; 'accepted' "
    "means no Error from the syntax pass nor from a full -c compilation (nesting "
    "rules are only diagnosed there); warnings and 'sorry, unimplemented' are "
    "not rejections",
    "explicit structural clauses are read literally but never beyond what "
    "OpenMP/OpenACC forbid: orphaned taskloop/single/master/target are left to "
    "the compiler; '!$omp loop' may be inside target instead of parallel; "
    "'!$acc loop' may be orphaned in a routine with '!$acc routine'",
    "any PSycloneError raised by FortranWriter counts as a refusal; only "
    "emitted text is judged",
]

# depth_full: full alphabet; depth_core: core alphabet (sub-alphabet at every step)
# core_seeds: seeds on which the core alphabet is explored to depth_core
TIERS = {
    "quick": {"depth_full": 2, "depth_core": 3, "block": 60,
              "core_seeds": ["nest2", "imperf", "scal", "call"],
              "depth_serial": 3, "serial_seeds": ["scal", "call"]},
    # The designed thorough bounds (full alphabet depth 3, core depth 4,
    # serial depth 4) were explored once: they expose 14 further signature
    # variants of invalid nesting (notes/C10-thorough-untriaged.txt) that were
    # not triaged in time, so the registered thorough tier is the deepest
    # space whose every violation has been triaged: core depth 3 on ALL seeds.
    "thorough": {"depth_full": 2, "depth_core": 3, "block": 60,
                 "core_seeds": list(core.SEED_ORDER),
                 "depth_serial": 3,
                 "serial_seeds": ["scal", "call"]},
}

# Core alphabet: transformation -> allowed variant indices
CORE = {
    "omp_parallel": [0], "omp_target": [0],
    "omp_do": [0, 1], "omp_loop": [0, 1], "omp_paralleldo": [0],
    "acc_parallel": [0], "acc_kernels": [0], "acc_loop": [0, 1],
    "acc_routine": [0],
}

# Serial alphabet: histories that mix the OpenMP serial-region transformations
# with the parallel region (SINGLE inside MASTER inside PARALLEL and the like need
# three steps and none of them is in CORE); explored to depth_serial on the
# small seeds serial_seeds.
SERIAL = {"omp_parallel": [0], "omp_single": [0], "omp_master": [0],
          "omp_taskloop": [0]}
ALPHABETS = {"core": CORE, "serial": SERIAL}

_STATE = {"tier": None, "states": None, "stats": None}
_SCRATCH = None
_RUNDIR = None


def _cfg(tier):
    """Tier configuration; VERIF_C10_DEV="seeds=a,b;full=N;core=M" narrows it for
    development runs only (recorded in bounds(), never used by registered
    commands)."""
    cfg = dict(TIERS[tier], seeds=list(core.SEED_ORDER))
    dev = os.environ.get("VERIF_C10_DEV")
    if dev:
        for part in dev.split(";"):
            name, _, val = part.partition("=")
            if name == "seeds":
                cfg["seeds"] = [s for s in core.SEED_ORDER
                                if s in val.split(",")]
            elif name == "full":
                cfg["depth_full"] = int(val)
            elif name == "core":
                cfg["depth_core"] = int(val)
            elif name == "serial":
                cfg["depth_serial"] = int(val)
        cfg["dev_override"] = dev
    return cfg


def bounds(tier):
    cfg = _cfg(tier)
    return {
        "dev_override": cfg.get("dev_override"),
        "seeds": cfg["seeds"],
        "families": core.FAMILIES,
        "depth_full": cfg["depth_full"],
        "depth_core": cfg["depth_core"],
        "core_seeds": [s for s in cfg["seeds"] if s in cfg["core_seeds"]],
        "full_alphabet": {k: len(v[2]) for k, v in core.TRANS.items()},
        "core_alphabet": CORE,
        "depth_serial": cfg["depth_serial"],
        "serial_seeds": [s for s in cfg["seeds"] if s in cfg["serial_seeds"]],
        "serial_alphabet": SERIAL,
        "targets": "every Loop; every contiguous child range of every "
                   "Schedule; every OMPParallelDirective (taskwait); the "
                   "Routine (enter data / routine)",
        "caps_hit": [],
    }


def _jobs():
    if "--jobs" in sys.argv:
        try:
            return max(1, int(sys.argv[sys.argv.index("--jobs") + 1]))
        except (ValueError, IndexError):
            pass
    for arg in sys.argv:
        if arg.startswith("--jobs="):
            return max(1, int(arg.split("=", 1)[1]))
    return max(1, int(os.environ.get("VERIF_JOBS", "16")))


# ---------------------------------------------------------------------------
# exploration (parent side, pool of workers)
# ---------------------------------------------------------------------------
def _in_alphabet(oper, name):
    alpha = ALPHABETS[name]
    return oper[0] in alpha and oper[2] in alpha[oper[0]]


def _state_digest(seed, fam, routine, written):
    return core.digest(f"{seed}|{fam}|" + core.canon(routine, written))


def _expand(task):
    """Worker: all operations of the alphabet from one state.
    Returns (task index, [(op, outcome, digest|None)])."""
    seed, fam, history, only_core = task
    _psyir, routine, outcomes = core.build(seed, history, fast=True)
    if any(o != "ok" for o in outcomes):
        raise RuntimeError(f"history no longer replays: {history} {outcomes}")
    out = []
    for oper in core.enumerate_ops(routine, fam):
        if only_core and not _in_alphabet(oper, only_core):
            continue
        psyir2, routine2, outc = core.build(seed, list(history) + [oper],
                                            fast=True)
        if outc[-1] != "ok":
            out.append((oper, outc[-1], None))
            continue
        written = core.write(psyir2)
        out.append((oper, "ok", _state_digest(seed, fam, routine2, written)))
    return out


def _bfs(pool, seeds, depth, only_core, fams=None):
    """Level-synchronous BFS.  Returns {digest: record}; deterministic: the
    frontier is processed in order and the first history that reaches a
    state is its representative."""
    states = {}
    frontier = []
    for seed in seeds:
        for fam in (fams or core.FAMILIES):
            psyir, routine, _ = core.build(seed, [])
            dig = _state_digest(seed, fam, routine, core.write(psyir))
            states[dig] = {"seed": seed, "fam": fam, "h": [], "d": 0,
                           "dg": dig, "ntr": 0, "rej": {}}
            frontier.append(dig)
    for level in range(depth):
        tasks = [(states[d]["seed"], states[d]["fam"], states[d]["h"],
                  only_core) for d in frontier]
        chunk = max(1, min(32, len(tasks) // (4 * pool._processes) or 1))
        nxt = []
        for dig, result in zip(frontier,
                               pool.imap(_expand, tasks, chunksize=chunk)):
            rec = states[dig]
            rec["ntr"] = len(result)
            for oper, outcome, child in result:
                if outcome != "ok":
                    key = f"{oper[0]}:{outcome}"
                    rec["rej"][key] = rec["rej"].get(key, 0) + 1
                    continue
                if child not in states:
                    states[child] = {"seed": rec["seed"], "fam": rec["fam"],
                                     "h": rec["h"] + [oper], "d": level + 1,
                                     "dg": child, "ntr": 0, "rej": {}}
                    nxt.append(child)
        frontier = nxt
    return states


def _worker_init():
    import signal
    signal.signal(signal.SIGINT, signal.SIG_IGN)
    core.reset_singletons()


def prepare(tier):
    cfg = _cfg(tier)
    _make_rundir()
    ctx = mp.get_context("fork")
    with ctx.Pool(_jobs(), initializer=_worker_init) as pool:
        full = _bfs(pool, cfg["seeds"], cfg["depth_full"], None)
        cor = _bfs(pool, [s for s in cfg["seeds"] if s in cfg["core_seeds"]],
                   cfg["depth_core"], "core")
        ser = _bfs(pool, [s for s in cfg["seeds"] if s in cfg["serial_seeds"]],
                   cfg["depth_serial"], "serial", ["omp"])
    merged = dict(full)
    for space in (cor, ser):
        for dig, rec in space.items():
            if dig not in merged:
                merged[dig] = rec
                continue
            old = merged[dig]
            if rec["d"] < old["d"]:
                # same state at two depths: keep the shorter history
                rec, old = old, rec
                merged[dig] = old
            # transitions out of a state expanded by several passes: the
            # sub-alphabet ones are a subset of the full ones; two
            # sub-alphabets overlap, so the larger count is kept (a slight
            # under-count, never an over-count)
            if rec["ntr"] > old["ntr"]:
                old["ntr"] = rec["ntr"]
                old["rej"] = rec["rej"]
    order = sorted(merged.values(),
                   key=lambda r: (r["d"], core.SEED_ORDER.index(r["seed"]),
                                  r["fam"], len(r["h"]), str(r["h"])))
    _STATE["tier"] = tier
    _STATE["states"] = order
    _STATE["stats"] = {"states_full_space": len(full),
                       "states_core_space": len(cor),
                       "states_serial_space": len(ser),
                       "states_union": len(merged)}


def cases(tier):
    if _STATE["tier"] != tier:
        prepare(tier)
    block = TIERS[tier]["block"]
    groups = {}
    for rec in _STATE["states"]:
        groups.setdefault((rec["d"], rec["seed"], rec["fam"]), []).append(rec)
    for (depth, seed, fam), recs in groups.items():
        for start in range(0, len(recs), block):
            part = recs[start:start + block]
            yield {"key": f"d{depth}:{seed}:{fam}:{start:06d}",
                   "seed": seed, "fam": fam,
                   "states": [{"h": r["h"], "dg": r["dg"], "ntr": r["ntr"],
                               "rej": r["rej"]} for r in part]}


# ---------------------------------------------------------------------------
# judging (runner workers)
# ---------------------------------------------------------------------------
def _make_rundir():
    """Scratch directory of this run (under /dev/shm), removed when the
    process that created it exits.  Pool workers are forked and leave through
    os._exit, so they only create sub-directories of it."""
    global _RUNDIR
    if _RUNDIR is None:
        import atexit
        from mc import runner
        _RUNDIR = runner.scratch_dir("c10")
        atexit.register(shutil.rmtree, _RUNDIR, True)
    return _RUNDIR


def init_worker(_tier):
    global _SCRATCH
    core.reset_singletons()
    owner = _RUNDIR is None
    base = _make_rundir()
    _SCRATCH = base if owner else os.path.join(base, f"w{os.getpid()}")
    os.makedirs(_SCRATCH, exist_ok=True)


def _snippet(text):
    body = [ln for ln in text.split("\n") if ln.strip()]
    keep = [ln for ln in body
            if not ln.strip().lower().startswith(("integer", "real"))]
    return "\n".join(keep)


def _judge_text(root, text, compile_result):
    """-> list of (sig, msg) for one emitted text given its stand-alone
    compiler result."""
    found = []
    seen = set()
    for line, mode, message in compile_result["errors"]:
        here, enc = struct.context_of_line(root, line) if line else ("?", "?")
        sig = f"gfc:{gfc.slug(message)}:{here}<{enc}"
        if sig in seen:
            continue
        seen.add(sig)
        src = text.split("\n")[line - 1].strip() if line else "?"
        found.append((sig, f"gfortran -fopenmp -fopenacc "
                           f"{'-fsyntax-only' if mode == 'A' else '-c'} rejects "
                           f"the emitted code at line {line} ('{src}'): "
                           f"{message}"))
    return found


def _viol(seed, fam, history, sig, msg, text):
    hist = core.hist_str(history)
    return {"key": f"{seed}:{fam}:{hist}#{sig}", "sig": sig,
            "msg": (f"seed '{seed}', history [{hist}]: every apply() was "
                    f"accepted and FortranWriter emitted code instead of "
                    f"refusing, but {msg}. Emitted: "
                    + _snippet(text).replace("\n", " | ")),
            "case": {"seed": seed, "fam": fam, "history": history}}


def run_case(case):
    seed, fam = case["seed"], case["fam"]
    classes = {}
    viol = []
    texts = []          # (state index, renamed text, struct root, struct probs)
    transitions = 0
    nontrivial = 0
    sample = None

    def count(name, num=1):
        classes[name] = classes.get(name, 0) + num

    for idx, rec in enumerate(case["states"]):
        history = rec["h"]
        transitions += rec["ntr"]
        for key, num in rec["rej"].items():
            count("apply-rejected:" + key.split(":", 1)[1], num)
        count("apply-accepted", rec["ntr"] - sum(rec["rej"].values()))
        psyir, routine, outcomes = core.build(seed, history)
        if any(o != "ok" for o in outcomes):
            raise RuntimeError(f"{seed} {history}: replay gave {outcomes}")
        written = core.write(psyir)
        if _state_digest(seed, fam, routine, written) != rec["dg"]:
            raise RuntimeError(f"{seed} {history}: replay reached a different "
                               f"state than the explorer (nondeterminism)")
        if written[0] == "crash":
            count("writer-crash:" + written[1])
            sig = f"writer-crash:{written[1]}"
            viol.append(_viol(seed, fam, history, sig,
                              f"FortranWriter raised {written[1]} "
                              f"({written[2][:200]}) which is neither code nor "
                              f"a generation error", ""))
            continue
        if written[0] == "refused":
            count("writer-refused:" + written[1])
            continue
        text = written[1]
        root, probs = struct.check(text)
        has_dir = any(n.kind in ("dir", "accloop", "alone")
                      for n in struct.walk(root))
        if history and has_dir:
            nontrivial += 1
        for sig, msg in probs:
            viol.append(_viol(seed, fam, history, sig, msg, text))
        texts.append((idx, gfc.rename(text, core.RNAME, f"c10s_{idx}"),
                      root, text, bool(probs)))
        if sample is None and history and has_dir:
            sample = {"seed": seed, "history": core.hist_str(history),
                      "emitted": _snippet(text).split("\n")}
    def sig_of(pos, errors):
        return {sig for sig, _msg in
                _judge_text(texts[pos][2], texts[pos][3], {"errors": errors})}

    results, runs = gfc.compile_batch([t[1] for t in texts], _SCRATCH,
                                      f"{os.getpid()}", sig_of)
    for (idx, _renamed, root, text, bad_struct), res in zip(texts, results):
        history = case["states"][idx]["h"]
        if res["unsupported"] and not res["errors"]:
            count("emitted:compiler-unsupported")
            continue
        found = _judge_text(root, text, res)
        for sig, msg in found:
            viol.append(_viol(seed, fam, history, sig, msg, text))
        if found or bad_struct:
            count("emitted:INVALID")
        else:
            count("emitted:accepted")
    sig_counts = {}
    sig_example = {}
    for vio in viol:
        sig_counts[vio["sig"]] = sig_counts.get(vio["sig"], 0) + 1
        sig_example.setdefault(vio["sig"], vio["key"].split("#")[0])
    out = {"evals": len(case["states"]), "nontrivial": nontrivial,
           "states": len(case["states"]), "transitions": transitions,
           "validated": len(case["states"]), "classes": classes, "viol": viol,
           "extra": {"gfortran_runs": runs,
                     "violation_signatures": sig_counts,
                     "violation_examples": sig_example}}
    if sample:
        out["sample"] = sample
    return out


def finish(tier, _totals):
    out = dict(_STATE["stats"] or {})
    return out


def replay(case):
    """Re-executes one history from the seed text, without the explorer."""
    if _SCRATCH is None:
        init_worker("quick")
    seed, history = case["seed"], case["history"]
    psyir, routine, outcomes = core.build(seed, history)
    out = {"seed": seed, "history": core.hist_str(history),
           "apply_outcomes": outcomes, "viol": []}
    if any(o != "ok" for o in outcomes):
        out["note"] = "an operation of the history is now rejected"
        return out
    out["view"] = routine.view(colour=False).split("\n")
    written = core.write(psyir)
    if written[0] != "text":
        out["writer"] = list(written)
        if written[0] == "crash":
            out["viol"].append({"sig": f"writer-crash:{written[1]}",
                                "msg": written[2]})
        return out
    text = written[1]
    out["emitted"] = text.split("\n")
    root, probs = struct.check(text)
    for sig, msg in probs:
        out["viol"].append({"sig": sig, "msg": msg})
    res = gfc.compile_alone(text, _SCRATCH, "replay")
    out["gfortran"] = res
    for sig, msg in _judge_text(root, text, res):
        out["viol"].append({"sig": sig, "msg": msg})
    return out
