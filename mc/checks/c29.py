"""C29 Transformed-kernel output never clobbers other kernels.

Real ``psy.gen`` runs of GOcean invokes whose kernels were transformed are
executed as Python threads under a baton scheduler (mc.c29_baton); the only
scheduling points are the file-system operations that
``CodedKern.rename_and_write`` issues through the names ``os`` / ``open`` of
``psyclone.psyGen`` (replaced by yielding proxies for the duration of one
execution; /repo is not modified).  Every interleaving of those operations is
explored by iterative preemption bounding, for both renaming schemes, for
identical and different kernels, and for an output directory that is empty or
holds the result of earlier complete runs.  The oracle (``judge``) is derived
from the property text only.
"""
import json
import os
import re
import shutil

from mc import c29_baton as baton
from mc.runner import HarnessError, scratch_dir, stable_hash

ID = "C29"
LEVEL = "model_checking"
EXHAUSTIVE = True
CASE_TIMEOUT = 6000
RULE = ("a configuration = (renaming scheme, multiset of concurrent runs, history of "
        "earlier complete runs); every maximal schedule (sequence of thread ids, one "
        "per file-system operation that rename_and_write issues) of every "
        "configuration is executed once on the real psy.gen, in order of preemption "
        "count (iterative preemption bounding), in the transition system reduced by "
        "two sound rules (operations on run-private state are not branched on; "
        "identically typed runs start in index order); for two runs the unreduced "
        "system is enumerated as well and must show the same observations; a "
        "schedule is non-trivial when at least one run is preempted between its first "
        "and last file-system operation (it is not a serial order of the runs); "
        "distinct = distinct (configuration, thread-id sequence)")
ASSUMPTIONS = [
    "a PSyclone run (a process) is modelled by a thread that owns private PSy objects "
    "rebuilt from source; rename_and_write shares no Python-level state between runs "
    "(os.getpid() is answered per run); all runs of one execution share the Config "
    "singleton, i.e. the same output directory and renaming scheme, as in the property",
    "one os.write / file.read call is atomic with respect to the other runs (the file "
    "is observed empty or complete, never half written)",
    "the code between two file-system operations of one run has no effect visible to "
    "other runs, so it is attributed to the preceding operation",
    "reduction 1: os.close of a descriptor the run opened itself, and operations whose "
    "paths all carry the pid reported to that run, commute with every operation of "
    "the other runs (that no run touches a path carrying another run's pid is checked "
    "on every operation of every execution)",
    "reduction 2: identically typed concurrent runs are interchangeable before their "
    "first file-system operation",
    "kernel texts: the text a run generates depends only on (kernel, transformation, "
    "suffix); the reference text is taken from a solo sequential run of the real code",
]

GOCEAN = "src/psyclone/tests/test_files/gocean1p0"
# run types: algorithm file, transformation, indices of the transformed kernels
# and (for the oracle) the variant = (module base name, transformation) of each.
TYPES = {
    "A": {"alg": "single_invoke.f90", "trans": "acc", "kernels": [0],
          "variants": [("compute_cu", "acc")]},
    "B": {"alg": "single_invoke.f90", "trans": "omp", "kernels": [0],
          "variants": [("compute_cu", "omp")]},
    "C": {"alg": "single_invoke_two_kernels.f90", "trans": "acc", "kernels": [1],
          "variants": [("time_smooth", "acc")],
          # the other kernel of this invoke is not transformed (never written)
          "plain": [("compute_cu_mod", "compute_cu_code")]},
    "D": {"alg": "single_invoke_two_identical_kernels.f90", "trans": "acc",
          "kernels": [0, 1],
          "variants": [("compute_cu", "acc"), ("compute_cu", "acc")]},
}
SOLO = {("compute_cu", "acc"): "A", ("compute_cu", "omp"): "B",
        ("time_smooth", "acc"): "C"}
VARIANTS = sorted(SOLO)

# Each space: concurrent runs, histories (earlier complete runs), depth of the
# blind schedule prefixes that split a configuration into work items, and
#  bound : only schedules with at most this many preemptions (None = all);
#  budget: cap on executions per work item (None = none);
#  full  : False = the space proper, explored with the sound reductions
#          (operations on run-private state -- os.close of a private
#          descriptor, files whose name carries the run's pid -- are executed
#          without branching; identically typed runs start in index order).
#          True = cross-check space: NO reduction at all, explored in order of
#          preemption count until done or until the budget is used up; every
#          observation (permutation-invariant digest of per-run outcome, PSy
#          layer uses, final directory, verdict) made there must also have been
#          made in the reduced exploration of the same configuration, and the
#          two sets must be equal when the unreduced exploration completed.
def _space(runs, hists, depth, full=False, bound=None, budget=None):
    return {"runs": runs, "hists": hists, "depth": depth, "full": full,
            "bound": bound, "budget": budget}


H0, HA, HB, HAB = [], ["A"], ["B"], ["A", "B"]
SPACES = {
    "quick": [
        _space(["A", "B"], [H0, HA, HB], 0),
        _space(["C", "D"], [H0, HA], 0),
        _space(["AA", "AB"], [H0, HA, HB], 1),
        _space(["AC"], [H0], 1),
        _space(["AD"], [H0], 2),
        _space(["AAA"], [H0], 3, bound=3),
        _space(["AAB"], [H0], 3, bound=1),
        _space(["AA", "AB"], [H0], 2, full=True, budget=60),
    ],
    "thorough": [
        _space(["A", "B", "C", "D"], [H0, HA, HB, ["A", "A"], HAB, ["D"]], 0),
        _space(["AA", "AB", "AC"], [H0, HA, HB, HAB], 1),
        _space(["AD", "BD"], [H0, HA, HB], 3),
        _space(["DD"], [H0], 4),
        _space(["AAA", "AAB", "ABB", "ABC"], [H0], 4),
        _space(["AAA", "ABC"], [HA], 4, budget=3000),
        _space(["AAB"], [HA], 4, bound=3),
        _space(["AAD"], [H0], 3, bound=2),
        _space(["AA", "AB", "AC"], [H0, HA, HB, HAB], 2, full=True, budget=400),
        _space(["AD"], [H0, HA], 4, full=True, budget=400),
    ],
}
SCHEMES = ["multiple", "single"]


def bounds(tier):
    out = {"schemes": SCHEMES, "spaces": [
        {"concurrent_runs": sp["runs"],
         "histories": ["".join(h) or "-" for h in sp["hists"]],
         "blind_prefix_depth": sp["depth"],
         "kind": ("unreduced cross-check" if sp["full"] else "reduced (sound)"),
         "max_preemptions": sp["bound"],
         "execution_budget_per_work_item": sp["budget"]}
        for sp in SPACES[tier]],
        "run_types": {k: f"{v['alg']}: {v['trans']} on kernels {v['kernels']}"
                      for k, v in TYPES.items()},
        "scheduling_points": "every os.* / os.path.{exists,...} / open / "
                             "file.read / file.write call made from "
                             "psyclone.psyGen by a run"}
    out.update(_FINISH_INFO)
    return out


_FINISH_INFO = {}


def cases(tier):
    for spc in SPACES[tier]:
        for runs in spc["runs"]:
            for hist in spc["hists"]:
                for scheme in SCHEMES:
                    prefixes = [[]]
                    for _ in range(spc["depth"]):
                        prefixes = [p + [t] for p in prefixes
                                    for t in range(len(runs))]
                    for pre in prefixes:
                        spec = {"scheme": scheme, "runs": list(runs),
                                "hist": list(hist), "sym": not spc["full"],
                                "por": not spc["full"]}
                        yield {"key": spec_key(spec) + "|p" + "".join(map(str, pre)),
                               "spec": spec, "prefix": pre, "bound": spc["bound"],
                               "budget": spc["budget"], "full": spc["full"]}


def config_key(spec):
    return (f"{spec['scheme']}/{''.join(spec['runs'])}/h"
            f"{''.join(spec['hist']) or '-'}")


def spec_key(spec):
    return config_key(spec) + ("" if spec.get("por") else "/unreduced")


# ---------------------------------------------------------------------------
# executing one schedule on the real code
# ---------------------------------------------------------------------------
_STATE = {"base": None, "count": 0, "hist": {}, "ref": {}, "parsed": {}}


def init_worker(_tier):
    # imports only; everything else is lazy
    import psyclone.psyGen  # noqa: F401 pylint: disable=unused-import,import-outside-toplevel


def _repo():
    return os.environ.get("VERIF_REPO", "/repo")


def build(typ, fresh_parse=False):
    """Fresh PSy object of run type ``typ`` with its kernels transformed.
    The PSy object, its schedule, the kernel parse trees and kernel PSyIR are
    created anew on every call.  The result of ``parse`` (algorithm call list
    + kernel metadata, only read by PSyFactory.create) is computed once per
    worker unless ``fresh_parse``: it is 2/3 of the cost.  Every work item
    re-executes one of its schedules with ``fresh_parse`` and demands
    identical observations, which validates the sharing."""
    # pylint: disable=import-outside-toplevel
    from psyclone.configuration import Config
    from psyclone.parse.algorithm import parse
    from psyclone.psyGen import PSyFactory
    from psyclone.transformations import ACCRoutineTrans, OMPDeclareTargetTrans
    Config.get().api = "gocean"
    desc = TYPES[typ]
    if fresh_parse or desc["alg"] not in _STATE["parsed"]:
        _, info = parse(os.path.join(_repo(), GOCEAN, desc["alg"]), api="gocean")
        if not fresh_parse:
            _STATE["parsed"][desc["alg"]] = info
    else:
        info = _STATE["parsed"][desc["alg"]]
    psy = PSyFactory("gocean", distributed_memory=False).create(info)
    kerns = psy.invokes.invoke_list[0].schedule.coded_kernels()
    for idx, (base, _) in zip(desc["kernels"], desc["variants"]):
        kern = kerns[idx]
        if kern.module_name != base + "_mod":
            raise HarnessError(f"type {typ}: kernel {idx} is {kern.module_name}")
        if desc["trans"] == "acc":
            ACCRoutineTrans().apply(kern)
        else:
            OMPDeclareTargetTrans().apply(kern.get_kernel_schedule())
            kern.modified = True
    return psy


def _new_dir():
    if _STATE["base"] is None or _STATE.get("pid") != os.getpid():
        _STATE["base"] = scratch_dir("c29")
        _STATE["pid"] = os.getpid()
    _STATE["count"] += 1
    path = os.path.join(_STATE["base"], f"x{_STATE['count']}")
    os.makedirs(path)
    return path


def cleanup():
    if _STATE["base"] and _STATE.get("pid") == os.getpid():
        shutil.rmtree(_STATE["base"], ignore_errors=True)
        _STATE["base"] = None


def execute(spec, histfiles, prefix, expect, fresh_parse=False):
    """One execution of the real code: fresh PSy objects (see ``build``;
    copy.deepcopy of a PSy object fails), a fresh scratch directory holding
    ``histfiles``, the runs as threads under the baton.  Returns the record
    of Baton.run plus the final directory content, or None for an infeasible
    blind prefix."""
    # pylint: disable=import-outside-toplevel
    import psyclone.psyGen as psygen
    from psyclone.configuration import Config
    outdir = _new_dir()
    try:
        for name, text in histfiles.items():
            with open(os.path.join(outdir, name), "w", encoding="utf-8") as fout:
                fout.write(text)
        psys = [build(t, fresh_parse) for t in spec["runs"]]
        cfg = Config.get()
        cfg.api = "gocean"
        cfg._kernel_output_dir = outdir           # pylint: disable=protected-access
        cfg._kernel_naming = spec["scheme"]       # pylint: disable=protected-access
        bodies = [(lambda p=p: str(p.gen)) for p in psys]
        bat = baton.Baton(bodies, outdir, labels=list(spec["runs"]),
                          symmetry=spec.get("sym", False),
                          local_ops=("close",) if spec.get("por") else ())
        with baton.planted(psygen, bat):
            rec = bat.run(prefix, expect)
        if rec is None:
            return None
        for out in rec["done"]:
            if out[0] == "raise":
                out[2] = out[2].replace(outdir, "<OUT>")
        files = {}
        for name in sorted(os.listdir(outdir)):
            with open(os.path.join(outdir, name), encoding="utf-8",
                      errors="replace") as fin:
                files[name] = fin.read()
        rec["files"] = files
        return rec
    finally:
        shutil.rmtree(outdir, ignore_errors=True)


def _solo(scheme, typ, files):
    return execute({"scheme": scheme, "runs": [typ], "hist": []}, files, [], None)


def history_files(scheme, hist):
    """Files left by the earlier complete (sequential, real) runs ``hist``."""
    key = (scheme, tuple(hist))
    if key not in _STATE["hist"]:
        files = {}
        for typ in hist:
            files = _solo(scheme, typ, files)["files"]
        _STATE["hist"][key] = files
    return _STATE["hist"][key]


def reference(variant, num):
    """Kernel text that a solo sequential run produces for ``variant`` when it
    ends up with suffix ``num`` (the directory holds placeholder files for the
    lower suffixes).  Independent of any interleaving."""
    key = (variant, num)
    if key not in _STATE["ref"]:
        base = variant[0]
        files = {f"{base}_{i}_mod.f90": "placeholder\n" for i in range(num)}
        rec = _solo("multiple", SOLO[variant], files)
        name = f"{base}_{num}_mod.f90"
        if rec["done"][0][0] != "ok" or name not in rec["files"] or \
                not rec["files"][name].strip():
            raise HarnessError(f"sequential reference run for {variant} suffix "
                               f"{num} failed: {rec['done'][0][:2]} "
                               f"{sorted(rec['files'])}")
        _STATE["ref"][key] = rec["files"][name]
    return _STATE["ref"][key]


# ---------------------------------------------------------------------------
# oracle (from the property text only)
# ---------------------------------------------------------------------------
USE_RE = re.compile(r"^\s*use\s+(\w+)\s*,\s*only\s*:\s*(\w+_code)\s*$", re.I | re.M)
MUTATING = {"write", "fwrite", "pwrite", "truncate", "ftruncate", "remove",
            "unlink"}
MAXSUF = 6


def _classify(text, variant):
    """What a piece of file content is, relative to the reference texts."""
    if text is None:
        return "missing"
    if text == "":
        return "empty"
    for var in VARIANTS:
        for num in range(MAXSUF):
            try:
                ref = reference(var, num)
            except HarnessError:
                continue
            if text == ref:
                return ("kernel" if var == variant else "other-kernel") + f"#{num}"
            if ref.startswith(text):
                return "truncated"
    return "other"


def _mutated(rec):
    """tid -> set of paths the run changed (from the observed operations)."""
    out = {}
    for ent in rec["trace"]:
        res = ent["res"]
        if isinstance(res, str) and res.startswith("err:"):
            continue
        path = ent["path"] or ""
        if ent["op"] in MUTATING:
            out.setdefault(ent["t"], set()).add(path)
        elif ent["op"] in ("link", "rename", "replace", "symlink") and "->" in path:
            out.setdefault(ent["t"], set()).add(path.split("->")[1])
        elif ent["op"] == "open" and "O_TRUNC" in ent.get("flags", ""):
            out.setdefault(ent["t"], set()).add(path)
        elif ent["op"] == "fopen" and any(c in ent.get("mode", "") for c in "wa+x"):
            out.setdefault(ent["t"], set()).add(path)
    return out


def _names_ok(content, mod, routine):
    found = re.search(r"^\s*module\s+(\w+)", content, re.I | re.M)
    if not found or found.group(1).lower() != mod.lower():
        return "module"
    if not re.search(rf"^\s*end\s+module\s+{re.escape(mod)}\s*$", content,
                     re.I | re.M):
        return "module"
    if not re.search(rf"^\s*subroutine\s+{re.escape(routine)}\s*\(", content,
                     re.I | re.M):
        return "routine"
    return None


def judge(spec, rec, histfiles):
    """Returns (list of (sig, msg), outcome class)."""
    scheme, runs = spec["scheme"], spec["runs"]
    files, done = rec["files"], rec["done"]
    viol = []
    mutated = _mutated(rec)
    where = f"{spec_key(spec)} schedule {''.join(str(s['c']) for s in rec['steps'])}"

    def add(sig, msg):
        viol.append((sig, f"[{where}] {msg}"))

    uses = []
    for tid, out in enumerate(done):
        plain = TYPES[runs[tid]].get("plain", [])
        uses.append([(m.lower(), r.lower()) for m, r in USE_RE.findall(out[1])
                     if (m.lower(), r.lower()) not in plain]
                    if out[0] == "ok" else None)
    # files that existed before the runs started must be unchanged
    for name, text in histfiles.items():
        # 'multiple': "no other run overwrites" -> not even with equal content
        if files.get(name) != text or (scheme == "multiple" and any(
                name in m for m in mutated.values())):
            add(f"{scheme}:preexisting-file-modified",
                f"{name} existed before the runs (left by the earlier runs "
                f"{spec['hist']}) and was changed: now "
                f"{_classify(files.get(name), None)}")
    writers = {}
    for tid, paths in mutated.items():
        for path in paths:
            writers.setdefault(path, set()).add(tid)
    for path, tids in sorted(writers.items()):
        if len(tids) > 1 and scheme == "multiple":
            add("multiple:file-written-by-several-runs",
                f"{path} was written by runs {sorted(tids)}")

    if scheme == "multiple":
        users = {}
        for tid, out in enumerate(done):
            typ = runs[tid]
            if out[0] != "ok":
                add(f"multiple:run-raised:{out[1]}",
                    f"run {tid} (type {typ}) raised {out[1]}: {out[2][:200]}")
                continue
            want = sorted(b for b, _ in TYPES[typ]["variants"])
            got = []
            for mod, routine in uses[tid]:
                found = re.fullmatch(r"(\w+?)_(\d+)_mod", mod)
                got.append(found.group(1) if found else mod)
            if sorted(got) != want:
                add("multiple:kernels-not-in-fresh-files-each",
                    f"run {tid} (type {typ}) transformed kernels {want} but its "
                    f"PSy layer uses {uses[tid]}")
                continue
            for mod, routine in uses[tid]:
                found = re.fullmatch(r"(\w+?)_(\d+)_mod", mod)
                base, num = found.group(1), int(found.group(2))
                variant = next(v for v in TYPES[typ]["variants"] if v[0] == base)
                name = mod + ".f90"
                users.setdefault(name, set()).add(tid)
                if name in histfiles:
                    add("multiple:psy-uses-preexisting-file",
                        f"run {tid} uses {name} which existed before it started")
                    continue
                if name not in files:
                    add("multiple:kernel-file-missing",
                        f"run {tid} uses module {mod} but {name} does not exist")
                    continue
                if name not in mutated.get(tid, ()):
                    add("multiple:psy-uses-file-not-written-by-run",
                        f"run {tid} uses {name} but never wrote it")
                bad = _names_ok(files[name], mod, routine)
                if routine != f"{base}_{num}_code":
                    bad = bad or "routine"
                if files[name] != reference(variant, num):
                    add("multiple:file-content-not-writers-kernel:"
                        + _classify(files[name], variant).split("#")[0],
                        f"{name} (used by run {tid}, type {typ}) does not hold "
                        f"the kernel that run generates for suffix {num}: it is "
                        f"{_classify(files[name], variant)}")
                elif bad:
                    add(f"multiple:names-mismatch:{bad}",
                        f"{name}: {bad} name inside the file does not match "
                        f"the file name / PSy layer ({mod}, {routine})")
        for name, tids in sorted(users.items()):
            if len(tids) > 1:
                add("multiple:file-shared-by-runs",
                    f"the PSy layers of runs {sorted(tids)} all use {name}")
        cls = "multiple:" + ("all-fresh" if not viol else "violated")
        return viol, cls

    # ---- single ------------------------------------------------------------
    nfail = 0
    bases = sorted({b for t in runs for b, _ in TYPES[t]["variants"]})
    for base in bases:
        name = f"{base}_0_mod.f90"
        part = [t for t in range(len(runs))
                if any(b == base for b, _ in TYPES[runs[t]]["variants"])]
        kinds = {t: next(v for v in TYPES[runs[t]]["variants"] if v[0] == base)
                 for t in part}
        content = files.get(name)
        owner = None
        for var in VARIANTS:
            if var[0] == base and content == reference(var, 0):
                owner = var
        if owner is None:
            add("single:file-content-not-a-kernel:"
                + _classify(content, None).split("#")[0],
                f"{name} is {_classify(content, None)} after all runs "
                f"finished")
            continue
        bad = _names_ok(content, f"{base}_0_mod", f"{base}_0_code")
        if bad:
            add(f"single:names-mismatch:{bad}", f"{name}: {bad} name inside")
        for tid in part:
            out = done[tid]
            if out[0] == "ok":
                if set(uses[tid]) != {(f"{base}_0_mod", f"{base}_0_code")}:
                    add("single:psy-uses-unexpected-module",
                        f"run {tid} uses {uses[tid]}, expected {base}_0_mod")
                elif kinds[tid] != owner:
                    add("single:differing-kernel-run-uses-other-version",
                        f"run {tid} (type {runs[tid]}, kernel {kinds[tid]}) "
                        f"succeeded although {name} holds {owner}")
            elif kinds[tid] == owner:
                reads = [e for e in rec["trace"] if e["t"] == tid
                         and e["op"] in ("fread", "read") and "data" in e]
                seen = (_classify(rec["texts"][reads[-1]["data"]],
                                  owner).split("#")[0] if reads else "nothing")
                add(f"single:same-kernel-run-fails:{out[1]}:read={seen}",
                    f"run {tid} (type {runs[tid]}) generates exactly the kernel "
                    f"that {name} holds at the end, yet it raised {out[1]} "
                    f"instead of sharing the file; what it read back from "
                    f"{name} was: {seen}. {out[2][:160]}")
            else:
                nfail += 1
        same = {kinds[t] for t in part} | (
            {owner} if name in histfiles else set())
        if len(same) == 1:
            extra = [f for f in files
                     if re.fullmatch(rf"{base}_\d+_mod\.f90", f) and f != name]
            if extra:
                add("single:more-than-one-file",
                    f"identical kernels, yet {sorted(extra)} exist beside {name}")
    if viol:
        return viol, "single:violated"
    return viol, ("single:all-share" if not nfail
                  else "single:differing-runs-refused")


# ---------------------------------------------------------------------------
# work items
# ---------------------------------------------------------------------------
def _observation(rec):
    """Everything the oracle looks at, for the replay-equality test."""
    return json.dumps({k: rec[k] for k in ("steps", "done", "trace", "texts",
                                           "files")}, sort_keys=True)


def _digest(spec, rec, found):
    """Permutation-invariant summary of one execution (cross-check of the
    reductions): per run its type, outcome and the modules it uses; the final
    directory; the verdict."""
    per = []
    for tid, out in enumerate(rec["done"]):
        per.append([spec["runs"][tid], out[0] if out[0] == "ok" else out[1],
                    sorted(USE_RE.findall(out[1])) if out[0] == "ok" else []])
    text = json.dumps([sorted(per), rec["files"], sorted({s for s, _ in found})],
                      sort_keys=True)
    return f"{stable_hash(text):08x}"


def _serial(schedule):
    """True when no run is preempted between its first and last operation."""
    seen, last = set(), None
    for tid in schedule:
        if tid != last and tid in seen:
            return False
        seen.add(tid)
        last = tid
    return True


def run_case(case):
    spec = case["spec"]
    try:
        histfiles = history_files(spec["scheme"], spec["hist"])

        def one(prefix, expect):
            return execute(spec, histfiles, prefix, expect)

        gen = baton.explore(one, case["prefix"], budget=case.get("budget"),
                            max_bound=case.get("bound"))
        res = {"evals": 0, "nontrivial": 0, "states": 0, "transitions": 0,
               "validated": 0, "classes": {}, "viol": [],
               "extra": {"by_preemptions": {}, "fs_operations_executed": 0}}
        digests = set()
        last = None
        while True:
            try:
                sched, npre, rec = next(gen)
            except StopIteration as stop:
                info = stop.value
                break
            res["evals"] += 1
            res["nontrivial"] += 0 if _serial(sched) else 1
            res["extra"]["fs_operations_executed"] += len(sched)
            hist = res["extra"]["by_preemptions"]
            hist[str(npre)] = hist.get(str(npre), 0) + 1
            found, cls = judge(spec, rec, histfiles)
            res["classes"][cls] = res["classes"].get(cls, 0) + 1
            digests.add(_digest(spec, rec, found))
            for pos, (sig, msg) in enumerate(found):
                if sig in [s for s, _ in found[:pos]]:
                    continue        # one entry per (schedule, signature)
                res["viol"].append({
                    "key": spec_key(spec) + "|s" + "".join(map(str, sched)),
                    "sig": sig, "msg": msg,
                    "case": {"spec": spec, "schedule": sched}})
            last = (sched, rec)
        if not info["feasible"] or last is None:
            res["evals"] = res["nontrivial"] = 0
            res["classes"]["infeasible-or-pruned-blind-prefix"] = 1
            return res
        res["states"] = info["nodes"]
        res["transitions"] = info["nodes"] - 1
        res["validated"] = res["evals"]
        if info["budget_hit"]:
            res["extra"]["xcheck_incomplete" if case.get("full") else
                         "incomplete"] = {case["key"]: info["bound_completed"]}
        if len(spec["runs"]) == 2:
            res["extra"][("xfull " if case.get("full") else "xred ")
                         + config_key(spec)] = sorted(digests)
        # one schedule of this item is executed a second time from its
        # recorded thread-id list: the observations must be identical.
        sched, rec = last
        again = execute(spec, histfiles, sched, [s["op"] for s in rec["steps"]],
                        fresh_parse=True)
        if _observation(again) != _observation(rec):
            raise HarnessError(f"second execution of {spec_key(spec)} {sched} "
                               f"(from a fresh parse) gave different observations")
        res["validated"] += 1
        res["extra"]["schedules_executed_twice"] = 1
        res["sample"] = {"config": spec_key(spec), "schedule": sched,
                         "operations": [s["op"] for s in rec["steps"]],
                         "outcomes": [d[0] if d[0] == "ok" else d[1]
                                      for d in rec["done"]],
                         "files": sorted(rec["files"]), "verdict": cls}
        return res
    finally:
        cleanup()


def finish(_tier, totals):
    global EXHAUSTIVE  # pylint: disable=global-statement
    extra = totals["extra"]
    inc = extra.pop("incomplete", {})
    xinc = extra.pop("xcheck_incomplete", {})
    by_pre = extra.get("by_preemptions", {})
    _FINISH_INFO["max_preemptions_seen"] = max([int(k) for k in by_pre] or [0])
    if inc:
        EXHAUSTIVE = False
        _FINISH_INFO["budget_hit_in_work_items"] = len(inc)
        _FINISH_INFO["preemption_bound_completed_in_all_of_them"] = \
            min(inc.values())
    # unreduced versus reduced exploration of the same configuration
    full = {k[6:]: set(extra.pop(k)) for k in sorted(extra)
            if k.startswith("xfull ")}
    red = {k[5:]: set(extra.pop(k)) for k in sorted(extra)
           if k.startswith("xred ")}
    partial = {}
    for key, done in xinc.items():
        cfg = key.split("/unreduced")[0]
        partial[cfg] = min(done, partial.get(cfg, done))
    for cfg in sorted(set(full) & set(red)):
        miss = full[cfg] - red[cfg]
        if miss or (cfg not in partial and full[cfg] != red[cfg]):
            raise HarnessError(
                f"reduction cross-check failed for {cfg}: unreduced exploration "
                f"({'complete' if cfg not in partial else 'partial'}) saw "
                f"{len(full[cfg])} distinct observations, reduced "
                f"{len(red[cfg])}; only unreduced: {sorted(miss)[:5]}, only "
                f"reduced: {sorted(red[cfg] - full[cfg])[:5]}")
    both = set(full) & set(red)
    if partial:
        _FINISH_INFO["unreduced_crosscheck_preemption_bound_completed"] = partial
    return {"reduction_crosschecked_configurations": len(both),
            "of_which_unreduced_exploration_complete": len(both - set(partial)),
            "distinct_observations_in_crosschecked": sum(
                len(red[c]) for c in both)}


def replay(case):
    """Re-executes one schedule (no explorer) and judges it."""
    spec, sched = case["spec"], case["schedule"]
    try:
        histfiles = history_files(spec["scheme"], spec["hist"])
        rec = execute(spec, histfiles, sched, None, fresh_parse=True)
        if rec is None or [s["c"] for s in rec["steps"]] != sched:
            raise HarnessError("the recorded schedule is not feasible any more")
        found, cls = judge(spec, rec, histfiles)
        return {"config": spec_key(spec), "schedule": sched, "class": cls,
                "operations": [f"{s['c']}:{s['op']}" for s in rec["steps"]],
                "results": [f"{e['t']}:{e['op']}:{e['path']}={e['res']}"
                            for e in rec["trace"]],
                "outcomes": [d[:2] if d[0] != "ok" else ["ok"]
                             for d in rec["done"]],
                "files": sorted(rec["files"]),
                "viol": [{"sig": s, "msg": m} for s, m in found]}
    finally:
        cleanup()
