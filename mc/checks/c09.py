"""C09 OpenMP-parallelised loops compute the serial result on any schedule.

Every loop of the C08 corpus is given to the real OpenMP loop transformations
(no force option).  For every accepted loop the transformed tree is lowered
(which is where PSyclone infers the private / firstprivate clauses) and then
executed by the E1 interpreter in "OpenMP mode" for EVERY assignment of the
loop's iterations to at most T threads: private and firstprivate scalars get
per-thread copies, everything else is shared.  Any conflicting access to a
shared location from two threads is a data race; without a race the final
shared store must equal the serial run of the original program.
"""
import itertools

from mc.checks import c08

ID = "C09"
LEVEL = "model_checking"
EXHAUSTIVE = True
CASE_TIMEOUT = 3000
RULE = ("loops = the C08 corpus; variants = OMPParallelLoopTrans, OMPLoopTrans(do)+"
        "OMPParallelTrans [thorough: OMPLoopTrans(paralleldo | loop+parallel | "
        "teamsdistributeparalleldo)], collapse none/2 on nests; schedules = every set "
        "partition of the iteration set into at most T thread blocks (T=3 quick, 4 "
        "thorough; each thread runs its iterations in increasing order; threads run one "
        "after another in both orders) = all outcomes static/dynamic/guided schedules "
        "can produce up to thread renaming; inputs as C08; non-trivial = accepted "
        "(loop, variant) pair, each executed on all schedules x inputs")
ASSUMPTIONS = [
    "OpenMP clause semantics modelled in E1: private = per-thread copy, undefined at "
    "entry; firstprivate = per-thread copy initialised from the value at region entry; "
    "everything else shared; loop variables private",
    "race = two different threads access one shared location, at least one writes "
    "(then interleavings matter and the run is a violation); without a race any "
    "interleaving equals running the threads one after another",
    "not compared: the post-region value of scalars in the private/firstprivate "
    "clauses (documented exclusion)",
]
BLOCK = 6
_TIER = "quick"


def bounds(tier):
    return {"loops": len(c08._corpus(tier)), "threads": 3 if tier == "quick" else 4,
            "variants": variants(tier, True)}


def cases(tier):
    total = len(c08._corpus(tier))
    for start in range(0, total, BLOCK):
        yield {"key": f"blk{start:06d}", "start": start,
               "stop": min(total, start + BLOCK)}


def init_worker(tier):
    global _TIER
    _TIER = tier
    c08._corpus(tier)


def variants(tier, names_only=False):
    out = ["parallelloop", "do+parallel"]
    if tier == "thorough":
        out += ["paralleldo", "loop+parallel", "teamsdistributeparalleldo"]
    return out


def apply_variant(variant, loop_node, collapse):
    """Applies the real transformations; raises TransformationError on refusal."""
    from psyclone.transformations import OMPParallelLoopTrans, OMPParallelTrans
    from psyclone.psyir.transformations import OMPLoopTrans
    opts = {"collapse": collapse} if collapse else None
    if variant == "parallelloop":
        OMPParallelLoopTrans().apply(loop_node, opts)
    elif variant == "do+parallel":
        OMPLoopTrans(omp_directive="do").apply(loop_node, opts)
        OMPParallelTrans().apply(loop_node.parent.parent)
    elif variant == "loop+parallel":
        OMPLoopTrans(omp_directive="loop").apply(loop_node, opts)
        OMPParallelTrans().apply(loop_node.parent.parent)
    else:
        OMPLoopTrans(omp_directive=variant).apply(loop_node, opts)


def set_partitions(items, maxblocks):
    """All partitions of the list into at most maxblocks non-empty blocks."""
    if not items:
        yield []
        return
    first, rest = items[0], items[1:]
    for part in set_partitions(rest, maxblocks):
        for idx in range(len(part)):
            yield part[:idx] + [[first] + part[idx]] + part[idx + 1:]
        if len(part) < maxblocks:
            yield [[first]] + part


MAX_ITERATIONS = 6
_PARTS = {}


def partitions_of(num, threads):
    if (num, threads) not in _PARTS:
        _PARTS[(num, threads)] = list(set_partitions(list(range(num)), threads))
    return _PARTS[(num, threads)]


class Race(Exception):
    def __init__(self, loc, thr1, thr2):
        super().__init__(f"race on {loc}")
        self.loc, self.thr1, self.thr2 = loc, thr1, thr2


class OmpHooks:
    """E1 hooks giving OpenMP worksharing directives the semantics described
    in the module docstring for ONE schedule (partition index + order)."""

    def __init__(self, part_index, reverse, threads):
        self.part_index = part_index
        self.reverse = reverse
        self.threads = threads
        self.partitions_seen = None
        self.private_syms = set()
        self.race = None
        self.thread = None
        self.private_cells = set()
        self.access = {}

    # -- tracer -----------------------------------------------------------
    def tracer(self, kind, cell, _node, _interp):
        if self.thread is None or id(cell) in self.private_cells:
            return
        rec = self.access.setdefault(id(cell), [cell, {}])[1]
        rec[self.thread] = rec.get(self.thread, False) or kind == "W"

    # -- directive --------------------------------------------------------
    def directive(self, interp, node, frame):
        from psyclone.psyir import nodes as N
        if isinstance(node, N.OMPParallelDoDirective):
            self._workshare(interp, node, node, frame)
            return True
        if isinstance(node, N.OMPParallelDirective):
            body = node.dir_body.children
            if len(body) == 1 and isinstance(body[0], (N.OMPDoDirective,
                                                        N.OMPLoopDirective)):
                self._workshare(interp, node, body[0], frame)
                return True
            from mc.fortsem.interp import Unsupported
            raise Unsupported("parallel region with more than a loop directive")
        return False

    def _clause_syms(self, par):
        from psyclone.psyir import nodes as N
        priv, fpriv = [], []
        for clause in par.children[1:]:
            if isinstance(clause, N.OMPFirstprivateClause):
                fpriv += [ref.symbol for ref in clause.children]
            elif isinstance(clause, N.OMPPrivateClause):
                priv += [ref.symbol for ref in clause.children]
        return priv, fpriv

    def _workshare(self, interp, par, wsh, frame):
        from psyclone.psyir import nodes as N
        from mc.fortsem import interp as I
        priv, fpriv = self._clause_syms(par)
        self.private_syms |= {s.name.lower() for s in priv + fpriv}
        loop = wsh.dir_body.children[0]
        if not isinstance(loop, N.Loop):
            raise I.Unsupported("worksharing directive without a loop")
        collapse = getattr(wsh, "collapse", None) or 1
        loops = [loop]
        while len(loops) < collapse:
            inner = loops[-1].loop_body.children[0]
            if not isinstance(inner, N.Loop):
                raise I.Unsupported("collapse without perfectly nested loop")
            loops.append(inner)
        # iteration space (bounds are evaluated once, before the region)
        spaces = []
        for one in loops:
            start = interp._int(interp.eval(one.start_expr, frame), "loop start")
            stop = interp._int(interp.eval(one.stop_expr, frame), "loop stop")
            step = interp._int(interp.eval(one.step_expr, frame), "loop step")
            if step == 0:
                raise I.UB("zero-step")
            trips = max(I.f_div(stop - start + step, step), 0)
            spaces.append([start + k * step for k in range(trips)])
        iterations = list(itertools.product(*spaces))
        if len(iterations) > MAX_ITERATIONS:
            # outside the explored bound (collapsed nests): input skipped
            raise I.UB("too-many-iterations", str(len(iterations)))
        parts = partitions_of(len(iterations), self.threads)
        self.partitions_seen = len(parts)
        part = parts[self.part_index % len(parts)]
        blocks = [sorted(b) for b in part]
        blocks.sort()
        if self.reverse:
            blocks.reverse()
        loop_syms = [one.variable for one in loops]
        masters = {}
        for sym in priv + fpriv + loop_syms:
            masters[id(sym)] = (sym, interp.storage(sym, frame))
        entry_vals = {id(s): I.snapshot(masters[id(s)][1]) for s in fpriv}
        self.access = {}
        for tnum, block in enumerate(blocks):
            self.thread = tnum
            for sym in priv + loop_syms:
                frame.store[id(sym)] = self._fresh(interp, sym, frame, None)
            for sym in fpriv:
                frame.store[id(sym)] = self._fresh(interp, sym, frame,
                                                   masters[id(sym)][1])
            for idx in block:
                values = iterations[idx]
                for one, val in zip(loops, values):
                    interp._wr(frame.store[id(one.variable)], val, one)
                entries = [[one, val, 0] for one, val in zip(loops, values)]
                interp.loop_stack.extend(entries)
                try:
                    interp.exec_schedule(loops[-1].loop_body, frame)
                finally:
                    del interp.loop_stack[-len(entries):]
        self.thread = None
        for _key, (sym, cell) in masters.items():
            frame.store[id(sym)] = cell
        for sym in priv + loop_syms:
            for cell in _cells_of(masters[id(sym)][1]):
                cell.v = I.POISON
        # data races on shared locations
        for _cid, (cell, rec) in sorted(self.access.items(),
                                        key=lambda kv: str(kv[1][0].loc)):
            if len(rec) > 1 and any(rec.values()):
                thrs = sorted(rec)
                writer = [t for t in thrs if rec[t]][0]
                other = [t for t in thrs if t != writer][0]
                self.race = (cell.loc, blocks[writer], blocks[other], iterations)
                break

    def _fresh(self, interp, sym, frame, master):
        """A thread-private instance of `sym`: undefined (private) or a copy
        of the master's current values (firstprivate; taken before any thread
        has run because firstprivate variables are not shared-written)."""
        stor = interp.allocate(sym.name.lower(), sym.datatype, frame,
                               loc_prefix=("<private>", sym.name.lower()))
        cells = _cells_of(stor)
        if master is not None:
            for mine, theirs in zip(cells, _cells_of(master)):
                mine.v = theirs.v
        for cell in cells:
            self.private_cells.add(id(cell))
            self._keep(cell)
        return stor

    def _keep(self, cell):
        # keep private cells alive so that id() is not reused
        self.__dict__.setdefault("_alive", []).append(cell)


def _cells_of(stor):
    """All scalar cells of a storage object, in a deterministic order."""
    from mc.fortsem import interp as I
    if isinstance(stor, I.Cell):
        if isinstance(stor.v, I.StructVal):
            return _cells_of(stor.v)
        return [stor]
    if isinstance(stor, I.ArrayVal):
        out = []
        for cell in stor.cells:
            out += _cells_of(cell)
        return out
    out = []
    for _name, sub in sorted(stor.members.items()):
        out += _cells_of(sub)
    return out


def run_schedule(tree, make, part_index, reverse, threads):
    from mc.fortsem import equiv
    hooks = OmpHooks(part_index, reverse, threads)
    args = make()
    res = equiv.run(tree, "s", args, hooks=hooks, tracer=hooks.tracer,
                    horizon=100000)
    return res, hooks, args


def check_loop(key, body, which, variant, collapse):
    from psyclone.psyir.frontend.fortran import FortranReader
    from psyclone.psyir.backend.fortran import FortranWriter
    from psyclone.psyir import nodes as N
    from psyclone.psyir.transformations import TransformationError
    from psyclone.errors import GenerationError
    from mc.fortsem import equiv
    src = c08.MODHEAD + c08.indent(body) + c08.MODFOOT
    out = {"classes": {}, "viol": [], "nontrivial": 0, "schedules": 0}
    tree = FortranReader().psyir_from_source(src)
    work = FortranReader().psyir_from_source(src)
    loop_node = work.walk(N.Loop)[which]
    label = f"{variant}{'+collapse2' if collapse else ''}"
    try:
        apply_variant(variant, loop_node, collapse)
    except TransformationError:
        out["classes"][f"{label}:refused"] = 1
        return out
    try:
        work.walk(N.Routine)[0].lower_to_language_level()
        text = FortranWriter()(work)
    except GenerationError:
        out["classes"][f"{label}:accepted-but-generation-refused"] = 1
        return out
    out["nontrivial"] = 1
    threads = 3 if _TIER == "quick" else 4
    inputs = c08.make_inputs(body)
    if _TIER == "quick":
        inputs = [(k, m) for k, m in inputs
                  if ",k=1," in k and k.endswith(("ix=id", "ix=alt"))]
    orders = (False,) if _TIER == "quick" else (False, True)
    bad = None
    admissible = 0
    for ikey, make in inputs:
        ref_args = make()
        ref = equiv.run(tree, "s", ref_args, horizon=100000)
        if ref[0] == "unsupported":
            raise RuntimeError(f"E1 cannot run {key}: {ref[1]}")
        if ref[0] != "ok":
            continue
        admissible += 1
        want = equiv.observe(ref_args)
        nparts = None
        pidx = 0
        while nparts is None or pidx < nparts:
            for reverse in orders:
                res, hooks, args = run_schedule(work, make, pidx, reverse, threads)
                out["schedules"] += 1
                if res[0] == "unsupported":
                    raise RuntimeError(f"E1 cannot run OpenMP version of {key} "
                                       f"({label}): {res[1]}\n{text}")
                nparts = hooks.partitions_seen or 1
                if hooks.race is not None:
                    loc, blk1, blk2, its = hooks.race
                    bad = ("race", ikey,
                           f"threads running iterations "
                           f"{[its[i] for i in blk1]} and {[its[i] for i in blk2]} "
                           f"both access shared {equiv.show_loc(loc)}, one writes")
                    break
                if res[0] == "ub" and res[1] == "too-many-iterations":
                    nparts = 0
                    break
                if res[0] == "ub":
                    bad = ("undefined", ikey,
                           f"the OpenMP execution is undefined ({res[2]})")
                    break
                got = equiv.observe(args)
                for name in hooks.private_syms:
                    want_f = {k: v for k, v in want.items() if k[0] != name}
                diff = equiv.first_difference(
                    {k: v for k, v in want.items()
                     if k[0] not in hooks.private_syms}, got)
                if diff is not None:
                    loc, exp, obs = diff
                    bad = ("result", ikey,
                           f"{equiv.show_loc(loc)} = {equiv.show_val(obs)} instead "
                           f"of the serial {equiv.show_val(exp)} (schedule "
                           f"{pidx}{'r' if reverse else ''})")
                    break
            if bad:
                break
            pidx += 1
        if bad:
            break
    if bad is None:
        out["classes"][f"{label}:ok" if admissible else f"{label}:no-admissible-input"] = 1
        return out
    out["classes"][f"{label}:WRONG-{bad[0]}"] = 1
    out["viol"].append({
        "key": f"{key}|{label}", "sig": f"{bad[0]}:{label}:{key}", "group": bad[0],
        "msg": f"{label} accepted loop {which} of\n{body}\nbut on input {bad[1]} "
               f"{bad[2]}.\n--- generated ---\n{text}",
        "case": {"key": key, "body": body, "which": which, "variant": variant,
                 "collapse": collapse}})
    return out


def run_case(case):
    progs = c08._corpus(_TIER)
    tot = {"evals": 0, "nontrivial": 0, "states": 0, "transitions": 0,
           "validated": 0, "classes": {}, "viol": []}
    for key, body, which in progs[case["start"]:case["stop"]]:
        nest = body.count("do ") > 1 and which == 0
        for variant in variants(_TIER):
            for collapse in ((None, 2) if nest else (None,)):
                res = check_loop(key, body, which, variant, collapse)
                tot["evals"] += 1
                tot["nontrivial"] += res["nontrivial"]
                tot["states"] += max(1, res["schedules"])
                tot["transitions"] += max(1, res["schedules"])
                tot["validated"] += res["schedules"]
                for cls, num in res["classes"].items():
                    tot["classes"][cls] = tot["classes"].get(cls, 0) + num
                tot["viol"] += res["viol"]
    tot["sample"] = {"loop": progs[case["start"]][0], "body": progs[case["start"]][1]}
    return tot


def replay(case):
    return check_loop(case["key"], case["body"], case["which"], case["variant"],
                      case["collapse"])
