"""C21 LFRic kernel calls match the kernel interface for all metadata.

Bounded-exhaustive enumeration of LFRic kernel metadata from a grammar of my
own (mc/c21_meta.py), filtered by PSyclone's own metadata validation.  For
every valid description the REAL PSyclone produces (caller) the PSy layer for
an algorithm with one invoke of the kernel and (callee) the kernel stub; both
texts are read by my own reader (mc/c21_read.py) and compared position by
position; a model of the documented ordering rules (mc/c21_spec.py) gives the
expected role sequence for general-purpose cell-column kernels; gfortran
compiles the PSy layer against the stub as a module procedure
(mc/c21_compile.py).
"""
import atexit
import contextlib
import copy
import io
import os
import re
import shutil
import traceback

from mc import c21_compile, c21_meta, c21_read, c21_spec
from mc.runner import scratch_dir

ID = "C21"
LEVEL = "model_checking"
EXHAUSTIVE = True
CASE_TIMEOUT = 1800
RULE = ("every kernel-metadata description of the families listed in bounds() "
        "(all argument sequences over an alphabet, every single-argument form "
        "with companions, every meta_funcs/gh_shape/gh_evaluator_targets "
        "assignment on base kernels, meta_mesh x meta_reference_element lists, "
        "CMA assembly/apply/matrix-matrix forms, inter-grid/domain/dof forms) is "
        "rendered to a kernel module + an algorithm with one invoke and run "
        "through the real caller (parse -> PSyFactory -> psy.gen) and callee "
        "(gen_kernel_stub.generate); an element is non-trivial when PSyclone "
        "accepts the metadata and both sides produce an argument list, so the "
        "position-by-position comparison is executed; distinct = distinct "
        "metadata description (canonical key)")
ASSUMPTIONS = [
    "algorithm-layer actuals have default precision (field_type, "
    "integer_field_type, operator_type, columnwise_operator_type, r_def/i_def/"
    "l_def scalars): the stub generator cannot know algorithm-layer precision, "
    "so mixed precision is outside the comparison",
    "distributed_memory=False, no transformations (the call is uncoloured)",
    "kind agreement is agreement of the kind NAME (r_def, i_def, ...); kinds of "
    "literals and of constants imported from the infrastructure are not compared",
    "the metadata-expression parser (pyparsing, a pure function of its input "
    "text) is memoised per worker and returns deep copies; one element per work "
    "item is re-run without the memo and must give identical texts",
    "where the documentation does not fix an order (stencil direction vs dofmap, "
    "basis vs diff_basis blocks, nfaces_re_* counts, nfaces/np_xyz of face/edge "
    "quadrature) the spec model accepts every order",
    "a refusal (ParseError / GenerationError / NotImplementedError) by either "
    "side is an allowed outcome and is counted; the stub generator documents "
    "that it does not support inter-grid and domain kernels",
]

BLOCK = 12
COMPILE_BATCH = 4                # units per gfortran run (cost is superlinear)
QUICK_COMPILE_EVERY = 4          # quick: compile every 4th work item

_ROOT = None                      # scratch root (infra + worker dirs)
_INFRA_FLAGS = None
_WORK = None
_FAMS = {}
_MEMO = {}
_ORIG_PARSE = None
_REPO = os.environ.get("VERIF_REPO", "/repo")


# --------------------------------------------------------------------------
# enumeration
# --------------------------------------------------------------------------
def _families(tier):
    if tier not in _FAMS:
        fams = c21_meta.families(tier)
        seen = set()
        out = {}
        for name, metas in fams.items():
            keep = []
            for meta in metas:
                key = c21_meta.meta_key(meta)
                if key not in seen:
                    seen.add(key)
                    keep.append(meta)
            out[name] = keep
        _FAMS[tier] = out
    return _FAMS[tier]


def bounds(tier):
    fams = _families(tier)
    thorough = tier == "thorough"
    return {
        "families": {name: len(metas) for name, metas in fams.items()},
        "metadata_descriptions": sum(len(m) for m in fams.values()),
        "seq": ("all sequences of 1..3 arguments over a 17-entry alphabet and "
                "1..4 over a 7-entry alphabet"
                if thorough else
                "all sequences of 1..2 arguments over a 13-entry alphabet and "
                "1..3 over a 5-entry alphabet"),
        "single": "every scalar/field/field-vector/stencil/operator form (7 "
                  "spaces x 5 accesses x real/integer x vector 1/3 x 6 stencil "
                  "types, operators over 5x5 space pairs x 4 accesses) alone and "
                  "before/after each of "
                  + ("3 companions" if thorough else "1 companion"),
        "funcs": "meta_funcs: every assignment {absent, basis, "
                 + ("diff_basis, both, both reversed" if thorough
                    else "basis+diff_basis") + "} per used space "
                 "(listed in both orders) x gh_shape in {xyoz, face, edge, "
                 "evaluator" + (", the 10 ordered pairs with evaluator or xyoz" if thorough
                                else ", 2 ordered pairs")
                 + "} x gh_evaluator_targets {absent, each space, "
                 + ("all ordered pairs" if thorough else "one pair") + "} on "
                 + ("5" if thorough else "2") + " base kernels",
        "props": "meta_mesh {absent, adjacent_face} x ordered lists of up to "
                 + ("3" if thorough else "2") + " of the 6 reference-element "
                 "properties (x 3 shapes for lists of <= 1)",
        "cma": "assembly / apply / matrix-matrix forms over "
               + ("7" if thorough else "4") + " to/from space pairs, every "
               "argument order for apply",
        "other": "inter-grid, domain, dof kernels; literal stencil extent / "
                 "direction; stencil pairs; deliberately invalid descriptions",
        "block": BLOCK,
        "compiled": ("every work item" if thorough
                     else f"every {QUICK_COMPILE_EVERY}th work item"),
    }


def cases(tier):
    fams = _families(tier)
    number = 0
    for name, metas in fams.items():
        for start in range(0, len(metas), BLOCK):
            compiled = tier == "thorough" or number % QUICK_COMPILE_EVERY == 0
            yield {"key": f"{name}:{start:05d}", "tier": tier, "fam": name,
                   "start": start, "stop": min(len(metas), start + BLOCK),
                   "compile": compiled}
            number += 1


# --------------------------------------------------------------------------
# set-up
# --------------------------------------------------------------------------
def _cleanup_root(pid, root):
    if os.getpid() == pid:
        shutil.rmtree(root, ignore_errors=True)


def _ensure_root():
    global _ROOT
    if _ROOT is None:
        _ROOT = scratch_dir("c21")
        atexit.register(_cleanup_root, os.getpid(), _ROOT)
    return _ROOT


def _ensure_infra():
    global _INFRA_FLAGS
    if _INFRA_FLAGS is None:
        root = _ensure_root()
        _INFRA_FLAGS = c21_compile.build_infrastructure(
            _REPO, os.path.join(root, "infra"), jobs=4)
    return _INFRA_FLAGS


def prepare(_tier):
    _ensure_infra()


def init_worker(_tier):
    global _WORK, _ORIG_PARSE
    root = _ensure_root()
    _WORK = os.path.join(root, f"w{os.getpid()}")
    os.makedirs(_WORK, exist_ok=True)
    os.chdir(_WORK)
    import pyparsing
    import psyclone.expression as expr
    # performance only: psyclone.expression enables packrat parsing with
    # pyparsing's default 128-entry cache, which thrashes on meta_args arrays
    pyparsing.ParserElement.enable_packrat(cache_size_limit=None, force=True)
    if _ORIG_PARSE is None:
        _ORIG_PARSE = expr.FORT_EXPRESSION.parseString
        expr.FORT_EXPRESSION.parseString = _memo_parse
    import fparser
    fparser.logging.disable(fparser.logging.CRITICAL)


def finish(_tier, _totals):
    if _ROOT is not None:
        shutil.rmtree(_ROOT, ignore_errors=True)
    return {}


_MEMO_ON = True


def _memo_parse(text, *args, **kwargs):
    if not _MEMO_ON or args or kwargs:
        return _ORIG_PARSE(text, *args, **kwargs)
    if text not in _MEMO:
        _MEMO[text] = _ORIG_PARSE(text)
    return copy.deepcopy(_MEMO[text])


# --------------------------------------------------------------------------
# running PSyclone
# --------------------------------------------------------------------------
def _reset_psyclone():
    from psyclone.configuration import Config
    Config._instance = None          # pylint: disable=protected-access
    Config.get().api = "lfric"
    import fparser.one.parsefortran
    fparser.one.parsefortran.FortranParser.cache.clear()


_SLUGS = [
    (r"Intergrid kernels can only be setup inside an InvokeSchedule",
     "intergrid-unsupported-by-stub"),
    (r"kernel-stub generator supports kernels that operate on",
     "operates-on-unsupported-by-stub"),
    (r"inter-?grid", "intergrid-rule"),
    (r"must have at least one argument that is updated", "no-written-argument"),
    (r"stencil access must be read-only", "stencil-on-written-field"),
    (r"fixed stencil extents are not currently", "fixed-stencil-extent"),
    (r"operates on DoFs", "dof-kernel-rule"),
    (r"operates? on the domain", "domain-rule"),
    (r"allowed accesses for operators", "operator-access-not-legal"),
    (r"allowed accesses for fields on", "access-not-legal-for-space"),
    (r"specifies one or more 'gh_shapes'.*does not need", "shape-without-funcs"),
    (r"must also supply the shape", "funcs-without-shape"),
    (r"function spaces specified in 'meta_funcs' must exist",
     "func-space-not-an-argument"),
    (r"specifies 'gh_evaluator_targets'.*does not need",
     "targets-without-evaluator"),
    (r"evaluator is required on .* but does not have an argument",
     "target-space-not-an-argument"),
    (r"LMA operator argument must only have field arguments with 'gh_real'",
     "integer-field-with-operator"),
    (r"Unsupported space for (differential )?basis function",
     "basis-on-unsupported-space"),
    (r"columnwise|CMA", "cma-rule"),
    (r"reference.element|mesh_data_type|meta_mesh", "property-rule"),
]


def _slug(exc):
    text = str(exc).replace("\n", " ")
    for pattern, slug in _SLUGS:
        if re.search(pattern, text, re.I):
            return slug
    words = re.sub(r"'[^']*'|\d+", "", text)
    words = re.sub(r"[^A-Za-z ]+", " ", words).split()
    return "-".join(words[:7]).lower() or type(exc).__name__


REFUSALS = ("ParseError", "GenerationError", "NotImplementedError",
            "FieldNotFoundError")


def _outcome(stage, exc):
    name = type(exc).__name__
    if name in REFUSALS:
        return f"refused:{stage}:{_slug(exc)}"
    return f"crash:{stage}:{name}"


def run_psyclone(meta, name, workdir):
    """-> dict(status, psy, stub, detail).  status: 'both' when both texts
    were produced, otherwise the outcome class."""
    from psyclone.parse.algorithm import parse
    from psyclone.psyGen import PSyFactory
    from psyclone.gen_kernel_stub import generate
    from psyclone.domain.lfric import LFRicKernMetadata
    import fparser.api

    kfile = os.path.join(workdir, f"{name}_mod.f90")
    afile = os.path.join(workdir, f"{name}_alg.f90")
    with open(kfile, "w", encoding="utf-8") as fout:
        fout.write(c21_meta.kernel_text(meta, name))
    with open(afile, "w", encoding="utf-8") as fout:
        fout.write(c21_meta.algorithm_text(meta, name, f"{name}_alg"))
    out = {"status": None, "psy": None, "stub": None, "detail": "",
           "caller": None, "callee": None}
    sink = io.StringIO()
    try:
        with contextlib.redirect_stdout(sink), contextlib.redirect_stderr(sink):
            # 1. PSyclone's own validation of the metadata
            _reset_psyclone()
            try:
                ast = fparser.api.parse(kfile, ignore_comments=False)
                LFRicKernMetadata(ast, name=f"{name}_type")
            except Exception as exc:      # pylint: disable=broad-except
                name_exc = type(exc).__name__
                if name_exc == "ParseError":
                    out["status"] = f"invalid-metadata:{_slug(exc)}"
                elif name_exc == "NotImplementedError":
                    out["status"] = f"refused:metadata:{_slug(exc)}"
                else:
                    out["status"] = f"crash:metadata:{name_exc}"
                    out["detail"] = traceback.format_exc(limit=4)
                return out
            # 2. caller
            _reset_psyclone()
            try:
                _, info = parse(afile, api="lfric")
                psy = PSyFactory("lfric", distributed_memory=False).create(info)
                out["psy"] = str(psy.gen)
                out["caller"] = "ok"
            except Exception as exc:      # pylint: disable=broad-except
                out["caller"] = _outcome("caller", exc)
                out["detail"] += f"caller: {type(exc).__name__}: {str(exc)[:300]}\n"
            # 3. callee
            _reset_psyclone()
            try:
                out["stub"] = str(generate(kfile, api="lfric"))
                out["callee"] = "ok"
            except Exception as exc:      # pylint: disable=broad-except
                out["callee"] = _outcome("stub", exc)
                out["detail"] += f"stub: {type(exc).__name__}: {str(exc)[:300]}\n"
    finally:
        for path in (kfile, afile):
            if os.path.exists(path):
                os.remove(path)
    if out["caller"] == "ok" and out["callee"] == "ok":
        out["status"] = "both"
    elif out["caller"] != "ok" and out["callee"] != "ok":
        out["status"] = out["caller"] + "+" + out["callee"].split(":", 1)[1]
    elif out["caller"] != "ok":
        out["status"] = out["caller"]
    else:
        out["status"] = out["callee"]
    return out


# --------------------------------------------------------------------------
# oracle 1: positional comparison of the two texts
# --------------------------------------------------------------------------
def _sig_role(role):
    """Role without the quadrature shape (one signature per mechanism)."""
    return re.sub(r"-qr-(xyoz|face|edge)$", "-qr", role)


def _show(desc):
    if desc.get("type") is None:
        return "undeclared"
    kind = desc.get("kind")
    return f"{desc['type']}({kind}) rank {desc.get('rank')}"


def compare_pair(dummies, actuals):
    """First disagreement between stub dummies and call actuals, or None.
    Returns (sig, msg)."""
    droles = [c21_read.role_of_dummy(d["name"]) for d in dummies]
    aroles = [c21_read.role_of_actual(a["text"]) for a in actuals]
    if len(dummies) != len(actuals):
        pos = 0
        while pos < min(len(dummies), len(actuals)) and \
                _same_role(droles[pos], aroles[pos]):
            pos += 1
        srole = _sig_role(droles[pos][0]) if pos < len(dummies) else "<end>"
        crole = _sig_role(aroles[pos][0]) if pos < len(actuals) else "<end>"
        return (f"count:stub={srole}~call={crole}",
                f"the call passes {len(actuals)} arguments, the stub has "
                f"{len(dummies)} dummies; they first differ at position "
                f"{pos + 1}: stub has "
                f"{dummies[pos]['name'] if pos < len(dummies) else 'nothing'}, "
                f"call passes "
                f"{actuals[pos]['text'] if pos < len(actuals) else 'nothing'}")
    for pos, (dummy, actual) in enumerate(zip(dummies, actuals)):
        problems = []
        if dummy["type"] is None:
            problems.append("undeclared-dummy")
        if actual["form"] == "undeclared":
            problems.append("undeclared-actual")
        if actual["form"] == "bad-subscripts":
            problems.append("subscripts")
        if not _same_role(droles[pos], aroles[pos]):
            problems.append("role")
        if dummy["type"] is not None and actual["type"] is not None:
            if dummy["type"] != actual["type"]:
                problems.append("type")
            elif dummy["kind"] != actual["kind"] and \
                    actual["form"] not in ("literal", "constant"):
                problems.append("kind")
            if actual["rank"] is not None and dummy["rank"] != actual["rank"]:
                problems.append("rank")
            if dummy["intent"] in ("out", "inout") and not actual["definable"]:
                problems.append("intent")
        if problems:
            srole = _sig_role(droles[pos][0])
            crole = _sig_role(aroles[pos][0])
            roles = srole if srole == crole else f"{srole}~{crole}"
            return ("+".join(problems) + ":" + roles,
                    f"position {pos + 1}: stub dummy {dummy['name']} is "
                    f"{_show(dummy)} intent({dummy['intent']}), the call passes "
                    f"{actual['text']} which is {_show(actual)}"
                    f"{'' if actual['definable'] else ' (not definable)'}; "
                    f"roles stub={droles[pos]} call={aroles[pos]}")
    return None


def _same_role(drole, arole):
    if drole[0] != arole[0]:
        return False
    return drole[1] == arole[1] or "?" in (drole[1], arole[1])


# --------------------------------------------------------------------------
# oracle 3: the documented role sequence
# --------------------------------------------------------------------------
def compare_spec(meta, dummies, actuals):
    """-> (list of (sig, msg), applicable flag)."""
    items = c21_spec.expected(meta)
    if items is None:
        return [], False
    viol = []
    droles = [c21_read.role_of_dummy(d["name"]) for d in dummies]
    aroles = []
    for actual in actuals:
        role = c21_read.role_of_actual(actual["text"])
        aroles.append(role)
    # a literal direction has no position in its name: take the expected one
    for side, roles, descs in (("stub", droles, dummies),
                               ("call", aroles, actuals)):
        observed = list(roles)
        bad, chosen = c21_spec.match(items, _fill_unknown(items, observed))
        if bad is not None:
            pos, exp, obs = bad
            erole = _sig_role(exp["role"]) if exp else "<end>"
            orole = _sig_role(obs[0]) if obs else "<end>"
            what = "order" if erole != orole else "which"
            viol.append((f"spec:{side}:{what}:expected={erole}:got={orole}",
                         f"documented rules give "
                         f"{(exp['role'], exp['detail']) if exp else 'no further argument'} "
                         f"at position {pos + 1} but the {side} has "
                         f"{obs if obs else 'no further argument'} "
                         f"({_text_of(descs, pos)})"))
            continue
        for pos, (exp, desc) in enumerate(zip(chosen, descs)):
            probs = []
            if desc.get("type") is None:
                continue
            if exp["type"] is not None and exp["type"] != desc["type"]:
                probs.append("type")
            elif exp["kind"] is not None and desc.get("kind") != exp["kind"] \
                    and desc.get("form") not in ("literal", "constant"):
                probs.append("kind")
            if exp["rank"] is not None and desc.get("rank") is not None and \
                    exp["rank"] != desc["rank"]:
                probs.append("rank")
            if side == "stub" and exp["intent"] is not None and \
                    desc.get("intent") != exp["intent"]:
                probs.append("intent")
            if probs:
                viol.append((f"spec:{side}:{'+'.join(probs)}:{_sig_role(exp['role'])}",
                             f"position {pos + 1} ({exp['role']} {exp['detail']}): "
                             f"documented {exp['type']}({exp['kind']}) rank "
                             f"{exp['rank']} intent({exp['intent']}), the {side} "
                             f"has {_text_of(descs, pos)}: {_show(desc)}"
                             + (f" intent({desc.get('intent')})"
                                if side == "stub" else "")))
                break
    return viol, True


def _fill_unknown(items, observed):
    """A literal `x_direction` carries no argument position ('?'): give it the
    position the documentation expects there, if it is a direction."""
    if not any(det == "?" for _, det in observed):
        return observed
    flat = [e for _tag, blocks in items for block in blocks for e in block]
    want = [e["detail"] for e in flat if e["role"] == "stencil-direction"]
    out = []
    idx = 0
    for role, det in observed:
        if role == "stencil-direction":
            if det == "?" and idx < len(want):
                det = want[idx]
            idx += 1
        out.append((role, det))
    return out


def _text_of(descs, pos):
    if pos >= len(descs):
        return "-"
    return descs[pos].get("name") or descs[pos].get("text")


# --------------------------------------------------------------------------
# one element
# --------------------------------------------------------------------------
def examine(meta, name):
    """Runs PSyclone on one description; returns dict(cls, viol, unit)."""
    key = c21_meta.meta_key(meta)
    res = run_psyclone(meta, name, _WORK)
    out = {"key": key, "cls": res["status"], "viol": [], "unit": None,
           "positions": 0, "detail": res["detail"], "spec": False,
           "psy": res["psy"], "stub": res["stub"]}
    if res["status"] != "both":
        return out
    actuals, _decls = c21_read.read_caller(res["psy"], name)
    dummies, _extra = c21_read.read_stub(res["stub"], name)
    out["positions"] = max(len(actuals), len(dummies))
    out["dummies"] = dummies
    out["actuals"] = actuals
    pair = compare_pair(dummies, actuals)
    if pair:
        out["viol"].append(pair)
    spec_viol, applicable = compare_spec(meta, dummies, actuals)
    out["spec"] = applicable
    out["viol"] += spec_viol
    out["unit"] = (key, res["stub"], res["psy"])
    out["cls"] = "compared:spec" if applicable else "compared:no-spec"
    out["call_text"] = ", ".join(a["text"] for a in actuals)
    out["stub_text"] = ", ".join(d["name"] for d in dummies)
    return out


def _compile_block(results, tag):
    """gfortran on all units of a block.  Units with errors are compiled
    again on their own and taken out; the rest is compiled again as a batch
    (a fatal error stops gfortran, so later units may not have been looked
    at) until a batch is clean.  Returns {key: [(part, message)]}, count."""
    units = [r["unit"] for r in results if r["unit"]]
    if not units:
        return {}, 0
    flags = _ensure_infra()
    final = {}
    for first in range(0, len(units), COMPILE_BATCH):
        _compile_group(units[first:first + COMPILE_BATCH], flags,
                       f"{tag}_{first}", final)
    return final, len(units)


def _compile_group(units, flags, tag, final):
    pending = list(units)
    rounds = 0
    while pending:
        errors, _raw = c21_compile.compile_units(pending, flags, _WORK,
                                                 f"{tag}_r{rounds}")
        if not errors:
            break
        if len(pending) == 1:
            final[pending[0][0]] = errors.get(pending[0][0], []) + \
                errors.get("?", [])
            break
        bad = [u for u in pending if u[0] in errors]
        if not bad:
            bad = list(pending)        # errors could not be located
        for idx, unit in enumerate(bad):
            errs, _raw = c21_compile.compile_units(
                [unit], flags, _WORK, f"{tag}_r{rounds}_{idx}")
            msgs = errs.get(unit[0], []) + errs.get("?", [])
            if msgs:
                final[unit[0]] = msgs
        pending = [u for u in pending if u not in bad]
        rounds += 1


def _compile_verdict(result, msgs):
    """-> (violations, other-error slugs) for one unit's gfortran errors."""
    viol = []
    other = []
    dummy_names = {d["name"]: d for d in result.get("dummies", [])}
    seen = set()
    how = "gfortran, PSy layer compiled against the stub as a module procedure: "
    stub_broken = False
    for part, text in msgs:
        if part == "stub":
            # the stub only uses constants_mod: any error in it is its own
            if not stub_broken:
                stub_broken = True
                nomatch = re.match(r"^Symbol '(\w+)' at \(1\) has no IMPLICIT "
                                   r"type", text)
                if nomatch and nomatch.group(1).lower() in dummy_names:
                    role = _sig_role(c21_read.role_of_dummy(
                        nomatch.group(1).lower())[0])
                    sig = f"compile:undeclared-dummy:{role}"
                else:
                    slug = re.sub(r"'[^']*'|\(\d+\)|\d+", "", text)
                    slug = "-".join(re.sub(r"[^A-Za-z ]", " ", slug).split()[:6])
                    sig = f"compile:stub-invalid:{slug.lower()}"
                viol.append((sig, "gfortran, the generated stub on its own: "
                             + text))
            continue
        verdict = c21_compile.classify(text)
        if verdict is None:
            nomatch = re.match(r"^Symbol '(\w+)' at \(1\) has no IMPLICIT type",
                               text)
            if nomatch and any(a.get("base") == nomatch.group(1).lower()
                               for a in result.get("actuals", [])):
                role = _sig_role(c21_read.role_of_actual(nomatch.group(1))[0])
                sig = f"compile:undeclared-actual:{role}"
                if sig not in seen:
                    seen.add(sig)
                    viol.append((sig, how + text))
                continue
            if stub_broken and text.startswith("Cannot open module file"):
                continue
            other.append(re.sub(r"'[^']*'", "'_'", text)[:100])
            continue
        kind, dname = verdict
        role = "?"
        if dname:
            role = _sig_role(c21_read.role_of_dummy(dname.lower())[0])
        sig = f"compile:{kind}:{role}"
        if sig in seen:
            continue
        seen.add(sig)
        viol.append((sig, how + text))
    return viol, other


def _payload(meta, need_compile):
    return {"meta": meta, "compile": bool(need_compile)}


def _check_memo(meta, name, first):
    """Re-run one element with the memo switched off: identical texts."""
    global _MEMO_ON
    _MEMO_ON = False
    try:
        again = run_psyclone(meta, name, _WORK)
    finally:
        _MEMO_ON = True
    if again["psy"] != first["psy"] or again["stub"] != first["stub"] or \
            (again["status"] != "both") != (first["unit"] is None):
        raise RuntimeError("memoised metadata parser changed PSyclone's output "
                           f"for {c21_meta.meta_key(meta)}")


def run_case(case):
    metas = _families(case["tier"])[case["fam"]][case["start"]:case["stop"]]
    results = []
    for idx, meta in enumerate(metas):
        name = f"k{idx}"
        res = examine(meta, name)
        res["meta"] = meta
        results.append(res)
    if metas:
        _check_memo(metas[0], "k0", results[0])
    compiled = 0
    comp_errors = {}
    if case.get("compile"):
        comp_errors, compiled = _compile_block(
            results, re.sub(r"\W", "_", case["key"]))
    classes = {}
    viol = []
    extra = {"refusal_details": {}, "compile_other_errors": {},
             "compiled_units": compiled, "spec_compared": 0}
    nontrivial = 0
    positions = 0
    sample = None
    for res in results:
        cls = res["cls"]
        classes[cls] = classes.get(cls, 0) + 1
        if res["unit"]:
            nontrivial += 1
            positions += res["positions"]
            if res["spec"]:
                extra["spec_compared"] += 1
        elif cls.startswith("crash"):
            slot = extra["refusal_details"]
            slot[f"{cls} e.g. {res['key']}"] = 1
        found = list(res["viol"])
        need_compile = False
        if res["key"] in comp_errors:
            cviol, other = _compile_verdict(res, comp_errors[res["key"]])
            if cviol and not found:
                need_compile = True
            found += cviol
            for slug in other:
                extra["compile_other_errors"][slug] = \
                    extra["compile_other_errors"].get(slug, 0) + 1
            if other and not cviol:
                classes["compile:other-error"] = \
                    classes.get("compile:other-error", 0) + 1
        for sig, msg in found:
            viol.append({
                "key": f"{res['key']}#{sig}",
                "sig": sig,
                "msg": f"metadata [{res['key']}]: {msg}. call: ({res.get('call_text')}) "
                       f"stub: ({res.get('stub_text')})",
                "case": _payload(res["meta"],
                                 need_compile or sig.startswith("compile"))})
        if found:
            classes["violating"] = classes.get("violating", 0) + 1
        if sample is None and res["unit"]:
            sample = {"metadata": res["key"], "call": res.get("call_text"),
                      "stub": res.get("stub_text")}
    out = {"evals": len(results), "nontrivial": nontrivial,
           "states": len(results), "transitions": positions,
           "validated": compiled, "classes": classes, "viol": viol,
           "extra": extra}
    if sample:
        out["sample"] = sample
    return out


def replay(case):
    meta = case["meta"]
    res = examine(meta, "k0")
    found = list(res["viol"])
    out = {"metadata": res["key"], "class": res["cls"],
           "call": res.get("call_text"), "stub": res.get("stub_text"),
           "detail": res["detail"], "viol": []}
    if case.get("compile") and res["unit"]:
        errors, _ = _compile_block([res], "replay")
        if res["key"] in errors:
            cviol, other = _compile_verdict(res, errors[res["key"]])
            found += cviol
            out["gfortran_other"] = other
    for sig, msg in found:
        out["viol"].append({"sig": sig, "msg": msg})
    return out
