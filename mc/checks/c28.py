"""C28 PSyData regions are entered and left in matched pairs.

Small control-flow programs (assignments, loops, EXIT / CYCLE / RETURN / GOTO
guarded by input-driven conditions, branches, nested loops) x every
consecutive statement range of every statement sequence as the region x the
four PSyData transformations x region naming x two-region combinations are
instrumented by the real PSyclone code; every accepted result is written by
FortranWriter, compiled with gfortran against a checking PSyData stub library
(mc/c28_stub) and executed on one input per distinct control-flow path.  The
printed ENTER/EXIT trace of every run must be well nested with matching names
and empty at the end, and region names must be unique unless the same
explicit name was requested.
"""
import atexit
import os

from mc import c28_progs as P
from mc import c28_run as R

ID = "C28"
LEVEL = "model_checking"
EXHAUSTIVE = True
CASE_TIMEOUT = 3000
RULE = ("programs = every statement sequence (<=3 top-level statements plus the "
        "label, bodies <=2, loop depth <=2, IF nesting <=1 around guarded transfers) over {assignment, DO loop, IF (c) EXIT / CYCLE / RETURN / "
        "GOTO 10, 10 CONTINUE before (backward) or after (forward) the GOTO in any "
        "enclosing sequence, IF-THEN[-ELSE], DO WHILE (k(j)<n) and bare DO ... IF "
        "(k(j)>n) EXIT ... END DO loops (PSyIR WhileLoops, outside other loops, "
        "with guarded EXIT/CYCLE/RETURN and branches inside)} up to the size "
        "bounds in bounds(); "
        "elements = program x every consecutive statement range of every sequence "
        "(routine body, loop body, if/else body) x {ProfileTrans, ExtractTrans, "
        "NanTestTrans, ReadOnlyVerifyTrans} x {default name, explicit region_name "
        "(quick: explicit only for ProfileTrans)}, "
        "plus ordered pairs of ranges (nested both ways, adjacent, disjoint, "
        "overlapping) x transformation pairs x naming {default/default, same "
        "explicit name twice, two explicit names, default+explicit}; inputs = one "
        "per distinct control-flow path of the program (lazy splitting on every "
        "dynamic evaluation c(q,i1,i2) of every condition, trip count n in 0..3, "
        "0..2 when n=3 has more than 64 paths); an element is non-trivial when "
        "PSyclone accepted it and at least one run entered a region; distinct = "
        "distinct (program, ranges, transformations, names) key")
ASSUMPTIONS = [
    "gfortran -O0 executing the FortranWriter output against the stub "
    "library is the reference for every accepted element; the E1 interpreter runs "
    "the transformed (un-lowered) PSyIR of every GOTO-free element on the same "
    "inputs and must print the same trace and final counters (disagreement = "
    "harness error), and the generator's own mini-interpreter must predict the "
    "final counters a(:) of every run",
    "refusals (TransformationError) and documented generation errors are allowed "
    "outcomes and only counted",
    "region names: two PreStart call sites may carry the same (module, region) only "
    "if that very name was passed explicitly for both regions; explicit names never "
    "look like default names",
    "weaker reading: a region whose hooks are never called in a run is not judged; "
    "only the order/matching of the calls that happen is",
]

# size bounds: (max program size, max size of programs with a GOTO, max size
# of programs with a WHILE / bare DO loop)
TIERS = {
    "quick": {"single": (3, 3, 2), "pair": (2, 2, 0),
              "pair_extra": ["AAA", "W(KI(X))"], "batch": 100},
    "thorough": {"single": (4, 4, 3), "pair": (3, 3, 2), "pair_extra": [],
                 "batch": 100},
}
N3_PATH_CAP = 64
# single regions: naming variants per transformation (None = default name)
SINGLE_NAMES = {
    "quick": {"ProfileTrans": [None, "A"], "ExtractTrans": [None],
              "NanTestTrans": [None], "ReadOnlyVerifyTrans": [None]},
    "thorough": {"ProfileTrans": [None, "A"], "ExtractTrans": [None, "A"],
                 "NanTestTrans": [None, "A"], "ReadOnlyVerifyTrans": [None, "A"]},
}
# (transformation of region 1, of region 2, [name configurations])
PAIR_CONFIGS = {
    "quick": [("ProfileTrans", "ProfileTrans", ["dd", "AA", "AB", "dA"]),
              ("ProfileTrans", "NanTestTrans", ["dd"]),
              ("ReadOnlyVerifyTrans", "ExtractTrans", ["dd"])],
    "thorough": [("ProfileTrans", "ProfileTrans", ["dd", "AA", "AB", "dA"]),
                 ("ProfileTrans", "NanTestTrans", ["dd", "AA"]),
                 ("ReadOnlyVerifyTrans", "ExtractTrans", ["dd", "AA"]),
                 ("ExtractTrans", "ProfileTrans", ["dd", "AA"]),
                 ("NanTestTrans", "ReadOnlyVerifyTrans", ["dd"])],
}
NAMECFG = {"d": None, "A": "A", "B": "B"}
GROUP_ELEMENTS = 96

_PROGS = {}
_ROOT = None          # scratch root (stub library + per-case work dirs)
_TIER = "quick"


def _programs(tier, mode):
    key = (tier, mode)
    if key not in _PROGS:
        progs = P.programs(*TIERS[tier][mode])
        if mode == "pair" and TIERS[tier]["pair_extra"]:
            have = {k for k, _ in progs}
            single = dict(_programs(tier, "single"))
            progs = progs + [(k, single[k]) for k in TIERS[tier]["pair_extra"]
                             if k not in have]
        _PROGS[key] = progs
    return _PROGS[key]


def bounds(tier):
    sing = _programs(tier, "single")
    pair = _programs(tier, "pair")
    return {
        "single_region": {"max_size": TIERS[tier]["single"][0],
                          "max_size_goto": TIERS[tier]["single"][1],
                          "max_size_while": TIERS[tier]["single"][2],
                          "programs": len(sing),
                          "ranges": sum(len(P.ranges(p)) for _, p in sing),
                          "transformations_and_names": {
                              t: ["default" if n is None else list(R.EXPLICIT[n])
                                  for n in names]
                              for t, names in SINGLE_NAMES[tier].items()}},
        "two_regions": {"max_size": TIERS[tier]["pair"][0],
                        "max_size_goto": TIERS[tier]["pair"][1],
                        "max_size_while": TIERS[tier]["pair"][2],
                        "extra_programs": TIERS[tier]["pair_extra"],
                        "programs": len(pair),
                        "ordered_range_pairs": sum(len(P.ranges(p)) ** 2
                                                   for _, p in pair),
                        "configs": [list(c) for c in PAIR_CONFIGS[tier]]},
        "inputs": f"one per control-flow path; n in 0..3 (0..2 if more than "
                  f"{N3_PATH_CAP} paths at n=3); c({P.QMAX},{P.NMAX},{P.NMAX})",
        "routines_per_compile": TIERS[tier]["batch"],
    }


# ---------------------------------------------------------------------------
# scratch
# ---------------------------------------------------------------------------
def _root():
    global _ROOT
    if _ROOT is None:
        from mc import runner
        _ROOT = runner.scratch_dir("c28")
        atexit.register(_cleanup_root, os.getpid(), _ROOT)
        R.build_stub(os.path.join(_ROOT, "lib"))
    return _ROOT


def _cleanup_root(pid, path):
    if os.getpid() == pid:
        R.cleanup(path)


def prepare(_tier):
    _root()


def finish(_tier, _totals):
    global _ROOT
    if _ROOT is not None:
        R.cleanup(_ROOT)
        _ROOT = None
    return {}


# ---------------------------------------------------------------------------
# enumeration
# ---------------------------------------------------------------------------
def cases(tier):
    progs = _programs(tier, "single")
    group, count = [], 0
    for idx, (_key, prog) in enumerate(progs):
        group.append(idx)
        count += len(P.ranges(prog)) * sum(len(v) for v in
                                           SINGLE_NAMES[tier].values())
        if count >= GROUP_ELEMENTS:
            yield {"key": f"s{group[0]:05d}-{group[-1]:05d}", "mode": "single",
                   "progs": group}
            group, count = [], 0
    if group:
        yield {"key": f"s{group[0]:05d}-{group[-1]:05d}", "mode": "single",
               "progs": group}
    ncfg = sum(len(names) for _, _, names in PAIR_CONFIGS[tier])
    for idx, (_key, prog) in enumerate(_programs(tier, "pair")):
        nrng = len(P.ranges(prog))
        chunk = max(1, -(-GROUP_ELEMENTS // (nrng * ncfg)))
        for first in range(0, nrng, chunk):
            yield {"key": f"p{idx:05d}.{first:02d}", "mode": "pair", "prog": idx,
                   "first": first, "stop": min(nrng, first + chunk)}


def elements(case, tier):
    """The elements of one work item: (program key, program, regions)."""
    if case["mode"] == "single":
        progs = _programs(tier, "single")
        for idx in case["progs"]:
            pkey, prog = progs[idx]
            for rng in P.ranges(prog):
                for tname in R.TRANS:
                    for name in SINGLE_NAMES[tier][tname]:
                        yield pkey, prog, [{"t": tname, "r": rng, "nm": name}]
    else:
        pkey, prog = _programs(tier, "pair")[case["prog"]]
        rngs = P.ranges(prog)
        for first in rngs[case["first"]:case["stop"]]:
            for second in rngs:
                for tn1, tn2, namecfgs in PAIR_CONFIGS[tier]:
                    for cfg in namecfgs:
                        yield pkey, prog, [
                            {"t": tn1, "r": first, "nm": NAMECFG[cfg[0]]},
                            {"t": tn2, "r": second, "nm": NAMECFG[cfg[1]]}]


def element_key(pkey, regions):
    parts = []
    for reg in regions:
        part = f"{reg['t']}@{P.range_key(reg['r'])}"
        if reg.get("nm"):
            part += f":{reg['nm']}"
        parts.append(part)
    return f"{pkey}|" + "+".join(parts)


def nvals(prog):
    if len(P.paths(prog, (3,))) <= N3_PATH_CAP:
        return (0, 1, 2, 3)
    return (0, 1, 2)


# ---------------------------------------------------------------------------
# worker
# ---------------------------------------------------------------------------
def init_worker(tier):
    global _TIER
    _TIER = tier
    from psyclone.configuration import Config
    Config.get()
    _memoise_parser_factory()
    os.chdir(_root())


def _memoise_parser_factory():
    """PSyDataNode lowering calls fparser's ParserFactory().create(std="f2008")
    for every generated CALL (6 ms each, up to 14 per region).  create() only
    (re)builds fparser's class tables for the requested standard, so calling
    it again with the standard that is already active is a no-op apart from
    the time: skip exactly those repeated calls."""
    from fparser.two.parser import ParserFactory
    if getattr(ParserFactory.create, "_c28_memo", False):
        return
    orig = ParserFactory.create
    state = {}

    def create(self, std=None):
        if "std" in state and state["std"] == std:
            return state["result"]
        result = orig(self, std)
        state["std"], state["result"] = std, result
        return result

    create._c28_memo = True
    ParserFactory.create = create


def _refusal_class(text):
    if "cannot be enclosed" in text:
        what = text.split("Nodes of type '")[1].split("'")[0] \
            if "Nodes of type '" in text else "node"
        return f"refused:excluded-{what}"
    if "not children of the same parent" in text:
        return "refused:different-parents"
    if "not consecutive" in text:
        return "refused:not-consecutive"
    if " region because " in text or " region around " in text:
        return "refused:jump-across-region"     # (only with fixes/C28-psydata-*)
    return "refused:other"


def _signature(prog, regions, regs, failure, blame, inp):
    """Mechanism-level signature: transformation of the region that is not
    entered/left properly, the kind of the first control transfer that, on the
    failing input, bypasses the end (or start) of that region's statement
    range -- determined by the generator's reference interpreter, used for the
    signature only, never for the verdict -- and the failure class.
    `blame` is the (module, region) name the trace judge holds responsible;
    PreStart call sites (`regs`, textual order) are matched to the requested
    regions through the textual order of their ranges."""
    order = P.textual_order([r["r"] for r in regions])
    blamed = [regions[order[pos]] for pos, name in enumerate(regs)
              if tuple(name) == tuple(blame)]
    others = [r for r in regions if not any(r is b for b in blamed)]
    for reg in blamed + others:
        found = P.bypasses(prog, reg["r"], inp["n"], inp["bits"])
        if found:
            return f"{reg['t']}:{found[0]}:{failure}"
    reg = (blamed or regions)[0]
    return f"{reg['t']}:no-bypass:{failure}"


def run_elements(elems, workdir, tier, want_text=False):
    """Runs a list of (pkey, prog, regions) elements; returns the result dict
    of the runner's format."""
    libdir = os.path.join(_root(), "lib")
    classes = {}
    viol = []
    stats = {"runs": 0, "events": 0, "e1": 0, "nontrivial": 0}

    def count(cls, num=1):
        classes[cls] = classes.get(cls, 0) + num

    paths_cache = {}
    sample = None
    batch_size = TIERS[tier]["batch"]
    pending = []
    texts = {}

    def flush():
        if not pending:
            return
        _run_pending(pending, workdir, libdir, paths_cache, count, viol, stats,
                     texts if want_text else None)
        pending.clear()

    for pkey, prog, regions in elems:
        name = f"r{len(pending)}"
        status, info = R.instrument(prog, name, regions)
        ekey = element_key(pkey, regions)
        if status == "refused":
            count(_refusal_class(info))
            if want_text:
                texts[ekey] = info
            continue
        if status == "error":
            count("error:" + info.split(":")[1])
            if want_text:
                texts[ekey] = info
            continue
        if pkey not in paths_cache:
            paths_cache[pkey] = P.paths(prog, nvals(prog))
        pending.append({"key": ekey, "pkey": pkey, "prog": prog,
                        "regions": regions, "name": name, "text": info["text"],
                        "tree": info["tree"], "npsy": info["npsy"]})
        if sample is None:
            sample = {"element": ekey, "source": P.fortran(prog, name),
                      "inputs": len(paths_cache[pkey])}
        if len(pending) >= batch_size:
            flush()
    flush()
    res = {"evals": sum(classes.values()), "nontrivial": stats["nontrivial"],
           "states": stats["runs"], "transitions": stats["events"],
           "validated": stats["e1"], "classes": classes, "viol": viol,
           "extra": {"runs_executed_by_gfortran": stats["runs"],
                     "trace_events": stats["events"]}}
    if sample:
        res["sample"] = sample
    if want_text:
        res["texts"] = texts
    return res


def _compile_all(pending, workdir, libdir, count):
    """Compile the pending routines into executables; a routine that does not
    compile is isolated (counted, never judged)."""
    groups = [list(pending)]
    out = []
    serial = [0]
    while groups:
        grp = groups.pop()
        serial[0] += 1
        for num, elem in enumerate(grp):
            # routine names must match the position in this executable
            elem["rid"] = num
        routs = [(e["name"], e["text"]) for e in grp]
        exe, err = R.compile_batch(workdir, libdir, f"b{serial[0]}", routs)
        if exe is not None:
            out.append((exe, grp))
            continue
        if len(grp) == 1:
            count("not-compilable")
            grp[0]["compile_error"] = err
            out.append((None, grp))
            continue
        bad = [e for e in grp
               if not R.syntax_ok(workdir, libdir, f"s{serial[0]}", e["name"],
                                  e["text"])[0]]
        if not bad:
            raise R.HarnessError("batch does not compile although every routine "
                                 "does:\n" + err[:2000])
        good = [e for e in grp if not any(e is b for b in bad)]
        if good:
            groups.append(good)
        for elem in bad:
            groups.append([elem])
    return out


def _run_pending(pending, workdir, libdir, paths_cache, count, viol, stats, texts):
    for exe, grp in _compile_all(pending, workdir, libdir, count):
        if exe is None:
            if texts is not None:
                texts[grp[0]["key"]] = grp[0]["text"] + "\n" + grp[0]["compile_error"]
            continue
        jobs = []
        for elem in grp:
            for inp in paths_cache[elem["pkey"]]:
                jobs.append((elem["rid"], inp))
        results = R.run_batch(exe, workdir, jobs)
        pos = 0
        for elem in grp:
            inputs = paths_cache[elem["pkey"]]
            mine = results[pos:pos + len(inputs)]
            pos += len(inputs)
            _judge_element(elem, inputs, mine, count, viol, stats)
            if texts is not None:
                texts[elem["key"]] = elem["text"]
        os.remove(exe)


def _judge_element(elem, inputs, results, count, viol, stats):
    prog, regions = elem["prog"], elem["regions"]
    use_e1 = "G" not in P.kinds(prog)
    entered = False
    first_bad = None
    nbad = 0
    for inp, (trace, avals) in zip(inputs, results):
        stats["runs"] += 1
        stats["events"] += len(trace)
        if avals != inp["a"]:
            raise R.HarnessError(
                f"{elem['key']}: gfortran computed a={avals} for n={inp['n']} "
                f"bits={inp['bits']} but the generator's interpreter expected "
                f"{inp['a']}\n{elem['text']}")
        if use_e1:
            tr1, av1 = R.e1_run(elem["tree"], elem["name"], inp,
                                R.static_regions(elem["text"]))
            if tr1 != trace or av1 != avals:
                raise R.HarnessError(
                    f"{elem['key']}: E1 and gfortran disagree for n={inp['n']} "
                    f"bits={inp['bits']}: E1 {R.show_trace(tr1)} a={av1}; "
                    f"gfortran {R.show_trace(trace)} a={avals}\n{elem['text']}")
            stats["e1"] += 1
        if trace:
            entered = True
        verdict = R.judge_trace(trace)
        if verdict is not None:
            nbad += 1
            if first_bad is None:
                first_bad = (inp, trace, verdict)
    regs = R.static_regions(elem["text"])
    if len(regs) != elem["npsy"]:
        raise R.HarnessError(f"{elem['key']}: {elem['npsy']} PSyData nodes but "
                             f"{len(regs)} PreStart call sites")
    if entered:
        stats["nontrivial"] += 1
    payload = {"pkey": elem["pkey"], "prog": elem["prog"], "regions": regions}
    bad_here = False
    if first_bad is not None:
        inp, trace, (failure, blame, why) = first_bad
        sig = _signature(prog, regions, regs, failure, blame, inp)
        viol.append({
            "key": elem["key"], "sig": sig,
            "msg": (f"program {elem['pkey']} with "
                    f"{' then '.join(_describe(r) for r in regions)} was accepted; "
                    f"run with n={inp['n']}, positive condition elements "
                    f"{[list(b) for b in inp['bits']]} prints the trace "
                    f"[{R.show_trace(trace)}]: {why} (expected: well-nested "
                    f"ENTER/EXIT pairs, nothing open at the end); {nbad} of "
                    f"{len(inputs)} inputs fail"),
            "case": payload})
        bad_here = True
    dup = R.judge_names(regs, [R.EXPLICIT[r["nm"]] if r.get("nm") else None
                               for r in regions])
    if dup is not None:
        name, cnt, asked = dup
        cfg = "".join(r.get("nm") or "d" for r in regions)
        viol.append({
            "key": elem["key"] + "#names",
            "sig": f"{'+'.join(r['t'] for r in regions)}:duplicate-name:{cfg}",
            "msg": (f"program {elem['pkey']} with "
                    f"{' then '.join(_describe(r) for r in regions)}: {cnt} PreStart "
                    f"call sites carry the name {name} but it was explicitly "
                    f"requested for {asked} region(s)"),
            "case": payload})
        bad_here = True
    count("accepted:violating" if bad_here else "accepted:ok")


def _describe(reg):
    text = f"{reg['t']} on statements {P.range_key(reg['r'])}"
    if reg.get("nm"):
        text += f" named {R.EXPLICIT[reg['nm']]}"
    return text


def run_case(case):
    workdir = os.path.join(_root(), "w_" + case["key"])
    os.makedirs(workdir, exist_ok=True)
    try:
        return run_elements(elements(case, _TIER), workdir, _TIER)
    finally:
        R.cleanup(workdir)


def replay(case):
    prog = _totuple(case["prog"])
    regions = [{"t": r["t"], "r": _torange(r["r"]), "nm": r.get("nm")}
               for r in case["regions"]]
    workdir = os.path.join(_root(), "replay")
    os.makedirs(workdir, exist_ok=True)
    try:
        res = run_elements([(case["pkey"], prog, regions)], workdir, "thorough",
                           want_text=True)
    finally:
        R.cleanup(workdir)
        finish(None, None)
    res["source"] = P.fortran(prog, "r0")
    return res


def _totuple(obj):
    if isinstance(obj, (list, tuple)):
        return tuple(_totuple(x) for x in obj)
    return obj


def _torange(obj):
    path, start, stop = obj
    return (tuple((p, s) for p, s in path), start, stop)
