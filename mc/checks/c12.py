"""C12 Extraction regions record every input and output they need.

Every consecutive statement region [p..q] of every schedule (routine body,
loop bodies, branches) of every program of mc.gen.c12_progs is handed to the
real ``CallTreeUtils().get_in_out_parameters`` and, when ``ExtractTrans``
accepts it, wrapped in an ExtractNode whose recorded lists are read back from
the lowered PSyData calls.  The E1 interpreter then executes the region on
every enumerated input under the region protocol of mc.c12_oracle and decides

  (a) upward-exposed reads  (by variable) are reported as inputs,
  (b) written variables                   are reported as outputs,
  (c) replaying the region from a store in which only the reported inputs hold
      their real values reproduces every value the region wrote.
"""
import re

from mc.gen import c12_progs as G

ID = "C12"
LEVEL = "model_checking"
EXHAUSTIVE = True
CASE_TIMEOUT = 1800
RULE = ("programs = every sequence of 1..3 statements over the tier's statement "
        "alphabet plus every sequence of 4 over a smaller one (mc.gen.c12_progs); "
        "element = (program, schedule, p, q) for every consecutive statement range of "
        "the routine body and of every loop body / branch; each element is analysed by "
        "the real CallTreeUtils.get_in_out_parameters and ExtractTrans+ExtractNode and "
        "executed by E1 on every input; an element is non-trivial when at least one "
        "admissible input reaches the region; distinct = distinct (program, schedule, "
        "p, q); distinct region texts are reported in bounds()")
ASSUMPTIONS = [
    "E1 (mc/fortsem) is the reference semantics; an input on which the program is "
    "undefined (out of bounds, undefined value steering control) is inadmissible "
    "and skipped",
    "inputs/outputs are compared by variable name (the granularity PSyclone "
    "reports); over-reporting is never judged",
    "a read of a location whose incoming value is undefined (a local that was "
    "never set) is not an input requirement",
    "replay (c) compares only the locations the region wrote on that input: the "
    "unwritten remainder of a partially written output array is not required to "
    "be reproduced (weaker reading of 'reproduces the recorded outputs'); the "
    "number of regions where the whole-variable reading would also fail is "
    "reported as coverage.replay_whole_variable_would_differ",
    "the ExtractNode's lists are read from the ProvideVariable calls it lowers to "
    "(before PreEnd = inputs, after PostStart = outputs); an exception raised by "
    "ExtractTrans or by the lowering is a refusal (counted, not judged)",
]
BLOCK = {"quick": 4, "thorough": 16}

_TIER = "quick"
_PROGS = {}


def _programs(tier):
    if tier not in _PROGS:
        _PROGS[tier] = list(G.programs(tier))
    return _PROGS[tier]


def bounds(tier):
    progs = _programs(tier)
    texts = set()
    for keys in progs:
        for pidx in range(len(keys)):
            for qidx in range(pidx, len(keys)):
                texts.add(keys[pidx:qidx + 1])
    return {"alphabet_by_program_length": {str(k): list(v) for k, v in
                                           G.ALPHABETS[tier].items()},
            "programs": len(progs), "max_statements": 4,
            "distinct_top_level_region_texts": len(texts),
            "inputs": [G.input_key(i) for i in G.INPUTS], "array_extent": "0:4"}


def cases(tier):
    progs = _programs(tier)
    size = BLOCK[tier]
    for start in range(0, len(progs), size):
        yield {"key": f"blk{start:06d}", "start": start,
               "stop": min(len(progs), start + size)}


def init_worker(tier):
    global _TIER
    _TIER = tier
    _programs(tier)
    import os
    from mc import runner
    # PSyclone must never write into /verif: the workers run in a scratch
    # directory that is removed straight away (a worker killed by the pool
    # cannot clean up later); the transformations used here write no files,
    # and if one ever tried to it would fail loudly in the unlinked directory.
    scratch = runner.scratch_dir("c12")
    os.chdir(scratch)
    os.rmdir(scratch)
    _memoise_parser_factory()


def _memoise_parser_factory():
    """PSyDataNode.lower_to_language_level calls fparser's
    ParserFactory().create(std="f2008") once per generated PSyData call
    (7 ms each, ~11 per region = 80% of the cost of an element).  create()
    rebuilds the same class tables every time it is given the same standard,
    so repeating it is skipped.  fparser is not the code under test."""
    from fparser.two import parser as fparser_parser
    from fparser.two.symbol_table import SYMBOL_TABLES
    if getattr(fparser_parser.ParserFactory.create, "_c12_memo", False):
        return
    real = fparser_parser.ParserFactory.create
    state = {"std": None, "prog": None}

    def create(self, std=None):
        key = std or "f2003"
        if state["std"] == key:
            SYMBOL_TABLES.clear()
            return state["prog"]
        prog = real(self, std)
        state["std"], state["prog"] = key, prog
        return prog

    create._c12_memo = True
    fparser_parser.ParserFactory.create = create


# ---------------------------------------------------------------------------
# the real code
# ---------------------------------------------------------------------------
def ctu_lists(nodes):
    from psyclone.psyir.tools import CallTreeUtils
    rwi = CallTreeUtils().get_in_out_parameters(nodes)
    return (sorted({str(s).lower() for s in rwi.signatures_read}),
            sorted({str(s).lower() for s in rwi.signatures_written}))


_PROVIDE = re.compile(r'ProvideVariable\("([^"]*)",\s*([A-Za-z_]\w*)\s*\)')


def extract_lists(tree, sidx, pidx, qidx):
    """Apply ExtractTrans to the region in a copy of the tree, lower it and
    read the lists the ExtractNode recorded.
    Returns ('ok', inputs, outputs) | ('refused'|'raised', description)."""
    from psyclone.psyir import nodes as N
    from psyclone.psyir.transformations import ExtractTrans, TransformationError
    fresh = tree.copy()
    routine = fresh.walk(N.Routine)[0]
    sched = routine.walk(N.Schedule)[sidx]
    nodes = sched.children[pidx:qidx + 1]
    trans = ExtractTrans()
    try:
        trans.validate(nodes)
    except TransformationError as err:
        return ("refused", str(err.value)[:80])
    try:
        trans.apply(nodes)
        enode = routine.walk(N.ExtractNode)[0]
        fresh.lower_to_language_level()
    except TransformationError as err:
        return ("refused", str(err.value)[:80])
    except Exception as err:  # pylint: disable=broad-except
        return ("raised", type(err).__name__)
    inputs, outputs = [], []
    phase = "pre"
    for block in routine.walk(N.CodeBlock):
        text = str(block.get_ast_nodes[0])
        if "% PreEnd" in text and "Declaration" not in text:
            phase = "body"
        elif "% PostStart" in text:
            phase = "post"
        match = _PROVIDE.search(text)
        if match:
            if phase == "pre":
                inputs.append(match.group(2).lower())
            elif phase == "post":
                outputs.append(match.group(2).lower())
            else:
                raise RuntimeError(f"ProvideVariable inside the region: {text}")
    rwi = enode._read_write_info  # pylint: disable=protected-access
    same = (sorted(str(s).lower() for s in rwi.signatures_read) == sorted(inputs)
            and sorted(str(s).lower() for s in rwi.signatures_written)
            == sorted(outputs))
    return ("ok", sorted(set(inputs)), sorted(set(outputs)), same)


# ---------------------------------------------------------------------------
# the oracle
# ---------------------------------------------------------------------------
def admissible_inputs(tree):
    from mc.fortsem import equiv
    good = []
    for inp in G.INPUTS:
        res = equiv.run(tree, "s", G.make_args(inp))
        if res[0] == "ok":
            good.append(inp)
        elif res[0] == "unsupported":
            raise RuntimeError(f"E1 cannot run the program: {res[1]}")
    return good


def observe_region(tree, sched, pidx, qidx, inputs, lists):
    """Runs the region protocol on every input.  lists: id -> frozenset of
    input names.  Returns (instances, ue, written, replay) where ue: var ->
    (input key, location), written: var -> True, replay: id -> first failure
    (input key, kind, detail) or None."""
    from mc import c12_oracle as O
    from mc.fortsem import interp as I
    ue, written, replay = {}, {}, {lid: None for lid in lists}
    whole = {lid: False for lid in lists}
    instances = 0
    for inp in inputs:
        results = []
        runner = O.RegionInterp(tree, sched, pidx, qidx,
                                O.make_protocol(lists, results))
        try:
            runner.run("s", G.make_args(inp))
        except I.UB as err:
            raise RuntimeError(f"admissible input became undefined: {err}")
        for inst in results:
            instances += 1
            for name, loc in inst.ue_reads.items():
                ue.setdefault(name, (G.input_key(inp), loc))
            for name in inst.writes:
                written[name] = True
            for lid, bad in inst.replays.items():
                if bad is not None and replay[lid] is None:
                    replay[lid] = (G.input_key(inp), bad[0], bad[1])
                whole[lid] = whole[lid] or inst.whole[lid]
    return instances, ue, written, replay, whole


def write_kinds(nodes, name):
    """How the region can write variable `name` (own walker)."""
    from psyclone.psyir import nodes as N
    kinds = set()
    for node in nodes:
        for sub in node.walk((N.Assignment, N.Loop, N.Call)):
            if isinstance(sub, N.Assignment):
                if sub.lhs.symbol.name.lower() == name:
                    kinds.add("assignment")
            elif isinstance(sub, N.Loop):
                if sub.variable.name.lower() == name:
                    kinds.add("loop-variable")
            elif not isinstance(sub, N.IntrinsicCall):
                for arg in sub.arguments:
                    if isinstance(arg, N.Reference) and \
                            arg.symbol.name.lower() == name:
                        kinds.add("call-argument")
    return "+".join(sorted(kinds)) or "indirect"


def judge(progkey, rtag, nodes, source, inputs, outputs, ue, written, replay,
          case):
    """Violations of one reported (inputs, outputs) pair."""
    from mc import c12_oracle as O
    viol = []
    text = "; ".join(n.debug_string().strip().replace("\n", " / ") for n in nodes)
    head = (f"program {progkey}, region {rtag} = [{text}]: {source} reports "
            f"inputs={inputs} outputs={outputs}; ")
    missing_in = sorted(set(ue) - set(inputs))
    mechs = {}
    for name in missing_in:
        mech = O.mechanism(nodes, name, name in G.ARRAYS)
        mechs.setdefault(mech, []).append(name)
    for mech, names in sorted(mechs.items()):
        ikey, loc = ue[names[0]]
        viol.append({
            "key": f"{progkey}|{rtag}|{source}|in:{','.join(names)}",
            "sig": f"{source}:missing-input:{mech}", "group": "missing-input",
            "msg": head + f"but on input {ikey} the region reads the incoming "
                          f"value of {O.show_loc(loc)} before any write to it "
                          f"(missing input(s): {names})",
            "case": case})
    missing_out = sorted(set(written) - set(outputs))
    for name in missing_out:
        how = write_kinds(nodes, name)
        viol.append({
            "key": f"{progkey}|{rtag}|{source}|out:{name}",
            "sig": f"{source}:missing-output:{how}", "group": "missing-output",
            "msg": head + f"but the region writes {name} ({how})",
            "case": case})
    if replay is not None:
        if not missing_in:
            raise RuntimeError(
                f"oracle inconsistency: replay differs although every upward "
                f"exposed read is an input: {head} {replay}")
        ikey, kind, detail = replay
        what = "stops on an undefined value: " + detail if kind == "ub" \
            else "gives " + detail
        viol.append({
            "key": f"{progkey}|{rtag}|{source}|replay",
            "sig": f"{source}:replay-differs:{sorted(mechs)[0]}",
            "group": "replay",
            "msg": head + f"replaying the region on input {ikey} from a store "
                          f"holding only these inputs {what}",
            "case": case})
    return viol


def schedules_of(tree):
    from psyclone.psyir import nodes as N
    routine = tree.walk(N.Routine)[0]
    return routine, routine.walk(N.Schedule)


def sched_tag(sched, routine):
    """Stable human-readable name of a schedule: path of child positions."""
    from psyclone.psyir import nodes as N
    if sched is routine:
        return "top"
    parts = []
    node = sched
    while node is not routine:
        par = node.parent
        if isinstance(par, N.Loop):
            parts.append("body")
        elif isinstance(par, N.IfBlock):
            parts.append("then" if node is par.if_body else "else")
        else:
            parts.append(f"s{node.position}")
        node = par
    return ".".join(reversed(parts))


def check_region(tree, progkey, routine, scheds, sidx, pidx, qidx, inputs,
                 stats):
    """One element.  Returns (viol, sample)."""
    sched = scheds[sidx]
    nodes = sched.children[pidx:qidx + 1]
    rtag = f"{sched_tag(sched, routine)}[{pidx}..{qidx}]"
    case = {"keys": progkey.split(";"), "sched": sidx, "p": pidx, "q": qidx}
    reports = {}
    reports["ctu"] = ctu_lists(nodes)
    ext = extract_lists(tree, sidx, pidx, qidx)
    stats["classes"][f"extract:{ext[0]}" + (f":{ext[1]}" if ext[0] != "ok" else "")] = \
        stats["classes"].get(f"extract:{ext[0]}" + (f":{ext[1]}" if ext[0] != "ok" else ""), 0) + 1
    if ext[0] == "ok":
        reports["extract"] = (ext[1], ext[2])
        if not ext[3]:
            stats["classes"]["extract:calls-differ-from-read_write_info"] = \
                stats["classes"].get("extract:calls-differ-from-read_write_info", 0) + 1
    # replay stores: one per distinct input set, plus (statistic only) nothing else
    by_set = {}
    for source, (ins, _outs) in reports.items():
        by_set.setdefault(frozenset(ins), []).append(source)
    lists = {"+".join(srcs): names for names, srcs in by_set.items()}
    instances, ue, written, replay, whole = observe_region(
        tree, sched, pidx, qidx, inputs, lists)
    if any(whole.values()):
        stats["whole"] += 1
    stats["instances"] += instances
    stats["pairs"] += len(inputs)
    viol = []
    if instances:
        stats["nontrivial"] += 1
    for lid, bad in replay.items():
        for source in lid.split("+"):
            ins, outs = reports[source]
            viol += judge(progkey, rtag, nodes, source, ins, outs, ue, written,
                          bad, case)
    sample = {"program": progkey, "region": rtag, "instances": instances,
              "reports": {s: {"inputs": r[0], "outputs": r[1]}
                          for s, r in reports.items()},
              "upward_exposed": sorted(ue), "written": sorted(written)}
    return viol, sample


def run_program(keys, stats, only=None):
    from mc.fortsem import transcheck
    progkey = G.key_of(keys)
    tree = transcheck.parse(G.source(keys))
    routine, scheds = schedules_of(tree)
    inputs = admissible_inputs(tree)
    stats["classes"]["inadmissible-(program,input)"] = \
        stats["classes"].get("inadmissible-(program,input)", 0) + \
        len(G.INPUTS) - len(inputs)
    viol, sample = [], None
    for sidx, sched in enumerate(scheds):
        num = len(sched.children)
        for pidx in range(num):
            for qidx in range(pidx, num):
                if only is not None and only != (sidx, pidx, qidx):
                    continue
                stats["evals"] += 1
                found, sample = check_region(tree, progkey, routine, scheds, sidx,
                                             pidx, qidx, inputs, stats)
                stats["classes"]["region:violating" if found else "region:ok"] = \
                    stats["classes"].get(
                        "region:violating" if found else "region:ok", 0) + 1
                viol += found
    return viol, sample


def _new_stats():
    return {"evals": 0, "nontrivial": 0, "instances": 0, "pairs": 0,
            "whole": 0, "classes": {}}


def run_case(case):
    progs = _programs(_TIER)
    stats = _new_stats()
    viol, sample = [], None
    for keys in progs[case["start"]:case["stop"]]:
        found, sample = run_program(keys, stats)
        viol += found
    return {"evals": stats["evals"], "nontrivial": stats["nontrivial"],
            "states": stats["pairs"], "transitions": stats["instances"],
            "validated": stats["evals"], "classes": stats["classes"],
            "extra": {"replay_whole_variable_would_differ": stats["whole"]},
            "viol": viol, "sample": sample}


def replay(case):
    stats = _new_stats()
    viol, sample = run_program(tuple(case["keys"]), stats,
                               only=(case["sched"], case["p"], case["q"]))
    return {"source": G.source(tuple(case["keys"])), "element": sample,
            "viol": viol}
