"""C25 GOcean loops visit exactly the configured grid points.

Generated kernels (every index offset x grid-point type x built-in and
user-defined iteration space, the latter loaded from a generated psyclone.cfg)
are put into invokes of one or two kernels; the real PSy layer is created,
transformed by every accepted history of GOcean transformations up to a depth
bound (explicit-state BFS, histories replayed on fresh objects), lowered and
executed by the E1 interpreter on mock dl_esm_inf field objects for every
grid internal region in {2..4}^4.  The recorded (kernel, i, j) visits are
compared with a small reference evaluator (mc/c25_core.py).
"""
import collections
import itertools
import os
import shutil

from mc import c25_core as C

ID = "C25"
LEVEL = "model_checking"
EXHAUSTIVE = True
CASE_TIMEOUT = 14400     # a depth-3 pair is ~400 CPU-s on an idle core
RULE = ("a state is (invoke, accepted transformation history), histories explored "
        "breadth-first to the depth bound and de-duplicated on a structural "
        "fingerprint of the transformed schedule; every state that lowers is executed "
        "on all 25 grids (xstart=ystart=2, xstop,ystop in 1..5); an evaluation is one "
        "(state, grid) execution and is non-trivial when at least one kernel is "
        "expected to visit at least one point; distinct = distinct (invoke, "
        "fingerprint, grid)")
ASSUMPTIONS = [
    "dl_esm_inf is not vendored: field objects are E1 structures whose internal/whole "
    "rectangles are defined from a frozen transcription (mc/c25_core.REF) of the "
    "built-in region of the grid's index offset and the field's grid-point type; data "
    "arrays have extent (xstop+1, ystop+1)",
    "without constant loop bounds the expected region of a built-in iteration space is "
    "the rectangle stored in the field object; with constant loop bounds it is the "
    "frozen table entry evaluated with {start},{stop} := the grid's internal bounds; "
    "for a user-defined space it is always the generated config line",
    "go_every with a built-in iteration space is expected to visit every element of "
    "the data array in both modes",
    "states are judged against the expected region of their own mode only; visits "
    "before and after GOConstLoopBoundsTrans are never compared with each other, so in "
    "an invoke that mixes go_offset_any with ne/sw kernels the (undecidable in this "
    "tree) difference between the any-kernel's table region and the field rectangle "
    "is not judged",
    "a kernel moved by GOMoveIterationBoundariesInsideKernelTrans is judged only on "
    "grids where its expected region lies inside the data array (otherwise the "
    "untransformed program indexes out of bounds)",
    "OpenMP/OpenACC directives and PSyData calls are executed as transparent "
    "(serial) by E1; only the multiset and per-point kernel order of visits is judged",
]

# dl_esm_inf internal regions always start at 2 (the documented value of {start});
# only the stop indices vary (stop = 1 gives an empty internal region).
GRIDS = sorted((2, xs, 2, ys) for xs in (1, 2, 3, 4, 5) for ys in (1, 2, 3, 4, 5))
NE, SW, ANY = C.OFFSETS
INT, ALL = "go_internal_pts", "go_all_pts"


# ---------------------------------------------------------------------------
# The corpus of invokes
# ---------------------------------------------------------------------------
def _short(kern):
    return "/".join(part.replace("go_offset_", "").replace("go_", "")
                    for part in kern)


def _single_specs():
    for off, typ in itertools.product(C.OFFSETS, C.TYPES):
        for spc in C.BUILTIN + [C.EXTERNAL] + C.CUSTOM:
            yield (off, typ, spc)


def _pairs(tier):
    """(first kernel, second kernel, depth) for the two-kernel invokes."""
    quick = [
        ((NE, "go_cu", INT), (NE, "go_cu", INT)),
        ((NE, "go_cu", INT), (NE, "go_cu", ALL)),
        ((NE, "go_cu", INT), (NE, "go_cv", INT)),
        ((NE, "go_ct", INT), (ANY, "go_ct", INT)),
        ((ANY, "go_cf", ALL), (NE, "go_cf", ALL)),
        ((SW, "go_cf", ALL), (SW, "go_cf", ALL)),
        ((SW, "go_ct", "c25_nshalo"), (SW, "go_ct", "c25_nshalo")),
        ((SW, "go_cv", "c25_row"), (SW, "go_cv", "c25_wide")),
        ((ANY, "go_cu", INT), (ANY, "go_cu", INT)),
        ((NE, "go_every", ALL), (NE, "go_every", ALL)),
        ((NE, "go_ct", INT), (NE, "go_every", ALL)),
        ((SW, "go_cu", "c25_lit"), (ANY, "go_cu", "c25_lit")),
    ]
    if tier == "quick":
        return [(a, b, 2) for a, b in quick]
    deep = {0, 3, 6, 7, 10, 11}
    out = [(a, b, 3 if pos in deep else 2) for pos, (a, b) in enumerate(quick)]
    seen = set(quick)
    more = []
    for off in (NE, SW):
        for typ in C.TYPES:
            for spc in (INT, ALL, "c25_nshalo", "c25_corner"):
                more.append(((off, typ, spc), (off, typ, spc)))
        for typ in C.TYPES[:4]:
            more.append(((off, typ, INT), (off, typ, ALL)))
            more.append(((off, typ, ALL), (off, typ, "c25_wide")))
            more.append(((off, typ, INT), (ANY, typ, INT)))
            more.append(((ANY, typ, ALL), (off, typ, ALL)))
            more.append(((off, typ, INT), (off, "go_every", ALL)))
        more.append(((off, "go_cu", INT), (off, "go_ct", INT)))
        more.append(((off, "go_cv", ALL), (off, "go_cf", ALL)))
    for typ in C.TYPES:
        more.append(((ANY, typ, INT), (ANY, typ, INT)))
        more.append(((ANY, typ, "c25_shrink"), (ANY, typ, "c25_shrink")))
    for pair in more:
        if pair not in seen:
            seen.add(pair)
            out.append((pair[0], pair[1], 2))
    return out


def bounds(tier):
    return {
        "index_offsets": C.OFFSETS, "grid_point_types": C.TYPES,
        "iteration_spaces": C.BUILTIN + [C.EXTERNAL] + C.CUSTOM,
        "config_lines": len(C.config_lines()),
        "grids": "(xstart,xstop,ystart,ystop) in {2,3,4}^4 (81, incl. empty ranges)",
        "single_kernel_invokes": len(list(_single_specs())),
        "single_depth": 1 if tier == "quick" else 2,
        "two_kernel_invokes": len(_pairs(tier)),
        "two_kernel_invoke_list": [_short(a) + "+" + _short(b)
                                   for a, b, _d in _pairs(tier)],
        "pair_depths": dict(collections.Counter(
            str(d) for _a, _b, d in _pairs(tier))),
        "depth_rule": "number of transformations, a leading GOConstLoopBoundsTrans "
                      "is not counted (constant-loop-bounds on/off x histories)",
        "alphabet": sorted(OPS),
        "targets": "singles: every loop; pairs: outer loops, first top-level node "
                   "or all top-level nodes, every kernel",
        "containment_items": 12,
    }


def cases(tier):
    depth = 1 if tier == "quick" else 2
    for kern in _single_specs():
        yield {"key": "s:" + _short(kern), "kind": "bfs", "kernels": [list(kern)],
               "depth": depth, "loops": "all", "tsel": "each"}
    for kern1, kern2, dep in _pairs(tier):
        yield {"key": "p:" + _short(kern1) + "+" + _short(kern2), "kind": "bfs",
               "kernels": [list(kern1), list(kern2)], "depth": dep,
               "loops": "outer", "tsel": "first"}
    for off, typ in itertools.product(C.OFFSETS, C.TYPES[:4]):
        yield {"key": "c:" + _short((off, typ)), "kind": "contain",
               "offset": off, "type": typ}


# ---------------------------------------------------------------------------
# Worker state
# ---------------------------------------------------------------------------
_W = {}


def _remove(path, pid):
    if os.getpid() == pid:
        shutil.rmtree(path, ignore_errors=True)


def prepare(_tier):
    """Parent: scratch directory and the generated configuration file."""
    if "scratch" in _W:
        return
    import atexit
    from mc.runner import scratch_dir
    path = scratch_dir("c25")
    atexit.register(_remove, path, os.getpid())
    _W["scratch"] = path
    repo = os.environ.get("VERIF_REPO", "/repo")
    _W["cfg"] = C.write_config(repo, path)


def init_worker(tier):
    prepare(tier)
    work = os.path.join(_W["scratch"], f"w{os.getpid()}")
    os.makedirs(work, exist_ok=True)
    os.chdir(work)
    _W["work"] = work
    conf = C.load_config(_W["cfg"])
    conf.kernel_output_dir = work
    # the reference table must itself satisfy the documented containment
    for (off, typ, spc), ent in C.REF.items():
        for grid in GRIDS:
            reg = set(C.points(C.rect(ent, grid)))
            halo = set(C.points((grid[0] - 1, grid[1] + 1, grid[2] - 1, grid[3] + 1)))
            if not reg <= halo:
                raise AssertionError("reference table outside the depth-1 halo")


# ---------------------------------------------------------------------------
# Transformations (the alphabet)
# ---------------------------------------------------------------------------
def _loops(sched):
    from psyclone.gocean1p0 import GOLoop
    return sched.walk(GOLoop)


def _kerns(sched):
    from psyclone.gocean1p0 import GOKern
    return sched.walk(GOKern)


def _sel(sched, sel):
    return sched.children[:] if sel == "all" else [sched.children[sel]]


def _op_fuse(sched, idx):
    from psyclone.domain.gocean.transformations import GOceanLoopFuseTrans
    loop = _loops(sched)[idx]
    GOceanLoopFuseTrans().apply(loop, loop.parent.children[loop.position + 1])


def _op_ompploop(sched, idx):
    from psyclone.transformations import GOceanOMPParallelLoopTrans
    GOceanOMPParallelLoopTrans().apply(_loops(sched)[idx])


def _op_omploop(sched, idx):
    from psyclone.transformations import GOceanOMPLoopTrans
    GOceanOMPLoopTrans().apply(_loops(sched)[idx])


def _op_omppar(sched, sel):
    from psyclone.transformations import OMPParallelTrans
    OMPParallelTrans().apply(_sel(sched, sel))


def _op_accpar(sched, sel):
    from psyclone.transformations import ACCParallelTrans
    ACCParallelTrans().apply(_sel(sched, sel))


def _op_accloop(sched, idx):
    from psyclone.transformations import ACCLoopTrans
    ACCLoopTrans().apply(_loops(sched)[idx])


def _op_accdata(sched):
    from psyclone.transformations import ACCEnterDataTrans
    ACCEnterDataTrans().apply(sched)


def _op_extract(sched, sel):
    from psyclone.domain.gocean.transformations import GOceanExtractTrans
    GOceanExtractTrans().apply(_sel(sched, sel))


def _op_clb(sched):
    from psyclone.domain.gocean.transformations import GOConstLoopBoundsTrans
    GOConstLoopBoundsTrans().apply(sched)


def _op_move(sched, idx):
    from psyclone.domain.gocean.transformations import \
        GOMoveIterationBoundariesInsideKernelTrans
    GOMoveIterationBoundariesInsideKernelTrans().apply(_kerns(sched)[idx])


OPS = {"fuse": _op_fuse, "ompploop": _op_ompploop, "omploop": _op_omploop,
       "omppar": _op_omppar, "accpar": _op_accpar, "accloop": _op_accloop,
       "accdata": _op_accdata, "extract": _op_extract, "clb": _op_clb,
       "move": _op_move}


def candidate_ops(sched, loops, tsel):
    """Every (transformation, target) of the alphabet on this schedule, in a
    fixed order.  Targets are positions in pre-order walks, never objects."""
    from psyclone.gocean1p0 import GOLoop
    ops = []
    all_loops = _loops(sched)
    for idx, loop in enumerate(all_loops):
        sibs = loop.parent.children
        if loop.position + 1 < len(sibs) and \
                isinstance(sibs[loop.position + 1], GOLoop):
            ops.append(["fuse", idx])
    picked = [idx for idx, loop in enumerate(all_loops)
              if loops == "all" or loop.loop_type == "outer"]
    for idx in picked:
        ops.append(["ompploop", idx])
    for idx in picked:
        ops.append(["omploop", idx])
    for idx in picked:
        ops.append(["accloop", idx])
    sels = ["all"]
    if len(sched.children) > 1:
        sels += [0] if tsel == "first" else list(range(len(sched.children)))
    for name in ("omppar", "accpar", "extract"):
        for sel in sels:
            ops.append([name, sel])
    ops.append(["accdata"])
    ops.append(["clb"])
    for idx in range(len(_kerns(sched))):
        ops.append(["move", idx])
    return ops


def apply_op(sched, oper):
    """None if accepted, otherwise the refusal class."""
    from psyclone.errors import GenerationError, InternalError
    from psyclone.psyir.transformations import TransformationError
    try:
        OPS[oper[0]](sched, *oper[1:])
    except TransformationError:
        return "refused"
    except (GenerationError, InternalError, NotImplementedError, KeyError,
            ValueError, TypeError, AttributeError, IndexError) as err:
        return "refused-" + type(err).__name__
    return None


def hist_text(hist):
    return ">".join(o[0] + "".join(f"[{a}]" for a in o[1:]) for o in hist) or "-"


def depth_of(hist):
    return len(hist) - (1 if hist and hist[0][0] == "clb" else 0)


# ---------------------------------------------------------------------------
# Building, fingerprinting, lowering, executing
# ---------------------------------------------------------------------------
class Invoke:
    """Parsed algorithm + kernels of one generated invoke (parse once, create
    the PSy layer afresh for every history)."""

    def __init__(self, kernels, tag):
        from psyclone.parse.algorithm import parse
        self.kernels = [tuple(k) for k in kernels]
        self.goff = C.grid_offset(self.kernels)
        self.dir = os.path.join(_W["work"], tag)
        shutil.rmtree(self.dir, ignore_errors=True)
        alg = C.write_sources(self.dir, self.kernels)
        self.info = None
        self.refusal = None
        self.mocks = {}
        self.runs = {}         # skeleton -> {grid: visits}
        from psyclone.errors import GenerationError
        from psyclone.parse.utils import ParseError
        try:
            _, self.info = parse(alg, api="gocean", kernel_paths=[self.dir])
            self.build()
        except (ParseError, GenerationError) as err:
            self.refusal = type(err).__name__
            self.info = None

    def build(self):
        from psyclone.psyGen import PSyFactory
        psy = PSyFactory("gocean", distributed_memory=False).create(self.info)
        return psy.invokes.invoke_list[0].schedule

    def close(self):
        shutil.rmtree(self.dir, ignore_errors=True)


def fingerprint(sched):
    """Structural identity of a transformed schedule: node kinds, loop
    attributes, bound expressions, kernel argument lists and directive kinds
    (Node.view), the names in the invoke's symbol table and the text of every
    kernel schedule that has been loaded.  Object identities and nothing else
    are dropped, so two histories with equal fingerprints are the same state
    for every transformation of the alphabet and for lowering."""
    parts = [sched.view(colour=False)]
    parts.append(",".join(sorted(s.name for s in sched.symbol_table.symbols)))
    for kern in _kerns(sched):
        ksched = getattr(kern, "_kern_schedule", None)
        parts.append(ksched.debug_string() if ksched is not None else "-")
    return "\n".join(parts)


def kernel_modes(hist, nkern):
    """Per kernel: (bounds come from the constant-loop-bounds path, moved)."""
    clb = False
    moved_before = set()
    moved = set()
    for oper in hist:
        if oper[0] == "clb":
            clb = True
        elif oper[0] == "move":
            if oper[1] not in moved and not clb:
                moved_before.add(oper[1])
            moved.add(oper[1])
    return [(clb and k not in moved_before, k in moved) for k in range(nkern)]


def lower_and_run(inv, sched, hist, grids):
    """('gen-refused', class) or ('ok', {grid: visits | ('ub', text)}, ran):
    ran is False when the executions were shared with an earlier state of the
    same invoke that has the same skeleton."""
    from psyclone.errors import GenerationError, InternalError
    from psyclone.psyir.backend.visitor import VisitorError
    modes = kernel_modes(hist, len(inv.kernels))
    masked = {}
    for num, kern in enumerate(_kerns(sched)):
        if modes[num][1]:
            masked[kern.name.lower()] = (num + 1, kern.get_kernel_schedule())
    order = [arg.name for arg in sched.symbol_table.argument_list]
    try:
        sched.root.lower_to_language_level()
    except (GenerationError, InternalError, VisitorError,
            NotImplementedError) as err:
        return ("gen-refused", type(err).__name__)
    finally:
        for name in os.listdir(_W["work"]):
            if name.endswith(".f90"):
                os.remove(os.path.join(_W["work"], name))
    skel = "\n".join([",".join(order)] + skeleton(sched) +
                     [v[1].debug_string() for _k, v in sorted(masked.items())])
    if skel in inv.runs:
        return ("ok", inv.runs[skel], False)
    out = {}
    runner = C.Executor(sched.root, sched.name, masked)
    for grid in grids:
        key = (tuple(order), grid)
        if key not in inv.mocks:
            inv.mocks[key] = C.mock_fields(order, inv.goff, grid)
        res = runner.run(inv.mocks[key])
        if res[0] == "unsupported":
            raise RuntimeError(f"E1 cannot execute the lowered invoke: {res[1]} "
                               f"({inv.kernels}, {hist_text(hist)})")
        out[grid] = res[1] if res[0] == "ok" else ("ub", res[1])
    inv.runs[skel] = out
    return ("ok", out, True)


def skeleton(sched):
    """The lowered code as E1 executes it: directives are transparent
    (a region directive is its body, a stand-alone one is nothing) and
    CodeBlocks (PSyData calls, the OpenACC pointer assignment) are skipped by
    the hook.  Two lowered invokes with the same skeleton are the same program
    for E1, so they share one set of executions."""
    from psyclone.psyir import nodes as N
    out = []
    for child in sched.children:
        if isinstance(child, N.Directive):
            if isinstance(child, N.RegionDirective):
                out += skeleton(child.dir_body)
        elif isinstance(child, N.CodeBlock):
            continue
        elif isinstance(child, N.Loop):
            out.append(f"do {child.variable.name} = "
                       f"{child.start_expr.debug_string()}, "
                       f"{child.stop_expr.debug_string()}, "
                       f"{child.step_expr.debug_string()}")
            out += skeleton(child.loop_body)
            out.append("enddo")
        elif isinstance(child, N.Schedule):
            out += skeleton(child)
        else:
            out.append(child.debug_string().strip())
    return out


# ---------------------------------------------------------------------------
# The oracle
# ---------------------------------------------------------------------------
def _clip(pts, grid):
    nx, ny = C.data_extent(grid)
    return [(i, j) for i, j in pts if 1 <= i <= nx and 1 <= j <= ny]


def _how(obs, exp):
    cobs, cexp = collections.Counter(obs), collections.Counter(exp)
    if any(v > 1 for v in cobs.values()):
        return "dup"
    sobs, sexp = set(cobs), set(cexp)
    if sobs and sexp:
        box = lambda s: (min(p[0] for p in s), max(p[0] for p in s),
                         min(p[1] for p in s), max(p[1] for p in s))
        bobs, bexp = box(sobs), box(sexp)
        if len(sobs) == (bobs[1] - bobs[0] + 1) * (bobs[3] - bobs[2] + 1):
            delta = ",".join(f"{a - b:+d}" for a, b in zip(bobs, bexp))
            return f"box({delta})"
    if sobs < sexp:
        return "missing"
    if sobs > sexp:
        return "extra"
    return "missing+extra"


def judge_kernel(num, modes, inv, hist, grid, obs):
    """None if the visits of kernel `num` on one grid are as expected, else
    (family, how, expected points).  A mismatch is attributed to a family
    when one specific mechanism reproduces the observed visits exactly;
    otherwise it is a plain 'region' mismatch."""
    kern = inv.kernels[num]
    clb, moved = modes[num]
    _off, typ, spc = kern
    exp = C.points(C.expected_rect(kern, clb, inv.goff, grid))
    nx, ny = C.data_extent(grid)
    if moved and any(not (1 <= i <= nx and 1 <= j <= ny) for i, j in exp):
        return ("inadmissible", None, exp)
    cobs = collections.Counter(obs)
    if cobs == collections.Counter(exp):
        return None
    array = (1, nx, 1, ny)

    def same(rec):
        pts = C.points(rec)
        return collections.Counter(_clip(pts, grid) if moved else pts) == cobs

    starts = [None] + ([2] if (grid[0], grid[2]) != (2, 2) else [])
    found = {}
    # PSyclone substitutes the literal 2 for {start}
    if len(starts) > 1 and \
            same(C.expected_rect(kern, clb, inv.goff, grid, start=2)):
        found["start-literal-2"] = "as-if-start=2"
    # a user-defined space on a go_every kernel is ignored without CLB
    if typ == "go_every" and spc in C.CUSTOM and not clb and same(array):
        found["every-ignores-custom-space"] = "whole-array"
    # the kernel shares a fused loop nest whose bounds belong to the other one
    others = [n for n in range(len(inv.kernels)) if n != num]
    if others and any(o[0] == "fuse" for o in hist):
        oth = others[0]
        for start in starts:
            cands = {"own": C.expected_rect(kern, clb, inv.goff, grid, start)}
            if modes[oth][1]:
                cands["array"] = array
            if inv.kernels[oth][0] != kern[0]:
                try:
                    cands["other-offset"] = C.expected_rect(
                        (inv.kernels[oth][0], typ, spc), clb, inv.goff, grid,
                        start)
                except KeyError:
                    pass
            for (ni, ri), (nj, rj) in itertools.product(cands.items(), repeat=2):
                if ni == nj == "own":
                    continue
                if same((ri[0], ri[1], rj[2], rj[3])):
                    fam = ("move-widens-shared-loop" if "array" in (ni, nj)
                           else "fuse-mixed-offsets")
                    found.setdefault(fam, f"i:{ni},j:{nj}" +
                                     (",start=2" if start else ""))
    return ("bad", found, exp)


FAMILIES = ["start-literal-2", "every-ignores-custom-space",
            "move-widens-shared-loop", "fuse-mixed-offsets"]


def judge_state(inv, hist, runs):
    """-> (per-kernel list of (digest, problems), order problems, counters).
    problems: {family: (how, grid, observed, expected)} on the first failing grid."""
    modes = kernel_modes(hist, len(inv.kernels))
    per_kernel = []
    counters = collections.Counter()
    order_bad = None
    ub_bad = None
    for num, kern in enumerate(inv.kernels):
        problems = {}
        digest = []
        failing = []
        for grid in GRIDS:
            visits = runs[grid]
            if isinstance(visits, tuple):
                digest.append(("ub",))
                if ub_bad is None:
                    ub_bad = (grid, visits[1])
                continue
            obs = [(i, j) for (k, i, j) in visits if k == num + 1]
            digest.append(tuple(obs))
            verdict = judge_kernel(num, modes, inv, hist, grid, obs)
            if verdict is None:
                continue
            if verdict[0] == "inadmissible":
                counters[verdict[0]] += 1
                continue
            failing.append((grid, obs, verdict[2], verdict[1]))
        if failing:
            # one mechanism must explain every failing grid, otherwise the
            # state is a plain region mismatch
            common = set(FAMILIES)
            for _grid, _obs, _exp, found in failing:
                common &= set(found)
            grid, obs, exp, found = failing[0]
            if common:
                family = [f for f in FAMILIES if f in common][0]
                problems[family] = (found[family], grid, obs, exp)
            else:
                problems["region"] = (_how(obs, exp), grid, obs, exp)
        per_kernel.append((tuple(digest), problems))
    for grid in GRIDS:
        visits = runs[grid]
        if isinstance(visits, tuple):
            continue
        last = {}
        for k, i, j in visits:
            if last.get((i, j), 0) > k and order_bad is None:
                order_bad = (grid, (i, j), last[(i, j)], k)
            last[(i, j)] = max(k, last.get((i, j), 0))
    return per_kernel, order_bad, ub_bad, counters


# ---------------------------------------------------------------------------
# Exploration of one invoke
# ---------------------------------------------------------------------------
def explore(case, only_hist=None):
    """BFS over the histories of one invoke (or, for replay, exactly the
    history `only_hist` and its prefixes)."""
    res = {"evals": 0, "nontrivial": 0, "states": 0, "transitions": 0,
           "validated": 0, "classes": collections.Counter(), "viol": [],
           "extra": {"e1_executions": 0}}
    inv = Invoke(case["kernels"], "inv")
    try:
        if inv.info is None:
            # the metadata / generation refused the combination
            res["classes"]["invoke-refused-" + inv.refusal] += 1
            res["evals"] = res["nontrivial"] = 1
            if all(C.legal(tuple(k)) for k in case["kernels"]):
                res["viol"].append({
                    "key": case["key"] + "|-",
                    "sig": f"invoke-refused:{_short(tuple(case['kernels'][0]))}:"
                           f"{inv.refusal}",
                    "msg": f"PSyclone refuses to create the PSy layer for the legal "
                           f"kernel(s) {case['kernels']} ({inv.refusal})",
                    "case": {"kernels": case["kernels"], "hist": []}})
            return res
        _explore(case, inv, res, only_hist)
    finally:
        inv.close()
    res["classes"] = dict(res["classes"])
    return res


def _explore(case, inv, res, only_hist):
    name = "+".join(_short(k) for k in inv.kernels)
    seen = {}
    judged = {}        # hist text -> per-kernel [(digest, problems)] | None
    if only_hist is None:
        queue = collections.deque([[]])
    else:
        queue = collections.deque(only_hist[:n] for n in range(len(only_hist) + 1))
    sample = None
    while queue:
        hist = queue.popleft()
        sched = inv.build()
        failed = None
        for pos, oper in enumerate(hist):
            failed = apply_op(sched, oper)
            if failed is not None:
                if pos != len(hist) - 1 and only_hist is None:
                    raise RuntimeError(
                        f"history {hist_text(hist)} of {case['key']} is not "
                        f"replayable: {oper} was accepted before and is now "
                        f"'{failed}' (non-determinism, or the repository "
                        f"changed during the run)")
                break
        if hist:
            res["transitions"] += 1
        if failed is not None:
            res["classes"][failed] += 1
            continue
        mark = fingerprint(sched)
        if mark in seen and only_hist is None:
            res["classes"]["duplicate-state"] += 1
            continue
        seen[mark] = hist
        res["states"] += 1
        res["validated"] += 1
        if only_hist is None and depth_of(hist) < case["depth"]:
            for oper in candidate_ops(sched, case["loops"], case["tsel"]):
                child = hist + [oper]
                if depth_of(child) <= case["depth"]:
                    queue.append(child)
        outcome = lower_and_run(inv, sched, hist, GRIDS)
        if outcome[0] == "gen-refused":
            res["classes"]["lowering-refused-" + outcome[1]] += 1
            judged[hist_text(hist)] = None
            continue
        res["classes"]["judged-states"] += 1
        runs = outcome[1]
        if not outcome[2]:
            res["classes"]["execution-shared-with-equal-skeleton"] += 1
        res["evals"] += len(GRIDS)
        res["extra"]["e1_executions"] += len(GRIDS) if outcome[2] else 0
        modes = kernel_modes(hist, len(inv.kernels))
        for grid in GRIDS:
            if any(C.points(C.expected_rect(k, modes[n][0], inv.goff, grid))
                   for n, k in enumerate(inv.kernels)):
                res["nontrivial"] += 1
        per_kernel, order_bad, ub_bad, counters = judge_state(inv, hist, runs)
        res["classes"].update(counters)
        judged[hist_text(hist)] = per_kernel
        # nearest judged ancestor
        anc, culprit = None, "base"
        for cut in range(len(hist) - 1, -1, -1):
            prev = judged.get(hist_text(hist[:cut]))
            if prev is not None:
                anc = prev
                break
        if hist:
            start = cut if anc is not None else 0
            culprit = ">".join(o[0] for o in hist[start:])
        if sample is None and len(hist) == case["depth"]:
            grid = GRIDS[len(GRIDS) // 2]
            sample = {"invoke": case["key"], "history": hist_text(hist),
                      "grid": list(grid), "visits": len(runs[grid])
                      if not isinstance(runs[grid], tuple) else "ub"}
        payload = {"kernels": case["kernels"], "hist": hist}
        if ub_bad is not None:
            res["viol"].append({
                "key": f"{case['key']}|{hist_text(hist)}|ub",
                "sig": f"exec-ub:{name}:after={culprit}",
                "msg": f"the lowered invoke of {case['key']} after "
                       f"[{hist_text(hist)}] is not executable on grid "
                       f"{ub_bad[0]}: {ub_bad[1]}", "case": payload})
        if order_bad is not None:
            grid, point, first, second = order_bad
            res["viol"].append({
                "key": f"{case['key']}|{hist_text(hist)}|order",
                "sig": f"order:{name}:after={culprit}",
                "msg": f"{case['key']} after [{hist_text(hist)}] on grid {grid}: "
                       f"point {point} is visited by kernel {first} before kernel "
                       f"{second} (invoke order is 1,2)", "case": payload})
        for num, (digest, problems) in enumerate(per_kernel):
            if not problems:
                continue
            if anc is not None and anc[num][0] == digest and anc[num][1]:
                res["classes"]["violation-inherited-from-prefix"] += 1
                continue
            kern = inv.kernels[num]
            mode = "clb" if modes[num][0] else "noclb"
            for family, (how, grid, obs, exp) in sorted(problems.items()):
                if family == "region":
                    sig = f"region:{_short(kern)}:{mode}:after={culprit}:{how}"
                else:
                    kind = "custom" if kern[2] in C.CUSTOM else "builtin"
                    sig = f"{family}:{mode}:{kind}:after={culprit}"
                res["viol"].append({
                    "key": f"{case['key']}|{hist_text(hist)}|k{num + 1}|{family}",
                    "sig": sig,
                    "msg": f"invoke {case['key']} after [{hist_text(hist)}], kernel "
                           f"{num + 1} {kern} ({mode}), grid (xstart,xstop,ystart,"
                           f"ystop)={grid}: expected visits {sorted(exp)} but the "
                           f"generated loops visit {sorted(obs)} [{family}/{how}]",
                    "case": payload})
    if sample is not None:
        res["sample"] = sample


# ---------------------------------------------------------------------------
# Containment claims on the built-in regions (constant-loop-bounds mode)
# ---------------------------------------------------------------------------
def contain(case):
    off, typ = case["offset"], case["type"]
    res = {"evals": 0, "nontrivial": 0, "states": 0, "transitions": 0,
           "validated": 0, "classes": collections.Counter(), "viol": []}
    regions = {}
    for spc in C.BUILTIN:
        inv = Invoke([[off, typ, spc]], "inv")
        try:
            sched = inv.build()
            if apply_op(sched, ["clb"]) is not None:
                raise RuntimeError("GOConstLoopBoundsTrans refused a built-in space")
            outcome = lower_and_run(inv, sched, [["clb"]], GRIDS)
        finally:
            inv.close()
        res["states"] += 1
        res["transitions"] += 1
        res["validated"] += 1
        regions[spc] = outcome[1]
    reported = set()
    for grid in GRIDS:
        res["evals"] += 1
        res["nontrivial"] += 1
        sets = {}
        for spc in C.BUILTIN:
            sets[spc] = {(i, j) for _k, i, j in regions[spc][grid]}
        bad = _contain_claims(sets, grid, grid[0], grid[2])
        if not bad:
            continue
        if (grid[0], grid[2]) != (2, 2) and \
                not _contain_claims(sets, grid, 2, 2):
            sig = "start-literal-2:clb:builtin:contain"
        else:
            sig = f"contain:{bad[0]}:{_short((off, typ))}"
        if sig in reported:
            continue
        reported.add(sig)
        res["viol"].append({
            "key": f"{case['key']}|{grid}|{bad[0]}", "sig": sig,
            "msg": f"constant loop bounds, {off}/{typ}, grid {grid}: {bad[1]}",
            "case": {"offset": off, "type": typ, "grid": list(grid)}})
    res["classes"] = dict(res["classes"])
    return res


def _contain_claims(sets, grid, xstart, ystart):
    xstop, ystop = grid[1], grid[3]
    halo = set(C.points((xstart - 1, xstop + 1, ystart - 1, ystop + 1)))
    core = set(C.points((xstart, xstop - 1, ystart, ystop - 1)))
    for spc in C.BUILTIN:
        if not sets[spc] <= halo:
            return ("beyond-halo-" + spc,
                    f"{spc} visits {sorted(sets[spc] - halo)} beyond the depth-1 halo")
    if not sets[ALL] >= sets[INT]:
        return ("all-misses-internal",
                f"go_all_pts misses {sorted(sets[INT] - sets[ALL])} of go_internal_pts")
    if not sets[INT] >= core:
        return ("internal-misses-core",
                f"go_internal_pts misses {sorted(core - sets[INT])} of "
                f"[start,stop-1]^2")
    return None


# ---------------------------------------------------------------------------
def run_case(case):
    if case["kind"] == "contain":
        return contain(case)
    return explore(case)


def replay(case):
    if "offset" in case:
        full = contain({"key": "replay", "offset": case["offset"],
                        "type": case["type"]})
        return {"viol": full["viol"], "classes": full["classes"]}
    name = "+".join(_short(tuple(k)) for k in case["kernels"])
    cfg = {"key": ("s:" if len(case["kernels"]) == 1 else "p:") + name,
           "kernels": case["kernels"], "depth": len(case["hist"]),
           "loops": "all", "tsel": "each"}
    full = explore(cfg, only_hist=case["hist"])
    want = hist_text(case["hist"])
    viol = [v for v in full["viol"] if v["key"].split("|")[1] == want]
    return {"history": want, "kernels": case["kernels"], "viol": viol,
            "classes": full["classes"]}
