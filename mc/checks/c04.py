"""C04 Generated code declares every entity it uses, in a valid order.

Four exhaustively enumerated spaces (+ a fixed list of PSy layers), all run on the REAL reader / transformations
/ FortranWriter:

  rw   the declaration corpus of mc/gen/fprog.py (modules with access statements,
       parameter chains, kind parameters, derived types, interfaces, use
       only/rename/wildcard ...): FortranReader -> FortranWriter;
  ord  symbol tables built through the PSyIR API: every dependency-closed subset
       of a pool of inter-dependent entities, ADDED in every order;
  scp  nested Schedules carrying their own symbols for every combination of
       (scope, clashing name), in a colliding and a neutral (unique names) variant;
  psy  GOcean and LFRic PSy layers generated from a handful of the repository's
       test algorithm files (text-level oracle only);
  bfs  explicit-state BFS over histories of accepted symbol-adding
       transformations on 12 seed routines whose locals carry the names the
       transformations invent; state = history replayed on a fresh parse,
       de-duplicated on tree view + written text; colliding and neutral variant.

Oracle on every text the writer emits: (1) gfortran -fimplicit-none -std=f2008
-fsyntax-only accepts it; (2) an independent text-level reader (mc/c04_text.py):
every referenced name declared / imported exactly once in its program unit, every
name used in a declaration's kind, bounds or initial value declared on an earlier
line; (3) scp / bfs: the colliding text equals the neutral text up to a one-to-one
renaming of identifiers per program unit (otherwise a reference was captured).
A writer exception that is not a PSycloneError (or is an InternalError) after all
transformations were accepted is a violation; clean refusals are counted.
"""
import multiprocessing as mp
import os
import re
import shutil
import sys

from mc import c04_api as api
from mc import c04_core as core
from mc import c04_gfc as gfc
from mc import c04_text as txt
from mc.gen import fprog

ID = "C04"
LEVEL = "model_checking"
EXHAUSTIVE = True
CASE_TIMEOUT = 3600
RULE = ("rw: every program of the fprog declaration corpus (feature sets of size "
        "<= 2, quick; + pairs x snippets and core triples, thorough) is read and "
        "written once; ord: every dependency-closed subset (<= 4 / 5 entities) of a "
        "19-entity pool x every insertion order (+ the orders starting with the kind parameter followed by rename_symbol of it, which moves it to the end) x {routine, module} table; scp: "
        "every subset of {module, routine, loop body, if body, else body} x {x, x_1} "
        "(thorough: + {routine, loop body, if body} x {x_2}) as symbol placements; bfs: every history of <= depth_full "
        "operations of the full alphabet (22 transformations x every matching node) "
        "and <= depth_core operations of the core alphabet on 12 seeds, a history "
        "being extended only by operations the real apply() accepted on the "
        "colliding variant, states de-duplicated on sha1(view() + written text); "
        "psy: 11 algorithm files x {no DM, DM}, text-level oracle only. "
        "evaluations = texts / writer outcomes judged; non-trivial = the writer "
        "emitted text and (rw) the reader accepted the program, (ord) always, (scp) "
        "one name lives in >= 2 scopes, (bfs) the history is not empty; "
        "transitions = writer calls (rw/ord/scp) + operation applications executed "
        "from distinct states (bfs)")
ASSUMPTIONS = [
    "the compiler of the property is gfortran 12 with -fimplicit-none -std=f2008 "
    "-fsyntax-only (-fopenmp / -fopenacc when the text has directives); the "
    "profiling wrapper module is supplied as a stub with the PSyData interface",
    "diagnostics that are other properties' business are ignored: 'Unary operator "
    "following arithmetic operator' (C02: signed operands are written without "
    "parentheses) and diagnostics about the placement of !$OMP / !$ACC directives "
    "(C10); a history never mixes OpenMP and OpenACC transformations",
    "a declaration-corpus program is judged only if gfortran (same flags) and the "
    "text-level reader accept its SOURCE",
    "any PSycloneError other than InternalError raised by FortranWriter is a clean "
    "refusal (counted, allowed); InternalError or a non-PSyclone exception is a crash",
    "a transformation that raises something else than TransformationError is not "
    "C04's business (counted as apply-crash, the history is not extended)",
    "capture is decided by comparing with the neutral variant of the same history; "
    "when the neutral variant takes another path (operation rejected, writer "
    "refuses) or the two texts differ in shape the state is counted as "
    "alpha-incomparable and judged by oracles (1) and (2) only",
]

IGNORED_DIAGNOSTICS = ("Unary operator following arithmetic operator",
                       "!$OMP", "!$ACC", "!$omp", "!$acc")

TIERS = {
    "quick": {"depth_full": 2, "depth_core": 2, "rw_block": 100,
              "ord_block": 250, "scp_block": 64, "bfs_block": 150},
    "thorough": {"depth_full": 2, "depth_core": 3, "rw_block": 100,
                 "ord_block": 250, "scp_block": 256, "bfs_block": 150},
}
#: generated PSy layers (text-level oracle only: the infrastructure modules are
#: not available to the compiler); algorithm files of the repository's test suite
PSY_FILES = {
    "gocean1.0": ("gocean1p0", [
        "single_invoke.f90", "nemolite2d_alg_mod.f90",
        "multi_dependent_invoke.f90", "driver_test.f90",
        "single_invoke_grid_props.f90"]),
    "dynamo0.3": ("dynamo0p3", [
        "1.1.0_single_invoke_xyoz_qr.f90", "1.2_multi_invoke.f90",
        "1.5_single_invoke_fs.f90", "10.1_operator_nofield.f90",
        "15.1.1_builtin_and_normal_kernel_invoke_2.f90",
        "19.1_single_stencil.f90"]),
}
STUBS = ["profile_psy_data_mod"]
KNOWN_MODULES = {"profile_psy_data_mod": {"profile_psydatatype"}}

_STATE = {"tier": None, "states": None, "stats": None}
_SCRATCH = None
_RUNDIR = None


def _cfg(tier):
    """VERIF_C04_DEV="groups=rw,ord;seeds=a,b;full=N;core=M" narrows the space for
    development runs only (recorded in bounds(); never used by registered
    commands)."""
    cfg = dict(TIERS[tier], seeds=list(core.SEED_ORDER),
               groups=["rw", "ord", "scp", "bfs", "psy"])
    dev = os.environ.get("VERIF_C04_DEV")
    if dev:
        for part in dev.split(";"):
            name, _, val = part.partition("=")
            if name == "seeds":
                cfg["seeds"] = [s for s in core.SEED_ORDER
                                if s in val.split(",")]
            elif name == "groups":
                cfg["groups"] = val.split(",")
            elif name == "full":
                cfg["depth_full"] = int(val)
            elif name == "core":
                cfg["depth_core"] = int(val)
        cfg["dev_override"] = dev
    return cfg


def bounds(tier):
    cfg = _cfg(tier)
    return {
        "dev_override": cfg.get("dev_override"),
        "rw_programs": len(fprog.decl_specs(tier)),
        "ord_pool": api.POOL_ORDER,
        "ord_max_entities": api.MAX_ENTITIES[tier],
        "ord_tables": ["routine", "module"],
        "scp_scopes": api.SCOPES,
        "scp_slots": [f"{s}.{n}" for s, n in api.scope_slots(tier)],
        "bfs_seeds": cfg["seeds"],
        "bfs_depth_full": cfg["depth_full"],
        "bfs_depth_core": cfg["depth_core"],
        "bfs_full_alphabet": core.TRANS_ORDER,
        "bfs_core_alphabet": core.CORE,
        "bfs_targets": "every Loop / Assignment / Call / intrinsic call / Loop "
                       "or IfBlock as a one-node region / the routine",
        "caps_hit": [],
    }


def _jobs():
    if "--jobs" in sys.argv:
        try:
            return max(1, int(sys.argv[sys.argv.index("--jobs") + 1]))
        except (ValueError, IndexError):
            pass
    for arg in sys.argv:
        if arg.startswith("--jobs="):
            return max(1, int(arg.split("=", 1)[1]))
    return max(1, int(os.environ.get("VERIF_JOBS", "16")))


# ---------------------------------------------------------------------------
# bfs exploration (parent side, pool of workers)
# ---------------------------------------------------------------------------
def _expand(task):
    """Worker: all operations of the alphabet from one state of the colliding
    variant.  Returns [(op, outcome, digest|None)]."""
    seed, history, only_core = task
    _psyir, routine, outcomes = core.build(seed, "c", history, fast=True)
    if any(o != "ok" for o in outcomes):
        raise RuntimeError(f"history no longer replays: {history} {outcomes}")
    out = []
    names = core.CORE if only_core else None
    for oper in core.enumerate_ops(routine, names, seed, history):
        psyir2, routine2, outc = core.build(seed, "c", list(history) + [oper],
                                            fast=True)
        if outc[-1] != "ok":
            out.append((oper, outc[-1], None))
            continue
        written = core.write(psyir2)
        out.append((oper, "ok", core.state_digest(seed, routine2, written)))
    return out


def _bfs(pool, seeds, depth_full, depth_core):
    states = {}
    frontier = []
    for seed in seeds:
        psyir, routine, _ = core.build(seed, "c", [], fast=True)
        dig = core.state_digest(seed, routine, core.write(psyir))
        states[dig] = {"seed": seed, "h": [], "d": 0, "dg": dig, "ntr": 0,
                       "rej": {}}
        frontier.append(dig)
    for level in range(max(depth_full, depth_core)):
        only_core = level >= depth_full
        tasks = [(states[d]["seed"], states[d]["h"], only_core)
                 for d in frontier]
        chunk = max(1, min(16, len(tasks) // (4 * pool._processes) or 1))
        nxt = []
        for dig, result in zip(frontier,
                               pool.imap(_expand, tasks, chunksize=chunk)):
            rec = states[dig]
            rec["ntr"] = len(result)
            for oper, outcome, child in result:
                if outcome != "ok":
                    key = f"{oper[0]}:{outcome.split(':')[0]}:" \
                          f"{outcome.split(':')[1]}"
                    rec["rej"][key] = rec["rej"].get(key, 0) + 1
                    continue
                if child not in states:
                    states[child] = {"seed": rec["seed"],
                                     "h": rec["h"] + [oper], "d": level + 1,
                                     "dg": child, "ntr": 0, "rej": {}}
                    nxt.append(child)
        frontier = nxt
    return states


def _worker_init():
    import signal
    signal.signal(signal.SIGINT, signal.SIG_IGN)
    os.chdir(_make_rundir())
    core.reset_singletons()


def prepare(tier):
    cfg = _cfg(tier)
    _make_rundir()
    if "bfs" not in cfg["groups"]:
        _STATE.update(tier=tier, states=[], stats={})
        return
    ctx = mp.get_context("fork")
    with ctx.Pool(_jobs(), initializer=_worker_init) as pool:
        found = _bfs(pool, cfg["seeds"], cfg["depth_full"], cfg["depth_core"])
    order = sorted(found.values(),
                   key=lambda r: (r["d"], core.SEED_ORDER.index(r["seed"]),
                                  str(r["h"])))
    _STATE["tier"] = tier
    _STATE["states"] = order
    per_depth = {}
    for rec in order:
        per_depth[f"d{rec['d']}"] = per_depth.get(f"d{rec['d']}", 0) + 1
    _STATE["stats"] = {"bfs_states_per_depth": per_depth}


def cases(tier):
    cfg = _cfg(tier)
    if _STATE["tier"] != tier:
        prepare(tier)
    if "rw" in cfg["groups"]:
        by_cls = {}
        for cls, feats, snips in fprog.decl_specs(tier):
            by_cls.setdefault(cls, []).append([list(feats), list(snips)])
        for cls, progs in by_cls.items():
            step = cfg["rw_block"]
            for start in range(0, len(progs), step):
                yield {"key": f"rw:{cls}:{start // step:04d}", "kind": "rw",
                       "progs": progs[start:start + step]}
    if "ord" in cfg["groups"]:
        items = api.order_items(tier)
        step = cfg["ord_block"]
        for start in range(0, len(items), step):
            yield {"key": f"ord:{start // step:04d}", "kind": "ord",
                   "items": items[start:start + step]}
    if "scp" in cfg["groups"]:
        total = api.scope_count(tier)
        step = cfg["scp_block"]
        for start in range(0, total, step):
            yield {"key": f"scp:{start // step:05d}", "kind": "scp",
                   "tier": tier, "start": start,
                   "stop": min(total, start + step)}
    if "psy" in cfg["groups"]:
        for api_name, (_subdir, files) in PSY_FILES.items():
            for fname in files:
                yield {"key": f"psy:{api_name}:{fname}", "kind": "psy",
                       "api": api_name, "file": fname}
    if "bfs" in cfg["groups"]:
        groups = {}
        for rec in _STATE["states"]:
            groups.setdefault((rec["d"], rec["seed"]), []).append(rec)
        step = cfg["bfs_block"]
        for (depth, seed), recs in groups.items():
            for start in range(0, len(recs), step):
                yield {"key": f"bfs:d{depth}:{seed}:{start // step:04d}",
                       "kind": "bfs", "seed": seed,
                       "states": [{"h": r["h"], "dg": r["dg"], "ntr": r["ntr"],
                                   "rej": r["rej"]}
                                  for r in recs[start:start + step]]}


# ---------------------------------------------------------------------------
# judging (runner workers)
# ---------------------------------------------------------------------------
def _make_rundir():
    global _RUNDIR
    if _RUNDIR is None:
        import atexit
        from mc import runner
        _RUNDIR = runner.scratch_dir("c04")
        atexit.register(shutil.rmtree, _RUNDIR, True)
    return _RUNDIR


def init_worker(_tier):
    global _SCRATCH
    owner = _RUNDIR is None
    base = _make_rundir()
    _SCRATCH = base if owner else os.path.join(base, f"w{os.getpid()}")
    os.makedirs(_SCRATCH, exist_ok=True)
    os.chdir(_SCRATCH)
    core.reset_singletons()
    from mc import c01_rw
    c01_rw.init()


def text_problems(text):
    """Oracle (2) -> list of (sig part, message)."""
    probs, info = txt.check(text, KNOWN_MODULES)
    out = []
    seen = set()
    for prob in probs:
        if prob.kind == "declared-after-use":
            sig = f"text:declared-after-use:{prob.other}<-{prob.name}"
        else:
            sig = f"text:{prob.kind}:{prob.name}"
        if sig in seen:
            continue
        seen.add(sig)
        out.append((sig, f"in {prob.unit}: {prob.detail}"))
    return out, info


def gfc_problems(text, errors):
    """Oracle (1) -> list of (sig part, message)."""
    out = []
    seen = set()
    lines = text.split("\n")
    for line, message in errors:
        if any(ign in message for ign in IGNORED_DIAGNOSTICS):
            continue
        src = lines[line - 1].strip() if line and line <= len(lines) else "?"
        sig = f"gfc:{gfc.slug(message)}:{','.join(gfc.names_in(message))}"
        ent = re.search(r"::\s*([A-Za-z]\w*)", src)
        if ent:
            # the entity declared by the rejected line
            sig += f"@{ent.group(1).lower()}"
        if sig in seen:
            continue
        seen.add(sig)
        out.append((sig, f"gfortran -fimplicit-none -std=f2008 rejects line "
                         f"{line} ('{src}'): {message}"))
    return out


def _gfc_sig(errors):
    return set(f"{gfc.slug(m)}:{','.join(gfc.names_in(m))}"
               for _l, m in errors
               if not any(ign in m for ign in IGNORED_DIAGNOSTICS))


class _Batch:
    """Collects the texts of one work item, compiles them in one gfortran run
    and turns the problems of both oracles into violations."""

    def __init__(self, unit_names):
        self.unit_names = list(unit_names)
        self.items = []       # (key, sig prefix, text, context msg, case)
        self.viol = []
        self.classes = {}
        self.runs = 0
        self.shape_examples = []

    def count(self, name, num=1):
        self.classes[name] = self.classes.get(name, 0) + num

    def add(self, key, prefix, text, context, case, classify=None):
        """classify(sig part) -> signature prefix (mechanism class) or None."""
        self.items.append((key, prefix, text, context, case, classify))

    def violation(self, key, sig, msg, case, group=None):
        self.viol.append({"key": f"{key}#{sig}", "sig": sig, "msg": msg,
                          "case": case, "group": group or sig.split(":")[0]})

    def judge(self, filter_fn=None):
        """-> list (same order as add()) of lists of (sig, msg)."""
        texts = [it[2] for it in self.items]
        results, runs = gfc.compile_batch(
            texts, _SCRATCH, f"{os.getpid()}", self.unit_names, STUBS,
            _gfc_sig)
        self.runs += runs
        verdicts = []
        for (key, prefix, text, context, case, classify), errs in zip(
                self.items, results):
            found = text_problems(text)[0] + gfc_problems(text, errs)
            if filter_fn:
                found = filter_fn(key, case, found)
            verdicts.append(found)
            for sig, msg in found:
                pre = (classify(sig) if classify else None) or prefix
                if isinstance(pre, tuple):
                    pre, sig = pre
                self.violation(
                    key, f"{pre}:{sig}",
                    f"{context}: {msg}. Written text:\n{text}", case)
            self.count("emitted:INVALID" if found else "emitted:accepted")
        return verdicts


def _writer_outcome(batch, key, prefix, written, context, case):
    """Handles refusals and crashes; returns the text or None."""
    if written[0] == "text":
        return written[1]
    if written[0] == "refused":
        batch.count(f"writer-refused:{written[1]}")
        return None
    batch.count(f"writer-crash:{written[1]}")
    batch.violation(
        key, f"{prefix}:writer-crash:{written[1]}@{written[3]}",
        f"{context}: FortranWriter raised {written[1]} ({written[2][:300]}) "
        f"in {written[3]}, which is neither code nor a documented refusal",
        case)
    return None


# ---- rw -----------------------------------------------------------------
_RW_UNITS = ["dmod", "dprog", "uk8"] + [f"um{n}" for n in range(1, 13)] + \
    ["f20ext", "f23ext"]


def _source_ok(source):
    """Is the SOURCE of a corpus program conformant for both oracles?"""
    errs = gfc.compile_alone(source, _SCRATCH, f"src{os.getpid()}")
    if _gfc_sig(errs):
        return False
    return not text_problems(source)[0]


def _run_rw(case):
    from mc import c01_rw
    batch = _Batch(_RW_UNITS)
    nontrivial = 0
    sample = None
    sources = {}
    for feats, snips in case["progs"]:
        prog = fprog.build_decl(tuple(feats), tuple(snips))
        status, text, info = c01_rw.read_write(prog["source"])
        payload = {"kind": "rw", "prog": [feats, snips]}
        if status != "ok":
            if info["stage"] == "read":
                batch.count(f"reader-rejected:{info['type']}")
            elif status == "refusal":
                batch.count(f"writer-refused:{info['type']}")
            else:
                batch.count(f"writer-crash:{info['type']}")
                batch.violation(
                    prog["key"], f"rw:writer-crash:{info['type']}@"
                    f"{info['where']}",
                    f"program {prog['key']}: FortranWriter raised "
                    f"{info['type']} ({info['msg'][:300]}) for a tree the "
                    f"reader produced. Source:\n{prog['source']}", payload)
            continue
        nontrivial += 1
        sources[prog["key"]] = prog["source"]
        batch.add(prog["key"], "rw", text,
                  f"program {prog['key']} (read + written)", payload)
        if sample is None:
            sample = {"group": "rw", "program": prog["key"],
                      "written_lines": text.count("\n")}

    # every name of the corpus (features carry their number, used modules are
    # um<n>/uk8) is made unique per text: gfortran resolves forward-referenced
    # derived types through names of OTHER modules of the same file
    names = set(_RW_UNITS)
    for item in batch.items:
        names |= set(re.findall(r"\b(?:f\d+[a-z]\w*|u\d+[a-z]\w*)\b",
                                item[2].lower()))
    batch.unit_names = sorted(names)

    def only_conformant(key, _case, found):
        if found and not _source_ok(sources[key]):
            batch.count("source-not-conformant")
            return []
        return found

    batch.judge(only_conformant)
    return batch, len(case["progs"]), nontrivial, len(case["progs"]), sample


# ---- ord ----------------------------------------------------------------
def _run_ord(case):
    batch = _Batch(["c04s", "c04m"])
    sample = None
    nontrivial = 0
    for item in case["items"]:
        scope, subset, perm = item[:3]
        rename = bool(item[3]) if len(item) > 3 else False
        key = api.order_key(scope, subset, perm, rename)
        root = api.build_order(scope, tuple(subset), tuple(perm), rename)
        written = core.write(root)
        payload = {"kind": "ord", "item": [scope, subset, perm, rename]}
        context = (f"{'routine' if scope == 'r' else 'module'} table with "
                   f"{', '.join(subset[i] for i in perm)} added in this order"
                   + (f", then kp renamed to {api.RENAMED_KIND} with "
                      f"rename_symbol (moved to the end)" if rename else ""))
        text = _writer_outcome(batch, key, "ord", written, context, payload)
        if text is None:
            continue
        nontrivial += 1
        batch.add(key, "ord", text, context, payload)
        if sample is None:
            sample = {"group": "ord", "order": key,
                      "written": text.strip().split("\n")}
    batch.judge()
    num = len(case["items"])
    return batch, num, nontrivial, num, sample


# ---- scp ----------------------------------------------------------------
def _shadow_class(config, name):
    """The input class 'an inner Schedule declares <name>, the module declares
    <name>, the routine does not': the routine-level code refers to the module
    symbol while an inner scope has its own symbol of that name."""
    scopes = set(s for s, n in config if n == name)
    return "M" in scopes and "R" not in scopes and \
        bool(scopes & {"L", "I1", "I2"})


def _alpha(batch, key, prefix, text_c, written_n, context, case, classify):
    """Oracle (3)."""
    if written_n is None or written_n[0] != "text":
        batch.count("alpha:incomparable-neutral-path-differs")
        return None
    res = txt.alpha_compare(text_c, written_n[1])
    if res["status"] == "capture":
        batch.count("alpha:CAPTURE")
        sig = classify(res['name'])
        batch.violation(
            key, sig,
            f"{context}: the written text is not a one-to-one renaming of the "
            f"text written for the same program with unique names: "
            f"{res['detail']}. A reference is bound to another entity than in "
            f"the tree. Written text:\n{text_c}\nWith unique names:\n"
            f"{written_n[1]}", case)
        return res["name"]
    if res["status"] == "structure":
        batch.count("alpha:incomparable-shape-differs")
        batch.shape_examples.append(f"{key}: {res['detail']}"[:200])
    else:
        batch.count(f"alpha:{res['status']}")
    return None


def _run_scp(case):
    batch = _Batch(["c04s", "c04m"])
    tier = case["tier"]
    nontrivial = 0
    sample = None
    for index in range(case["start"], case["stop"]):
        config = api.scope_config(tier, index)
        key = api.scope_key(config)
        payload = {"kind": "scp", "config": [list(c) for c in config]}
        written = {v: core.write(api.build_scopes(config, v)) for v in "cn"}
        context = f"symbols placed at {key[4:]}"
        text = _writer_outcome(batch, key, "scp", written["c"], context,
                               payload)
        if text is None:
            continue
        names = [n for _s, n in config]
        if len(set(names)) < len(names):
            nontrivial += 1

        def classify(name, config=config):
            if _shadow_class(config, name):
                return f"scp:capture:{name}:inner-symbol-shadows-module-symbol"
            return f"scp:capture:{name}:" + ",".join(f"{s}.{n}"
                                                     for s, n in config)

        _alpha(batch, key, "scp", text, written["n"], context, payload,
               classify)
        batch.add(key, "scp", text, context, payload)
        if sample is None and len(config) >= 4:
            sample = {"group": "scp", "config": key,
                      "written": text.strip().split("\n")}
    batch.judge()
    num = case["stop"] - case["start"]
    return batch, num, nontrivial, 2 * num, sample


# ---- bfs ----------------------------------------------------------------
def _in_psydata_scope(psyir, name):
    """Input class: the (pre-write) tree declares a symbol of this name in the
    symbol table of the Schedule of a PSyData (profiling) region."""
    # pylint: disable=import-outside-toplevel
    from psyclone.psyir.nodes import PSyDataNode, Schedule
    for sched in psyir.walk(Schedule):
        if isinstance(sched.parent, PSyDataNode) and \
                name.lower() in sched.symbol_table.symbols_dict:
            return True
    return False


def _declared_in_routine_and_module(text, name):
    """Class test on the written text: the name is declared both in a module
    and in one of its routines."""
    for top in txt.parse(text):
        if top.kind != "module" or name not in top.declared():
            continue
        if any(name in sub.declared() for sub in top.children):
            return True
    return False


def _run_bfs(case):
    seed = case["seed"]
    batch = _Batch(core.UNIT_NAMES)
    transitions = 0
    nontrivial = 0
    sample = None
    for rec in case["states"]:
        history = rec["h"]
        transitions += rec["ntr"]
        for name, num in rec["rej"].items():
            trans, kind, what = name.split(":", 2)
            batch.count(f"apply-{'rejected' if kind == 'rej' else 'crash'}:"
                        f"{what}", num)
        batch.count("apply-accepted", rec["ntr"] - sum(rec["rej"].values()))
        psyir, routine, outcomes = core.build(seed, "c", history)
        if any(o != "ok" for o in outcomes):
            raise RuntimeError(f"{seed} {history}: replay gave {outcomes}")
        written = core.write(psyir)
        if core.state_digest(seed, routine, written) != rec["dg"]:
            raise RuntimeError(f"{seed} {history}: replay reached a different "
                               f"state than the explorer (nondeterminism)")
        hist = core.hist_str(history)
        shape = core.hist_shape(history)
        key = f"bfs:{seed}:{hist}"
        prefix = f"bfs:{seed}:{shape}"
        payload = {"kind": "bfs", "seed": seed, "history": history}
        context = (f"seed '{seed}', history [{hist}] (every apply() was "
                   f"accepted)")
        text = _writer_outcome(batch, key, prefix, written, context, payload)
        if text is None:
            continue
        if history:
            nontrivial += 1
        psyir_n, _rn, out_n = core.build(seed, "n", history, fast=True)
        written_n = core.write(psyir_n) if all(o == "ok" for o in out_n) \
            else None

        def cap_class(name, text=text, prefix=prefix):
            if _declared_in_routine_and_module(text, name):
                return (f"bfs:local-shadows-module-symbol:{name}:"
                        f"capture")
            return f"{prefix}:capture:{name}"

        captured = _alpha(batch, key, prefix, text, written_n, context,
                          payload, cap_class)

        def classify(sig, psyir=psyir, text=text, captured=captured):
            mat = re.match(r"^(text:undeclared|gfc:symbol-X-has-no-implicit"
                           r"-type):(\w+)$", sig)
            if mat and _in_psydata_scope(psyir, mat.group(2)):
                # the class test names the mechanism; the symbol's name is
                # left out of the signature
                return ("bfs:symbol-in-psydata-region-scope", mat.group(1))
            if captured and _declared_in_routine_and_module(text, captured):
                return f"bfs:local-shadows-module-symbol:{captured}"
            return None

        batch.add(key, prefix, text, context, payload, classify)
        if sample is None and history:
            decls = [ln.strip() for ln in text.split("\n") if "::" in ln]
            sample = {"group": "bfs", "seed": seed, "history": hist,
                      "declarations": decls}
    batch.judge()
    num = len(case["states"])
    return batch, num, nontrivial, transitions + 2 * num, sample


# ---- psy ----------------------------------------------------------------
def _run_psy(case):
    """Generated PSy layer (with and without distributed memory): oracle (2)
    only."""
    # pylint: disable=import-outside-toplevel
    from psyclone.configuration import Config
    from psyclone.errors import PSycloneError
    from psyclone.parse.algorithm import parse
    from psyclone.psyGen import PSyFactory
    batch = _Batch([])
    api_name, fname = case["api"], case["file"]
    repo = os.environ.get("VERIF_REPO", "/repo")
    path = os.path.join(repo, "src", "psyclone", "tests", "test_files",
                        PSY_FILES[api_name][0], fname)
    nontrivial = 0
    sample = None
    for dist_mem in (False, True):
        key = f"psy:{api_name}:{fname}:dm={int(dist_mem)}"
        payload = dict(case)
        Config._instance = None
        try:
            Config.get().api = api_name
            _, info = parse(path, api=api_name)
            psy = PSyFactory(api_name,
                             distributed_memory=dist_mem).create(info)
            text = str(psy.gen)
        except PSycloneError as err:
            batch.count(f"generation-refused:{type(err).__name__}")
            continue
        finally:
            Config._instance = None
        nontrivial += 1
        found, info = text_problems(text)
        batch.count("emitted:INVALID" if found else "emitted:accepted")
        for sig, msg in found:
            batch.violation(key, f"psy:{api_name}:{fname}:{sig}",
                            f"PSy layer generated for {fname} "
                            f"(distributed_memory={dist_mem}): {msg}", payload)
        if sample is None:
            sample = {"group": "psy", "api": api_name, "file": fname,
                      "units": info["units"],
                      "declarations": info["declarations"],
                      "references": info["references"]}
    return batch, 2, nontrivial, 2, sample


_RUN = {"rw": _run_rw, "ord": _run_ord, "scp": _run_scp, "bfs": _run_bfs,
        "psy": _run_psy}


def run_case(case):
    batch, evals, nontrivial, transitions, sample = _RUN[case["kind"]](case)
    sig_counts = {}
    for vio in batch.viol:
        sig_counts[vio["sig"]] = sig_counts.get(vio["sig"], 0) + 1
    classes = {f"{case['kind']}:{k}": v for k, v in batch.classes.items()}
    out = {"evals": evals, "nontrivial": nontrivial, "states": evals,
           "transitions": transitions, "validated": evals, "classes": classes,
           "viol": batch.viol,
           "extra": {"gfortran_runs": batch.runs,
                     "violation_signatures": sig_counts,
                     f"{case['kind']}_elements": evals}}
    examples = batch.shape_examples
    if examples:
        out["extra"]["alpha_shape_difference_examples"] = examples[:3]
    if sample:
        out["sample"] = sample
    return out


def finish(tier, _totals):
    return dict(_STATE["stats"] or {})


def replay(case):
    """Re-executes one element from its payload, compiled alone."""
    if _SCRATCH is None:
        init_worker("quick")
    kind = case["kind"]
    if kind == "psy":
        sub = case
    elif kind == "rw":
        sub = {"kind": "rw", "progs": [case["prog"]]}
    elif kind == "ord":
        sub = {"kind": "ord", "items": [case["item"]]}
    elif kind == "scp":
        config = [tuple(c) for c in case["config"]]
        index = api.scope_index(config)
        sub = {"kind": "scp", "tier": "thorough", "start": index,
               "stop": index + 1}
    else:
        seed, history = case["seed"], case["history"]
        psyir, routine, outcomes = core.build(seed, "c", history)
        if any(o != "ok" for o in outcomes):
            return {"seed": seed, "history": core.hist_str(history),
                    "apply_outcomes": outcomes, "viol": [],
                    "note": "an operation of the history is now rejected"}
        dig = core.state_digest(seed, routine, core.write(psyir))
        sub = {"kind": "bfs", "seed": seed,
               "states": [{"h": history, "dg": dig, "ntr": 0, "rej": {}}]}
    batch = _RUN[kind](sub)[0]
    return {"classes": batch.classes,
            "viol": [{"sig": v["sig"], "msg": v["msg"]} for v in batch.viol]}
