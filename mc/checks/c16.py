"""C16 Symbol tables keep names unique and lookups scoped.

Explicit-state breadth-first search over REAL SymbolTable objects attached to
three nested scopes (Container > Routine > Schedule) plus one detached table.
A state is the operation history that reaches it; ``build(hist)`` makes fresh
objects and replays. States are de-duplicated on an identity-normalised
fingerprint (mc.c16_model.canon). Every operation of the alphabet is executed
from every distinct state up to the depth bound of each space, and judged
against a dict-of-scopes reading of the tables (mc.c16_model).
"""
import multiprocessing as mp
import os
import sys

from mc import c16_model as M

ID = "C16"
LEVEL = "model_checking"
EXHAUSTIVE = True
CASE_TIMEOUT = 1500
RULE = (
    "per space: BFS from the initial world (Container>Routine>Schedule tables + "
    "one detached table); a state = operation history, de-duplicated on an "
    "identity-normalised fingerprint of all four tables; from EVERY distinct "
    "state at depth < D every enabled operation of the space's alphabet is "
    "executed on freshly built real objects (evaluations = executed (state, "
    "operation) pairs, all distinct by construction); a pair is non-trivial "
    "when the operation changed some table or was rejected by PSyclone "
    "(accepted no-ops are trivial). Successors that violate anything are "
    "reported and not expanded further. 'states' = distinct states expanded "
    "(each judged once) ; final-level successors are judged once per work item "
    "(coverage.final_level_state_checks).")
ASSUMPTIONS = [
    "a symbol object is owned by one live table: add/swap always receive a "
    "newly created symbol, and after a successful merge the source table is "
    "discarded and replaced by an empty one on the same scope (as InlineTrans "
    "does)",
    "only the property text is judged: case-insensitive uniqueness per table "
    "(read from symbol.name, not from the dict keys); lookup (with and without "
    "scope_limit) and lookup_with_tag return the entry of the innermost "
    "enclosing scope (scopes read from node.parent; nothing is judged across a "
    "ScopingNode that currently has no table; a tag must map to a symbol of "
    "the table holding the tag); names from next_available_name / new_symbol / "
    "find_or_create[_tag] clash with nothing in self [+ enclosing scopes unless "
    "shadowing=True] + other_table; merge leaves every own symbol in place, "
    "adds every non-skipped symbol once or leaves an equivalent "
    "container/import/unresolved symbol of that name, and renames only symbols "
    "whose name clashed; any raising operation (incl. check_for_clashes) leaves "
    "every table, tag map, argument list, table<->node link and symbol "
    "descriptor unchanged; Routine.copy() yields scopes with the same two "
    "guarantees. Over-rejection, tag transfer on swap/merge, the fate of "
    "skipped symbols and argument-list consistency are not judged",
    "copy_external_import is treated as a symbol-table operation (add of an "
    "imported symbol with a tag)",
    "the Routine's own symbol 'r' is part of the initial state but never an "
    "operation target",
    "fingerprints are 128-bit BLAKE2 digests of the canonical form",
]

NAMES5 = ["a", "A", "b", "a_1", "B"]

SPACES = [
    # every family, full parameter domains, shallow
    {"tag": "wide", "depth": {"quick": 2, "thorough": 2},
     "slots": [0, 1, 2, 3], "names": NAMES5, "tags": ["t", "u"],
     "roots": [None, "a", "A", "b", "a_1"],
     "fam": {
         "add": {"kinds": list(M.KINDS), "tags": [None, "t", "u"]},
         "new": {"roots": [None, "a", "A", "b", "a_1"], "shadow": [False, True],
                 "variants": [["sym", None, True], ["sym", "t", True],
                              ["sym", "u", True], ["sym", None, False],
                              ["imp", None, True], ["loc", None, True]]},
         "foc": {"kinds": ["sym", "loc"]},
         "foct": {"tags": ["t", "u"], "roots": [None, "a", "B"]},
         "cei": {"names": ["a", "B"], "tags": [None, "t"],
                 "containers": ["b", "a_1"]},
         "rename": {"foreign": "b"},
         "remove": {"foreign": True},
         "swap": {"kinds": ["sym", "cont", "rout", "loc"], "other_name": True},
         "swapp": {},
         "args": {"modes": ["all", "rev", "none", "bad"]},
         "merge": {"skip": True},
         "attach": {},
         "copy": {},
     }},
    # nested scopes: names differing only in case, tags, generated names
    {"tag": "scopes", "depth": {"quick": 4, "thorough": 6},
     "slots": [0, 1, 2], "names": ["a", "A", "a_1"], "tags": ["t"],
     "roots": ["a", "A"],
     "fam": {
         "add": {"kinds": ["sym"], "tags": [None, "t"]},
         "new": {"roots": ["a"], "shadow": [False, True],
                 "variants": [["sym", None, True], ["sym", "t", True]]},
         "foct": {"tags": ["t"], "roots": ["a"]},
         "rename": {},
         "remove": {},
     }},
    # merging a detached table into the Routine table
    {"tag": "merge", "depth": {"quick": 4, "thorough": 5},
     "slots": [1, 3], "names": ["a", "A", "b"], "tags": [],
     "roots": ["a", "b"],
     "fam": {
         "add": {"kinds": ["loc", "arg", "unres", "imp", "cont", "contw"],
                 "tags": [None]},
         "merge": {"skip": True},
     }},
    # merge renaming: case variants and names that collide with generated ones
    {"tag": "merge_names", "depth": {"quick": 4, "thorough": 6},
     "slots": [1, 3], "names": ["a", "A", "a_1", "a_2"], "tags": [],
     "roots": ["a", "A"],
     "fam": {
         "add": {"kinds": ["loc", "arg"], "tags": [None]},
         "merge": {"skip": True},
     }},
    # merging below an outer scope that has wildcard imports / unresolved names
    {"tag": "merge_outer", "depth": {"quick": 4, "thorough": 6},
     "slots": [0, 1, 3], "names": ["a", "b"], "tags": [],
     "roots": ["a", "b"],
     "fam": {
         "add": {"kinds": ["loc", "unres", "imp", "contw"], "tags": [None]},
         "merge": {"skip": False},
     }},
    # every family with reduced parameter domains, one level deeper than wide
    {"tag": "mid", "depth": {"thorough": 3},
     "slots": [1, 2, 3], "names": ["a", "A", "b"], "tags": ["t"],
     "roots": ["a", "b"],
     "fam": {
         "add": {"kinds": ["sym", "unres", "loc", "arg", "imp", "cont", "contw",
                           "rout"], "names": ["a", "b"], "tags": [None, "t"]},
         "new": {"roots": ["a", "A"], "shadow": [False, True],
                 "variants": [["sym", "t", True], ["sym", None, False],
                              ["imp", None, True]]},
         "foc": {"names": ["A"], "kinds": ["sym", "loc"]},
         "foct": {"tags": ["t"], "roots": [None, "a"]},
         "cei": {"names": ["a"], "tags": [None, "t"], "containers": ["b"]},
         "rename": {"names": ["A", "b"], "foreign": "b"},
         "remove": {"foreign": True},
         "swap": {"kinds": ["sym", "cont"], "other_name": False},
         "swapp": {},
         "args": {"modes": ["all", "rev", "none", "bad"]},
         "merge": {"skip": True},
         "attach": {},
         "copy": {},
     }},
    # one table: swap, property swap, argument list, copy, remove, rename
    {"tag": "single", "depth": {"quick": 3, "thorough": 4},
     "slots": [1, 3], "names": ["a", "A", "b"], "tags": ["t"],
     "roots": ["a", "b"],
     "fam": {
         "add": {"kinds": ["sym", "loc", "arg", "cont", "rout", "imp"],
                 "names": ["a", "b"], "tags": [None, "t"]},
         "rename": {"names": ["A", "b"]},
         "remove": {},
         "swap": {"kinds": ["sym", "cont"], "other_name": False},
         "swapp": {},
         "args": {"modes": ["all", "rev", "none", "bad"]},
         "copy": {},
         "cei": {"names": ["a"], "tags": [None, "t"], "containers": ["b"]},
     }},
    # moving tables between scopes
    {"tag": "attach", "depth": {"quick": 4, "thorough": 6},
     "slots": [0, 1, 2, 3], "names": ["a", "A"], "tags": ["t"],
     "roots": ["a"],
     "fam": {
         "add": {"kinds": ["sym"], "names": ["a"], "tags": [None, "t"]},
         "new": {"roots": ["A"], "shadow": [False],
                 "variants": [["sym", None, True]]},
         "attach": {},
     }},
]


# Development only (triage of seeded changes): C16_SPACES=scopes,merge restricts
# a run to the named spaces; the evidence then lists only those.
if os.environ.get("C16_SPACES"):
    _only = os.environ["C16_SPACES"].split(",")
    SPACES = [spc for spc in SPACES if spc["tag"] in _only]


def _space(tag):
    for spc in SPACES:
        if spc["tag"] == tag:
            return spc
    raise M.Harness(f"unknown space {tag}")


def bounds(tier):
    out = []
    for spc in SPACES:
        if tier not in spc["depth"]:
            continue
        out.append({"space": spc["tag"], "max_history_length": spc["depth"][tier],
                    "slots": spc["slots"], "names": spc["names"],
                    "tags": spc["tags"],
                    "operation_families": {k: v for k, v in spc["fam"].items()},
                    "states_expanded": len(_STATES.get(spc["tag"], []))})
    return {"spaces": out,
            "scopes": "Container 'c' > Routine 'r' > IfBlock > Schedule; slot 3 "
                      "starts detached"}


# ---------------------------------------------------------------------------
def opstr(oper):
    return ".".join("~" if x is None else ("T" if x is True else
                                           ("F" if x is False else str(x)))
                    for x in oper)


def histstr(hist):
    return ";".join(opstr(o) for o in hist)


def build(hist):
    wld = M.World()
    for oper in hist:
        out = M.apply_op(wld, oper)
        if oper[0] == "merge" and out.ok:
            M.consume_merge_source(wld, oper)
    return wld


def expand(space, hist, known=None, collect=True, judge_new=True):
    """Executes every enabled operation from the state reached by ``hist``.
    Returns a dict with successors [(op, digest)], viol, counters."""
    res = {"succ": [], "viol": [], "evals": 0, "nontrivial": 0,
           "classes": {}, "by_op": {}, "stats": {}, "final_checks": 0,
           "sample": None}
    cache = {}
    wld = build(hist)
    pre = M.snapshot(wld)
    after = hist[-1][0] if hist else "init"
    key0 = f"{space['tag']}:{histstr(hist)}"
    if collect:
        # the expanded state itself is judged exactly once, here
        sviol, stats = M.judge_state(space, wld, pre, after)
        _acc(res["stats"], stats)
        for sig, msg in sviol:
            res["viol"].append({"key": key0 + "|state", "sig": sig, "msg": msg,
                                "case": {"space": space["tag"],
                                         "hist": list(hist), "op": None}})
    ops = M.enabled_ops(space, wld)
    clean = True
    for oper in ops:
        if not clean:
            wld = build(hist)
            pre = M.snapshot(wld)
            clean = True
        chn = M.chain(wld, oper[1])
        out = M.apply_op(wld, oper)
        post = M.snapshot(wld)
        viol = M.judge_transition(wld, oper, pre, post, out, chn)
        if oper[0] == "merge" and out.ok:
            M.consume_merge_source(wld, oper)
            post = M.snapshot(wld)
        changed = not pre.same(post)
        res["evals"] += 1
        cls = ("rejected:" + out.exc) if not out.ok else (
            "accepted-changed" if changed else "accepted-unchanged")
        res["classes"][cls] = res["classes"].get(cls, 0) + 1
        bop = res["by_op"].setdefault(oper[0], {"accepted": 0, "rejected": 0})
        bop["accepted" if out.ok else "rejected"] += 1
        if changed or not out.ok:
            res["nontrivial"] += 1
        dig = None
        if changed:
            clean = False
            if not viol:
                dig = M.digest(M.canon(post))
                if not judge_new:
                    pass                      # frontier computation: later
                elif known is not None and dig in known:
                    pass                      # judged where it is expanded
                elif dig in cache:
                    if cache[dig]:
                        dig = None            # known-violating state: pruned
                else:
                    sviol, stats = M.judge_state(space, wld, post, oper[0])
                    _acc(res["stats"], stats)
                    res["final_checks"] += 1
                    cache[dig] = bool(sviol)
                    for sig, msg in sviol:
                        viol.append((sig, msg))
        if viol:
            dig = None
            for sig, msg in viol:
                res["viol"].append({
                    "key": f"{key0}|{opstr(oper)}", "sig": sig, "msg": msg,
                    "case": {"space": space["tag"], "hist": list(hist),
                             "op": oper}})
        elif dig is not None:
            res["succ"].append((oper, dig))
        if res["sample"] is None and (res["evals"] * 7 + len(hist)) % 53 == 5:
            res["sample"] = {"space": space["tag"],
                             "history": [opstr(o) for o in hist],
                             "operation": opstr(oper), "outcome": cls,
                             "state_after": M.show(post)}
    return res


def _acc(tot, add):
    for key, val in add.items():
        tot[key] = tot.get(key, 0) + val


# ---------------------------------------------------------------------------
# frontier computation (parent, before the work is sharded)
# ---------------------------------------------------------------------------
_STATES = {}     # space tag -> list of histories (tuples of ops) at depth < D
_KNOWN = {}      # space tag -> set of digests of those states


def _jobs():
    argv = sys.argv
    for pos, arg in enumerate(argv):
        if arg == "--jobs" and pos + 1 < len(argv):
            return max(1, int(argv[pos + 1]))
        if arg.startswith("--jobs="):
            return max(1, int(arg.split("=", 1)[1]))
    return max(1, int(os.environ.get("VERIF_JOBS", "16")))


def _prep_succ(arg):
    """(space tag, history) -> [(op, digest)] of the unjudged-state successors
    whose transition is clean."""
    tag, hist = arg
    res = expand(_space(tag), hist, known=None, collect=False, judge_new=False)
    return res["succ"]


def _prep_judge(arg):
    """(space tag, history) -> True when the state violates an invariant."""
    tag, hist = arg
    spc = _space(tag)
    wld = build(hist)
    sviol, _st = M.judge_state(spc, wld, M.snapshot(wld), hist[-1][0])
    return bool(sviol)


def prepare(tier):
    """Level-by-level BFS down to depth D-1 of every space: the list of
    distinct, violation-free states that the work items then expand. The
    verdicts found here are thrown away; every transition is executed and
    judged again (and reported) by run_case."""
    _STATES.clear()
    _KNOWN.clear()
    jobs = _jobs()
    pool = mp.get_context("fork").Pool(jobs) if jobs > 1 else None

    def pmap(func, items):
        if pool is None or len(items) < 32:
            return [func(it) for it in items]
        return pool.map(func, items, chunksize=max(1, len(items) // (jobs * 8)))

    try:
        for spc in SPACES:
            if tier not in spc["depth"]:
                continue
            tag = spc["tag"]
            root = ()
            known = {M.digest(M.canon(M.snapshot(build(root))))}
            states = [root]
            frontier = [root]
            for _lvl in range(1, spc["depth"][tier]):
                succs = pmap(_prep_succ, [(tag, h) for h in frontier])
                cand = {}
                for hist, succ in zip(frontier, succs):
                    for oper, dig in succ:
                        if dig not in known and dig not in cand:
                            cand[dig] = hist + (oper,)
                bad = pmap(_prep_judge, [(tag, h) for h in cand.values()])
                nxt = []
                for (dig, hist), isbad in zip(cand.items(), bad):
                    if not isbad:
                        known.add(dig)
                        nxt.append(hist)
                states += nxt
                frontier = nxt
            _STATES[tag] = states
            _KNOWN[tag] = known
    finally:
        if pool is not None:
            pool.close()
            pool.join()


def cases(tier):
    total = sum(len(_STATES[spc["tag"]]) for spc in SPACES
                if tier in spc["depth"])
    size = max(1, -(-total // 3000))
    for spc in SPACES:
        if tier not in spc["depth"]:
            continue
        states = _STATES[spc["tag"]]
        for start in range(0, len(states), size):
            stop = min(len(states), start + size)
            yield {"key": f"{spc['tag']}:{start:07d}", "space": spc["tag"],
                   "lo": start, "hi": stop}


def init_worker(_tier):
    os.environ.setdefault("PSYCLONE_CONFIG", "/repo/config/psyclone.cfg")


def run_case(case):
    spc = _space(case["space"])
    states = _STATES[case["space"]]
    known = _KNOWN[case["space"]]
    tot = {"evals": 0, "nontrivial": 0, "states": 0, "transitions": 0,
           "validated": 0, "classes": {}, "viol": [],
           "extra": {"by_operation": {}, "observer_calls": {},
                     "final_level_state_checks": 0, "max_depth": 0}}
    for idx in range(case["lo"], case["hi"]):
        hist = states[idx]
        res = expand(spc, hist, known=known)
        tot["evals"] += res["evals"]
        tot["nontrivial"] += res["nontrivial"]
        tot["states"] += 1
        tot["transitions"] += res["evals"]
        tot["validated"] += res["evals"]
        _acc(tot["classes"], res["classes"])
        tot["viol"] += res["viol"]
        for name, cnt in res["by_op"].items():
            for k, v in cnt.items():
                kk = f"{name}:{k}"
                tot["extra"]["by_operation"][kk] = \
                    tot["extra"]["by_operation"].get(kk, 0) + v
        _acc(tot["extra"]["observer_calls"], res["stats"])
        tot["extra"]["final_level_state_checks"] += res["final_checks"]
        if res["sample"] is not None and "sample" not in tot:
            tot["sample"] = res["sample"]
    return tot


def finish(_tier, totals):
    # one report per (failing element, signature)
    seen = set()
    uniq = []
    for vio in totals["viol"]:
        ident = (vio.get("key"), vio.get("sig"))
        if ident not in seen:
            seen.add(ident)
            uniq.append(vio)
    totals["viol"][:] = uniq
    totals["extra"].pop("max_depth", None)
    return {}


def replay(case):
    spc = _space(case["space"])
    hist = tuple(tuple(o) if False else o for o in case["hist"])
    oper = case.get("op")
    wld = build(hist)
    pre = M.snapshot(wld)
    out = {"space": case["space"], "history": [opstr(o) for o in hist],
           "state_before": M.show(pre), "viol": []}
    if oper is None:
        sviol, _st = M.judge_state(spc, wld, pre, hist[-1][0] if hist else "init")
        out["viol"] = [{"sig": s, "msg": m} for s, m in sviol]
        return out
    chn = M.chain(wld, oper[1])
    res = M.apply_op(wld, oper)
    post = M.snapshot(wld)
    viol = M.judge_transition(wld, oper, pre, post, res, chn)
    if oper[0] == "merge" and res.ok:
        M.consume_merge_source(wld, oper)
        post = M.snapshot(wld)
    out["operation"] = opstr(oper)
    out["outcome"] = ("rejected:" + res.exc) if not res.ok else "accepted"
    out["state_after"] = M.show(post)
    if not viol and not pre.same(post):
        sviol, _st = M.judge_state(spc, wld, post, oper[0])
        viol += sviol
    out["viol"] = [{"sig": s, "msg": m} for s, m in viol]
    return out
