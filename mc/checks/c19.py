"""C19 PSyAD adjoints are the exact transpose of the tangent-linear code.

Every tangent-linear kernel of the enumerated corpus (mc.gen.c19_kernels) x
every choice of active variables that makes it legal tangent-linear code is
given to the real ``psyclone.psyad.tl2ad.generate_adjoint_str``.  The written
adjoint and the tangent-linear source are parsed again and both executed by
the exact E1 interpreter on every unit vector of the active state for every
passive valuation: the adjoint's matrix must be the transpose of the
tangent-linear matrix (mc.c19_eval).  The thorough tier also compiles and runs
the generated test harness of every kernel of the quick corpus.
"""
import contextlib
import io
import os

from mc.gen import c19_kernels as G

ID = "C19"
LEVEL = "model_checking"
EXHAUSTIVE = True
CASE_TIMEOUT = 3600
RULE = ("kernels = mc.gen.c19_kernels.corpus(tier): families A..G, each the full "
        "product of its listed parameter sets (1-3 term assignments over active "
        "xa, ya, u(i), u(i-1), u(i+1), v(i), w(i,j) with passive coefficients "
        "2.0, p, q(i), -, p*q(i), /p, /q(i); loops 1..n, n..1:-1, 2..n-1, 1..n:2, "
        "2..n:2, m-n..n:3, m-1..1:-3 [thorough: n..1:-2, inner 1..i], nested once; "
        "IF blocks on passive conditions with/without ELSE; sequences of <=2 "
        "[thorough <=3] assignments spread over those containers; array-notation "
        "statements; bodies with local active variables) x every non-empty set of the "
        "real variables of the body for which the body is legal tangent-linear "
        "code; one element = (kernel, active set); it is non-trivial when PSyAD "
        "accepts it and the tangent-linear map differs from the identity; each "
        "accepted element is executed on every unit vector, 2*unit vector, the "
        "sum of the unit vectors and a prime-weighted vector of the active state "
        "for p in {2,-3} x n in 1..4 (only the valuations the body can observe; the "
        "2*unit/sum/weighted vectors for the largest n)")
ASSUMPTIONS = [
    "E1 (mc/fortsem) over Fractions is the reference semantics of the "
    "tangent-linear source and of the adjoint source (both parsed with "
    "psyclone's FortranReader)",
    "a kernel is in the domain only if the body is syntactically of the documented "
    "tangent-linear form for the chosen active set AND the E1 run of the "
    "tangent-linear code is linear on the test vectors (a disagreement is a "
    "harness error)",
    "PSyAD issue #1458 (documented): bodies that write a passive variable which "
    "active code also reads are counted and not run",
    "passive variables: one that no statement of the kernel assigns must be left "
    "unchanged by the adjoint code; a passive variable that the kernel itself "
    "recomputes is only recorded when the two codes disagree (loop reversal)",
    "TangentLinearError, NotImplementedError and VisitorError are clean refusals; "
    "any other exception is counted as a crash and not judged (the text only "
    "speaks about accepted kernels)",
    "thorough tier: the generated harness is compiled unmodified with gfortran; "
    "libgfortran's random_number is replaced at link time by a deterministic "
    "generator of multiples of 1/16 so that the verdict is reproducible",
]
BLOCK = 3


def bounds(tier):
    sizes = G.family_sizes(tier)
    out = {"families": sizes, "kernels": sum(sizes.values()),
           "passive_valuations": "p in {2,-3} (if p is passive in the body) x n in "
                                 "1..4 (if the body has a loop); q(0:5) = 3/2, 1/4, "
                                 "5/2, 3/8, 7/2, -1/2",
           "arrays": "q, u, v (0:m), w(0:m,0:m), m = n + 1",
           "test_vectors": "0, e_k, 2*e_k, sum e_k, sum prime_k*e_k"}
    if tier == "thorough":
        out["harness"] = ("generated test harness of every accepted (kernel, "
                          "active set) of the quick corpus compiled and run")
    return out


_CORPUS = {}


def _corpus(tier):
    if tier not in _CORPUS:
        _CORPUS[tier] = G.corpus(tier)
    return _CORPUS[tier]


def cases(tier):
    kernels = _corpus(tier)
    for start in range(0, len(kernels), BLOCK):
        yield {"key": f"blk{start:06d}", "start": start,
               "stop": min(len(kernels), start + BLOCK)}


_TIER = "quick"
_BASE = None        # scratch directory of the run (made by the parent)
_SCRATCH = None     # private sub-directory of this worker
_RANDOM_OBJ = None
_QUICK_KEYS = frozenset()


def _remove_base(path, owner):
    import shutil
    if os.getpid() == owner:
        shutil.rmtree(path, ignore_errors=True)


def prepare(_tier):
    """Parent side: one scratch directory per run, removed by finish() (or at
    exit of the parent if the run aborts)."""
    global _BASE
    import atexit
    from mc import runner
    _BASE = runner.scratch_dir("c19")
    atexit.register(_remove_base, _BASE, os.getpid())


def finish(_tier, _totals):
    if _BASE is not None:
        _remove_base(_BASE, os.getpid())
    return {}


def init_worker(tier):
    global _TIER, _SCRATCH, _QUICK_KEYS
    _TIER = tier
    _corpus(tier)
    if tier == "thorough":
        _QUICK_KEYS = frozenset(k for k, _b, _f in _corpus("quick"))
    if _BASE is None:           # replay: no prepare() has run
        prepare(tier)
    # PSyclone may write files into the cwd: never into /verif
    _SCRATCH = os.path.join(_BASE, f"w{os.getpid()}")
    os.makedirs(_SCRATCH, exist_ok=True)
    os.chdir(_SCRATCH)
    import psyclone.psyad.tl2ad  # noqa: F401 pylint: disable=unused-import


# ---------------------------------------------------------------------------
# running PSyAD
# ---------------------------------------------------------------------------
def run_psyad(src, active, create_test=False):
    """-> ('ok', adjoint text, harness text) | ('refused', name, msg) |
    ('crash', name, msg)"""
    from psyclone.psyad.tl2ad import generate_adjoint_str
    from psyclone.psyad.transformations import TangentLinearError
    from psyclone.psyir.backend.visitor import VisitorError
    sink = io.StringIO()
    try:
        with contextlib.redirect_stdout(sink), contextlib.redirect_stderr(sink):
            adj, test = generate_adjoint_str(src, list(active),
                                             create_test=create_test)
    except (TangentLinearError, NotImplementedError, VisitorError) as err:
        return ("refused", type(err).__name__, str(err))
    except Exception as err:  # pylint: disable=broad-except
        if type(err).__name__ == "_Timeout":
            raise       # the runner's per-case alarm: a harness error
        return ("crash", type(err).__name__, str(err))
    return ("ok", adj, test)


def parse(text):
    from psyclone.psyir.frontend.fortran import FortranReader
    return FortranReader().psyir_from_source(text)


_TL_CACHE = {}


def _parse_tl(key, src):
    """The tangent-linear tree is only read by the interpreter: one parse per
    kernel serves all its active sets."""
    if key not in _TL_CACHE:
        if len(_TL_CACHE) > 4:
            _TL_CACHE.clear()
        _TL_CACHE[key] = parse(src)
    return _TL_CACHE[key]


# ---------------------------------------------------------------------------
# signatures
# ---------------------------------------------------------------------------
def loop_kinds(items):
    out = []
    for item in items:
        if item[0] == "loop":
            out.append(item[1])
            out += loop_kinds(item[3])
        elif item[0] == "if":
            out += loop_kinds(item[2])
            if item[3] is not None:
                out += loop_kinds(item[3])
    return out


def subtracts_own_lhs(stmt):
    """An assignment with at least two terms one of which is the LHS element
    itself with a minus sign."""
    _, lhs, terms = stmt
    return len(terms) >= 2 and any(acc == lhs and sign == "-"
                                   for sign, _coef, acc in terms)


def signature(key, items, active, res):
    """Mechanism-level signatures for the two large defect classes (every
    condition is a syntactic fact of the INPUT kernel plus the observed kind of
    failure); everything else is identified by kernel, active set and the
    classes of the wrong matrix entries."""
    stmts = G.statements(items)
    classes = "+".join(res.get("classes", []))
    kinds = set(loop_kinds(items))
    odd = sorted(k for k in kinds if k in ("c3", "r3"))
    if odd and res["kind"] in ("not-transpose", "adjoint-ub:bounds"):
        return (f"{res['kind']}|loop(step not +-1, lower bound an expression)|"
                f"{'+'.join(odd)}")
    if ("e2" in kinds and res.get("nval") == 1
            and res["kind"] in ("not-transpose", "adjoint-ub:bounds")):
        # n = 1: every `do .. = 2, n, 2` loop of the kernel has zero trips
        return f"{res['kind']}|zero-trip loop(step not +-1) iterates in the adjoint|e2"
    if (res["kind"] == "not-transpose" and len(stmts) == 1
            and subtracts_own_lhs(stmts[0])
            and res["classes"] == [f"{stmts[0][1][0]}.diag"]):
        return "not-transpose|diagonal-entry-wrong|assignment-subtracts-its-own-lhs"
    return f"{res['kind']}|{key}|act={','.join(active)}|{classes}"


# ---------------------------------------------------------------------------
# one element
# ---------------------------------------------------------------------------
def check_element(key, items, active, harness=False):
    """-> (outcome class, [violation dicts], info dict)"""
    from mc import c19_eval as E
    src = G.kernel_source(items)
    act = ",".join(active)
    info = {"key": key, "active": list(active)}
    if G.passive_hazard(items, active):
        return "skipped:passive-written-and-read(#1458)", [], info
    got = run_psyad(src, active, create_test=harness)
    if got[0] == "refused":
        info["refusal"] = got[2][:200]
        return f"refused:{got[1]}", [], info
    if got[0] == "crash":
        info["crash"] = f"{got[1]}: {got[2][:300]}"
        return f"crash:{got[1]}", [], info
    adj = got[1]
    info["adjoint"] = adj
    case = {"key": key, "items": items, "active": list(active),
            "harness": bool(harness)}
    ekey = f"{key}|act={act}"
    tl_tree = _parse_tl(key, src)
    try:
        ad_tree = parse(adj)
    except Exception as err:  # pylint: disable=broad-except
        if type(err).__name__ == "_Timeout":
            raise
        return "viol", [{
            "key": ekey, "sig": f"adjoint-not-parsable|{key}|act={act}",
            "msg": f"the adjoint written by PSyAD for kernel {key} (active "
                   f"{list(active)}) cannot be parsed: {type(err).__name__}: "
                   f"{str(err)[:200]}", "case": case}], info
    res = E.compare(tl_tree, ad_tree, items, active)
    info["runs"] = res["runs"]
    if res.get("passive_note"):
        info["passive_note"] = res["passive_note"]
    if res["verdict"] == "tl-not-linear":
        raise RuntimeError(f"generator/oracle disagreement for {key} active "
                           f"{active}: {res['msg']}")
    body = "\n".join(G.body_lines(items, 1))
    viol = []
    if res["verdict"] != "ok":
        viol.append({"key": ekey, "sig": signature(key, items, active, res),
                     "msg": f"kernel {key} with active variables {list(active)}: "
                            f"{res['msg']}. Body:\n{body}", "case": case})
    if harness:
        from mc import c19_harness as H
        hout, detail = H.run_harness(_SCRATCH, _random_obj(), src, adj, got[2])
        if not res["passive_constant"]:
            # The harness sums passive arguments into both inner products
            # "since [they] will remain constant" (PSyAD user guide): a kernel
            # that updates a passive argument is outside that assumption.
            info["harness"] = hout + "(kernel writes a passive argument: not judged)"
        else:
            info["harness"] = hout
            if res["verdict"] == "ok" and hout != "passed":
                viol.append({
                    "key": ekey + "|harness",
                    "sig": f"harness-{hout}|{key}|act={act}",
                    "msg": f"kernel {key} with active variables {list(active)}: "
                           f"the adjoint is the exact transpose of the "
                           f"tangent-linear code (E1), but the generated test "
                           f"harness, compiled with gfortran, gives '{hout}': "
                           f"{detail}. Body:\n{body}",
                    "case": case})
            elif res["verdict"] != "ok" and hout == "passed":
                info["harness"] = "passed-although-adjoint-wrong(not judged)"
    return ("viol" if viol else "ok"), viol, info


def _random_obj():
    global _RANDOM_OBJ
    if _RANDOM_OBJ is None:
        from mc import c19_harness as H
        _RANDOM_OBJ = H.build_random_object(_SCRATCH)
    return _RANDOM_OBJ


def run_case(case):
    kernels = _corpus(_TIER)
    classes = {}
    viol = []
    evals = nontrivial = runs = notes = compiled = 0
    sample = None
    for key, items, _fam in kernels[case["start"]:case["stop"]]:
        harness = _TIER == "thorough" and key in _QUICK_KEYS
        for active in G.active_choices(items):
            outcome, vios, info = check_element(key, items, active, harness)
            evals += 1
            if outcome == "viol":
                viol += vios
                outcome = "violation"
            classes[outcome] = classes.get(outcome, 0) + 1
            if outcome in ("ok", "violation"):
                nontrivial += 1
            if "harness" in info:
                compiled += 1
                name = "harness:" + info["harness"]
                classes[name] = classes.get(name, 0) + 1
            runs += info.get("runs", 0)
            if info.get("passive_note"):
                notes += 1
            if sample is None and outcome == "ok":
                sample = {"kernel": key, "active": list(active),
                          "adjoint": info["adjoint"].split("\n")}
    res = {"evals": evals, "nontrivial": nontrivial, "states": evals,
           "transitions": runs, "validated": nontrivial, "classes": classes,
           "viol": viol,
           "extra": {"passive_results_differ_not_judged": notes,
                     "interpreter_runs": runs,
                     "harnesses_compiled_and_run": compiled}}
    if sample:
        res["sample"] = sample
    return res


def _tuplify(obj):
    if isinstance(obj, list):
        return tuple(_tuplify(o) for o in obj)
    return obj


def replay(case):
    items = _tuplify(case["items"])
    active = tuple(case["active"])
    key = case.get("key") or G.key_of(items)
    if _SCRATCH is None:
        init_worker("quick")
    outcome, vios, info = check_element(key, items, active,
                                        bool(case.get("harness")))
    return {"outcome": outcome, "kernel": G.kernel_source(items).split("\n"),
            "adjoint": info.get("adjoint", "").split("\n"),
            "harness": info.get("harness"), "viol": vios}
