"""C11 Variable access information covers every actual read and write.

Every statement (and every enclosing loop / if-block / while-loop / routine) of
an enumerated corpus of small programs is given to the real
``psyclone.core.VariablesAccessInfo``.  The E1 reference interpreter executes
the program on every enumerated input with a tracer and yields, per executed
statement node, the set of variables / structure components actually read and
actually written (callee bodies and a table of intrinsic-subroutine effects
included).  Required: actual reads are reported READ/READWRITE, actual writes
are reported WRITE/READWRITE, and in an assignment every reported read of the
right-hand side is ordered before the reported write of the target.
Over-reporting is never judged.
"""
import itertools

from mc import c11_gen as G

ID = "C11"
LEVEL = "model_checking"
EXHAUSTIVE = True
CASE_TIMEOUT = 1800
BLOCK = 12
RULE = ("programs = mc.c11_gen.corpus(tier): every scalar target x every rvalue shape "
        "(array elements with computed / indirect / function-valued subscripts, nested "
        "structure members, arrays of structures, reductions, inquiry intrinsics on "
        "sections, user functions that do / do not modify their argument), section and "
        "whole-array assignments, integer/logical statements, 16 loop headers x 12 bodies, "
        "nests, 14 conditions x bodies with/without else, while loops, calls to same-file "
        "routines (every intent x what the body really does x 16 actual shapes, array / "
        "structure dummies, sequence association, pure subroutines, keyword arguments), "
        "every intrinsic subroutine with non-character arguments both as read from source "
        "(Call) and as IntrinsicCall node, allocate/deallocate with stat=/source=/mold=, "
        "move_alloc; thorough adds two-level expression and statement nesting. element = "
        "(program, statement or enclosing node[, IntrinsicCall form]); every element is "
        "executed on inputs n=0..3 x k=0..2 [x l][x (t,u) order]; non-trivial = executed on "
        "at least one admissible input with at least one observed access")
ASSUMPTIONS = [
    "E1 (mc/fortsem + mc/c11_sem) is the reference semantics; a run that is undefined "
    "(out of bounds, ...) on an input is inadmissible and contributes nothing",
    "granularity = PSyclone Signature (variable name or structure component path); a "
    "reported access to a whole structure covers its components",
    "only values count: a change of allocation status alone (ALLOCATE/DEALLOCATE object, "
    "MOVE_ALLOC FROM) is not an observed write; the values that nondeterministic "
    "intrinsics return are fixed admissible ones (one possible execution)",
    "side effects of a callee on variables that are not denoted in the calling statement "
    "(module variables) are outside the space: helper routines only touch their dummies "
    "and locals",
    "ordering = (location index, then position in the variable's access list); reads of "
    "a different variable at the same location index as the write are accepted",
    "a NotImplementedError refusal and any other exception raised by VariablesAccessInfo "
    "is counted, not judged",
]

_CORPUS = {}
_TIER = "quick"


def _corpus(tier):
    if tier not in _CORPUS:
        _CORPUS[tier] = G.corpus(tier)
    return _CORPUS[tier]


def bounds(tier):
    progs = _corpus(tier)
    fams = {}
    for _k, fam, _b in progs:
        fams[fam] = fams.get(fam, 0) + 1
    return {"programs": len(progs), "programs_per_family": fams,
            "inputs": "n in 0..3 x k in 0..2 [x l in {F,T} if l occurs] [x (t,u) in "
                      "{(3.5,-1.5),(-1.5,3.5)} if the program compares/selects] = 12..48 "
                      "per program; j=1, ix(p)=mod(p+1,4), arrays distinct values",
            "block": BLOCK}


def cases(tier):
    total = len(_corpus(tier))
    for start in range(0, total, BLOCK):
        yield {"key": f"blk{start:06d}", "start": start,
               "stop": min(total, start + BLOCK)}


def init_worker(tier):
    global _TIER
    _TIER = tier
    _corpus(tier)


# ---------------------------------------------------------------------------
# inputs
# ---------------------------------------------------------------------------
def _struct_dt(I, F, prefix, wval, dbase, kval):
    """Storage of one type(dt) object whose cells carry the location prefix."""
    dvals = I.make_array(prefix[0], "real", [(0, 6)],
                         [F(4 * p + dbase, 4) for p in range(7)])
    for cell in dvals.cells:
        cell.loc = prefix + ("%d", cell.loc[1])
    wcell = I.Cell(prefix + ("%w", ()), "real", F(wval))
    kcell = I.Cell(prefix + ("%k", ()), "int", kval)
    return I.StructVal({"w": wcell, "d": dvals, "k": kcell}, "dt")


def make_inputs(body):
    """[(input key, factory of the argument storage)].  The dimensions l and
    (t,u)-order are only enumerated for programs that can observe them."""
    import re
    from fractions import Fraction as F
    from mc.fortsem import interp as I
    lvals = (False, True) if re.search(r"\bl\b", body) else (False,)
    swaps = (False, True) if re.search(r"[<>]|==|max\(|merge\(", body) else (False,)
    out = []
    for nval, kval, lval, swap in itertools.product(range(4), range(3), lvals, swaps):
        def make(nval=nval, kval=kval, lval=lval, swap=swap):
            tval, uval = (F(-3, 2), F(7, 2)) if swap else (F(7, 2), F(-3, 2))
            evals = I.make_array("se", "real", [(0, 6)],
                                 [F(8 * p + 5, 8) for p in range(7)])
            for cell in evals.cells:
                cell.loc = ("se", "%e", cell.loc[1])
            sevar = I.StructVal(
                {"in": _struct_dt(I, F, ("se", "%in"), F(3, 4), 2, 1), "e": evals},
                "dt2")
            savar = I.ArrayVal([(0, 3)], [], "struct", "sa")
            for pos in range(4):
                cell = I.Cell(("sa", (pos,)), "struct", parent=savar, pos=pos)
                cell.v = _struct_dt(I, F, ("sa", (pos,)), F(5 + pos, 4), 3, 2)
                savar.cells.append(cell)
            return [
                I.make_scalar("n", "int", nval),
                I.make_scalar("k", "int", kval),
                I.make_scalar("j", "int", 1),
                I.make_scalar("t", "real", tval),
                I.make_scalar("u", "real", uval),
                I.make_scalar("l", "bool", lval),
                I.make_array("a", "real", [(0, 6)],
                             [F(2 * p + 1, 2) for p in range(7)]),
                I.make_array("b", "real", [(0, 6)],
                             [F(8 * p + 3, 8) for p in range(7)]),
                I.make_array("q", "real", [(0, 3), (0, 3)],
                             [F(16 * (4 * c + r) + 1, 16)
                              for c in range(4) for r in range(4)]),
                I.make_array("ix", "int", [(0, 6)], [(p + 1) % 4 for p in range(7)]),
                _struct_dt(I, F, ("sd",), F(9, 4), 1, 2),
                sevar, savar,
                I.make_scalar("c1", "int", 1),
                I.make_scalar("c2", "int", 2),
                I.make_scalar("c3", "int", 3),
                I.make_array("iv", "int", [(1, 8)], [5 + p for p in range(8)]),
            ]
        out.append((f"n={nval},k={kval},l={'T' if lval else 'F'},"
                    f"tu={'swap' if swap else 'std'}", make))
    return out


# ---------------------------------------------------------------------------
# the oracle: actual access sets per statement node
# ---------------------------------------------------------------------------
def statement_nodes(main):
    """The judged nodes of one program: every statement below the prologue
    (walk order) and the routine itself."""
    from psyclone.psyir import nodes as N
    out = []
    for top in main.children:
        for node in top.walk((N.Assignment, N.Call, N.Loop, N.IfBlock,
                              N.WhileLoop)):
            if isinstance(node, N.Call) and not isinstance(node.parent,
                                                           N.Schedule):
                continue    # a function call inside an expression
            out.append(node)
    out.append(main)
    return out


def node_path(node, main):
    from psyclone.psyir import nodes as N
    if node is main:
        return "routine"
    parts = []
    cur = node
    while cur is not main:
        if not isinstance(cur, N.Schedule) or isinstance(cur.parent, N.IfBlock):
            parts.append(str(cur.position))
        cur = cur.parent
    return ".".join(reversed(parts))


def actual_accesses(tree, main, nodes, body):
    """Runs the program on every input.  Returns ({id(node): {'R': {sig: input},
    'W': {...}}}, admissible, ub kinds)."""
    from psyclone.psyir.symbols import DataSymbol
    from mc import c11_sem as S
    names = {sym.name.lower() for sym in main.symbol_table.symbols
             if isinstance(sym, DataSymbol)}
    total = {id(node): {"R": {}, "W": {}} for node in nodes}
    wanted = set(total)
    admissible = 0
    ubs = {}
    for ikey, make in make_inputs(body):
        events = []

        def tracer(kind, cell, _node, interp, events=events):
            loc = cell.loc
            if loc[0] not in names:
                return
            sig = (loc[0],) + tuple(p[1:] for p in loc[1:] if isinstance(p, str))
            for stmt in interp.exec_stack:
                if id(stmt) in wanted:
                    events.append((id(stmt), kind, sig))
            events.append((id(main), kind, sig))
        res = S.run(tree, main.name, make(), tracer)
        if res[0] != "ok":
            ubs[res[1]] = ubs.get(res[1], 0) + 1
            continue
        admissible += 1
        for nid, kind, sig in events:
            total[nid][kind].setdefault(sig, ikey)
    return total, admissible, ubs


# ---------------------------------------------------------------------------
# the implementation under test
# ---------------------------------------------------------------------------
READ_KINDS = {"READ", "READWRITE", "INC", "READINC"}
WRITE_KINDS = {"WRITE", "READWRITE", "INC", "READINC", "SUM"}


def reported_accesses(node):
    """('ok', {sig tuple: set of access type names}, vai) | ('refused', name)"""
    from psyclone.core import VariablesAccessInfo
    try:
        vai = VariablesAccessInfo(node)
    except NotImplementedError:
        return ("refused", "NotImplementedError", None)
    except Exception as err:  # pylint: disable=broad-except
        return ("raised", type(err).__name__, None)
    rep = {}
    for sig in vai.all_signatures:
        comps = tuple(str(sig).lower().split("%"))
        kinds = rep.setdefault(comps, set())
        for acc in vai[sig].all_accesses:
            kinds.add(acc.access_type.name)
    return ("ok", rep, vai)


def covered(rep, kind, sig):
    want = READ_KINDS if kind == "R" else WRITE_KINDS
    for length in range(1, len(sig) + 1):
        kinds = rep.get(sig[:length])
        if kinds and kinds & want:
            return True
    return False


# ---------------------------------------------------------------------------
# where in the statement is the variable denoted (for the signature)
# ---------------------------------------------------------------------------
def ref_sig(ref):
    """(name, member, ...) of a Reference, computed from the tree."""
    from psyclone.psyir import nodes as N
    sig = [ref.symbol.name.lower()]
    cur = ref
    while isinstance(cur, (N.StructureReference, N.StructureMember)):
        cur = cur.member
        sig.append(cur.name.lower())
    return tuple(sig)


def call_label(call):
    from psyclone.psyir import nodes as N
    if isinstance(call, N.IntrinsicCall):
        return call.intrinsic.name
    name = call.routine.name.lower()
    from mc import c11_sem as S
    if name.upper() in S.SUBROUTINE_ARGS:
        return "intrinsic-by-name"
    return G.CATEGORY.get(name, "unknown-routine")


def inside(node, anc):
    """True if `node` is `anc` or below it."""
    cur = node
    while cur is not None:
        if cur is anc:
            return True
        cur = cur.parent
    return False


def arg_label(call, arg):
    """Name of the dummy the argument is bound to (intrinsic subroutines,
    allocate) or a position label."""
    from psyclone.psyir import nodes as N
    from mc import c11_sem as S
    idx = [i for i, a in enumerate(call.arguments) if a is arg][0]
    kwd = call.argument_names[idx]
    if isinstance(call, N.IntrinsicCall):
        name = call.intrinsic.name
        if name in S.SUBROUTINE_ARGS:
            if kwd:
                return kwd.lower()
            return S.SUBROUTINE_ARGS[name][idx][0]
        if name in ("ALLOCATE", "DEALLOCATE"):
            return kwd.lower() if kwd else "object"
        return kwd.lower() if kwd else f"arg{idx}"
    return "arg"


def roles_of(stmt, sig, kind):
    """Sorted list of syntactic roles in which a variable covering `sig` is
    denoted in the statement's own part (header of a loop / condition of an
    if).  For a write only positions that can be defined are considered."""
    from psyclone.psyir import nodes as N
    if isinstance(stmt, N.Loop):
        regions = [("start", stmt.start_expr), ("stop", stmt.stop_expr),
                   ("step", stmt.step_expr)]
        if stmt.variable.name.lower() == sig[0] and len(sig) == 1:
            return ["var"]
    elif isinstance(stmt, (N.IfBlock, N.WhileLoop)):
        regions = [("cond", stmt.condition)]
    elif isinstance(stmt, N.Assignment):
        regions = [("lhs", stmt.lhs), ("rhs", stmt.rhs)]
    elif isinstance(stmt, N.Call):
        regions = [(arg_label(stmt, arg), arg) for arg in stmt.arguments]
    else:
        return ["body"]
    found = set()
    writable = set()
    for label, region in regions:
        for ref in region.walk(N.Reference):
            if isinstance(ref, N.Call) or isinstance(ref.parent, N.Call) and \
                    ref.parent.children[0] is ref:
                continue
            rsig = ref_sig(ref)
            if rsig != sig[:len(rsig)]:
                continue
            parts = []
            # a position that can be defined: the assignment target or an
            # actual argument that is a variable
            if ref is region:
                can_write = label == "lhs" or isinstance(stmt, N.Call)
            else:
                can_write = isinstance(ref.parent, N.Call) and \
                    not isinstance(ref.parent, N.IntrinsicCall)
            cur = ref
            while cur is not region:
                par = cur.parent
                if isinstance(par, N.Call):
                    parts.append(f"{call_label(par)}-{arg_label(par, cur)}")
                elif isinstance(par, (N.Reference, N.Member, N.Range)):
                    if not parts or parts[-1] != "subscript":
                        parts.append("subscript")
                cur = par
            # the innermost context identifies the mechanism: `SIZE-arg0.
            # subscript` wherever the inquiry function is nested
            parts.reverse()
            role = ".".join([label] + parts) if len(parts) < 2 else \
                "~." + ".".join(parts[-2:])
            found.add(role)
            if can_write:
                writable.add(role)
    if kind == "W" and writable:
        return sorted(writable)
    return sorted(found) or ["not-denoted"]


def stmt_label(stmt):
    from psyclone.psyir import nodes as N
    if isinstance(stmt, N.Call):
        kind = "IntrinsicCall" if isinstance(stmt, N.IntrinsicCall) else "Call"
        return f"{kind}[{call_label(stmt)}]"
    return type(stmt).__name__


# ---------------------------------------------------------------------------
# ordering inside an assignment
# ---------------------------------------------------------------------------
def order_violations(assign, vai):
    """Reported reads located in the right-hand side must precede the reported
    write of the target: (location, position in the access list)."""
    out = []
    target = None
    for sig in vai.all_signatures:
        for pos, acc in enumerate(vai[sig].all_accesses):
            if acc.node is assign.lhs and acc.access_type.name in WRITE_KINDS:
                target = (sig, pos, acc)
    if target is None:
        return out
    tsig, tpos, tacc = target
    for sig in vai.all_signatures:
        for pos, acc in enumerate(vai[sig].all_accesses):
            if acc.access_type.name not in READ_KINDS or acc.node is None:
                continue
            if not inside(acc.node, assign.rhs):
                continue
            if acc.location > tacc.location:
                out.append(("location", str(sig), acc.location, tacc.location))
            elif sig == tsig and pos > tpos:
                out.append(("same-variable", str(sig), pos, tpos))
    return out


# ---------------------------------------------------------------------------
# Call -> IntrinsicCall ("built" form of the intrinsic subroutines)
# ---------------------------------------------------------------------------
def to_intrinsic_calls(main):
    """Replaces every `call <intrinsic subroutine>(...)` statement (a plain Call
    after reading) below the prologue by the IntrinsicCall node that the PSyIR
    API provides for it.  Returns (number replaced, number refused)."""
    from psyclone.psyir import nodes as N
    from mc import c11_sem as S
    done = refused = 0
    for top in list(main.children):
        for call in top.walk(N.Call):
            if isinstance(call, N.IntrinsicCall) or \
                    not isinstance(call.parent, N.Schedule):
                continue
            name = call.routine.name.upper()
            if name not in S.SUBROUTINE_ARGS:
                continue
            try:
                intr = N.IntrinsicCall.Intrinsic[name]
            except KeyError:
                refused += 1
                continue
            maxpos = intr.required_args.max_count
            args = []
            for idx, (arg, kwd) in enumerate(zip(call.arguments,
                                                 call.argument_names)):
                if kwd is None and maxpos is not None and idx >= maxpos:
                    kwd = S.SUBROUTINE_ARGS[name][idx][0]
                args.append(arg.copy() if kwd is None else (kwd, arg.copy()))
            try:
                new = N.IntrinsicCall.create(intr, args)
            except (TypeError, ValueError, NotImplementedError):
                refused += 1
                continue
            call.replace_with(new)
            done += 1
    return done, refused


# ---------------------------------------------------------------------------
def judge(tree, main, key, body, built, only=None):
    """Judges every statement node of one program.  Returns a result dict."""
    from psyclone.psyir import nodes as N
    res = {"evals": 0, "nontrivial": 0, "classes": {}, "viol": [], "states": 0,
           "transitions": 0, "validated": 0}

    def count(cls, num=1):
        res["classes"][cls] = res["classes"].get(cls, 0) + num

    nodes = statement_nodes(main)
    if built:
        # only the IntrinsicCall statements and what encloses them are new
        marked = set()
        for node in nodes:
            if isinstance(node, N.IntrinsicCall) and \
                    node.intrinsic.name not in ("ALLOCATE", "DEALLOCATE"):
                cur = node
                while cur is not None:
                    marked.add(id(cur))
                    cur = cur.parent
        nodes = [n for n in nodes if id(n) in marked]
    actual, admissible, ubs = actual_accesses(tree, main, nodes, body)
    res["transitions"] = admissible
    if not admissible:
        count("program-without-admissible-input")
        res["extra"] = {"programs_without_admissible_input": [key]}
    missing = {}
    desc = {id(n): [m for m in nodes if m is not n and m is not main and
                    inside(m, n)] for n in nodes}
    # deepest first so that a consequence in an enclosing node is recognised
    order = sorted(nodes, key=lambda n: -n.depth)
    for node in order:
        path = node_path(node, main)
        ekey = f"{key}@{path}" + ("#built" if built else "")
        # (with `only` - replay - every node is still judged, because the
        # consequence rule needs the inner statements; only one is reported)
        res["evals"] += 1
        res["states"] += 1
        act = actual[id(node)]
        nonempty = bool(act["R"] or act["W"])
        status, rep, vai = reported_accesses(node)
        if status != "ok":
            count(f"{status}-{rep}")
            missing[id(node)] = set()
            continue
        res["validated"] += 1
        if nonempty:
            res["nontrivial"] += 1
        payload = {"key": ekey, "prog": key, "body": body, "built": built}
        miss = set()
        for kind in ("R", "W"):
            for sig in sorted(act[kind]):
                if not covered(rep, kind, sig):
                    miss.add((kind, sig))
        missing[id(node)] = miss
        bad = False
        for kind, sig in sorted(miss):
            below = [m for m in desc[id(node)] if sig in actual[id(m)][kind]]
            if any((kind, sig) in missing[id(m)] for m in below):
                continue        # consequence of the inner statement's miss
            bad = True
            word = "read" if kind == "R" else "write"
            var = "%".join(sig)
            ikey = act[kind][sig]
            text = node.debug_string().strip().split("\n")[0]
            if below:
                vsig = f"lost-in-enclosing:{word}:{stmt_label(node)}"
                why = (f"the inner statement reports it but VariablesAccessInfo of the "
                       f"enclosing {type(node).__name__} does not")
            else:
                rlist = roles_of(node, sig, kind)
                roles = "+".join(rlist)
                # the signature names the first role (plain positions sort
                # before positions nested in calls, marked '~'); for a
                # variable denoted inside a nested call the kind of the
                # enclosing statement is irrelevant
                where = "*" if rlist[0].startswith("~.") else stmt_label(node)
                vsig = f"unreported-{word}:{where}:{rlist[0]}"
                why = f"role(s) of the variable in the statement: {roles}"
            if only is None or ekey == only:
                res["viol"].append({
                    "key": ekey, "sig": vsig, "group": stmt_label(node),
                    "msg": f"executing `{text}` (node {path} of program `{body}`"
                           f"{', intrinsic subroutine calls as IntrinsicCall nodes' if built else ''}"
                           f") on input {ikey} {word}s `{var}` but VariablesAccessInfo reports "
                           f"{describe(rep, sig)} for it; {why}",
                    "case": payload})
        if isinstance(node, N.Assignment):
            for what, var, got, lim in order_violations(node, vai):
                bad = True
                if only is None or ekey == only:
                    text = node.debug_string().strip()
                    res["viol"].append({
                        "key": ekey, "sig": f"order:rhs-read-after-target-write:{what}",
                        "group": "order",
                        "msg": f"in `{text}` a read of `{var}` located in the right-hand "
                               f"side is ordered after the write of the target ({what}: "
                               f"{got} vs {lim})",
                        "case": payload})
        count("violating" if bad else ("covered" if nonempty else "not-executed-or-no-access"))
    for kind, num in ubs.items():
        count(f"inadmissible-run-{kind}", num)
    return res


def describe(rep, sig):
    got = []
    for length in range(1, len(sig) + 1):
        kinds = rep.get(sig[:length])
        if kinds:
            got.append(f"{'%'.join(sig[:length])}: {'+'.join(sorted(kinds))}")
    return ", ".join(got) if got else "nothing"


def parse(bodies):
    from psyclone.psyir.frontend.fortran import FortranReader
    from psyclone.psyir import nodes as N
    tree = FortranReader().psyir_from_source(G.module_source(bodies))
    routines = {r.name.lower(): r for r in tree.walk(N.Routine)}
    mains = [routines[f"s{idx}"] for idx in range(len(bodies))]
    names = set()
    for sym in mains[0].symbol_table.symbols:
        names.add(sym.name.lower())
    for name, rout in routines.items():
        if name in [m.name.lower() for m in mains]:
            continue
        clash = {s.name.lower() for s in rout.symbol_table.symbols} & names
        if clash - {name}:
            raise RuntimeError(f"helper {name} shares names with s: {clash}")
    return tree, mains


def check_programs(progs, only=None):
    """progs: list of (key, family, body)."""
    from psyclone.psyir import nodes as N
    from mc import c11_sem as S
    tot = {"evals": 0, "nontrivial": 0, "states": 0, "transitions": 0,
           "validated": 0, "classes": {}, "viol": [], "extra": {}}

    def merge(res):
        for name in ("evals", "nontrivial", "states", "transitions", "validated"):
            tot[name] += res[name]
        for cls, num in res["classes"].items():
            tot["classes"][cls] = tot["classes"].get(cls, 0) + num
        tot["viol"] += res["viol"]
        for name, val in res.get("extra", {}).items():
            tot["extra"].setdefault(name, [])
            tot["extra"][name] += [v for v in val if v not in tot["extra"][name]]

    tree, mains = parse([body for _k, _f, body in progs])
    for (key, _fam, body), main in zip(progs, mains):
        if main.walk(N.CodeBlock):
            raise RuntimeError(f"CodeBlock in program {key}")
        merge(judge(tree, main, key, body, False, only))
        convertible = any(
            isinstance(c.parent, N.Schedule) and not isinstance(c, N.IntrinsicCall)
            and c.routine.name.upper() in S.SUBROUTINE_ARGS
            for top in main.children for c in top.walk(N.Call))
        if convertible:
            done, refused = to_intrinsic_calls(main)
            if refused:
                tot["classes"]["IntrinsicCall.create-refused"] = \
                    tot["classes"].get("IntrinsicCall.create-refused", 0) + refused
                tot["extra"].setdefault("intrinsiccall_create_refused", []).append(key)
            if done:
                merge(judge(tree, main, key, body, True, only))
    return tot


def run_case(case):
    progs = _corpus(_TIER)[case["start"]:case["stop"]]
    tot = check_programs(progs)
    tot["sample"] = {"program": progs[0][0], "body": progs[0][2]}
    return tot


def replay(case):
    """Re-executes the one element named by case['key'] from the program text."""
    res = check_programs([(case["prog"], "replay", case["body"])], only=case["key"])
    return res
