"""C20 LFRic built-ins compute their documented operations.

Part A (values, executed): every built-in of the LFRic API is called from a
generated algorithm, PSyclone generates the PSy layer for every combination of
distributed_memory x COMPUTE_ANNEXED_DOFS x OpenMP variant, gfortran compiles
it against the bundled LFRic stub infrastructure and the program is RUN on a
bounded but exhaustive value domain; every DoF of every field handed to the
invoke and every reduction result is compared with the formula documented in
the user guide (mc/c20_table.py).

Part B (DoF ranges, structural): the loop bounds of the very same generated
PSy layers (plus the redundant-computation variants) are read from the text
and compared, on a concrete model partition of a continuous and of a
discontinuous function space, with the documented iteration range
(mc/c20_range.py).
"""
import atexit
import json
import os
import shutil

from mc import c20_fortran as F
from mc import c20_psy as P
from mc import c20_range as R
from mc import c20_table as T

ID = "C20"
LEVEL = "model_checking"
EXHAUSTIVE = True
RULE = ("every built-in in BUILTIN_MAP (68) x invoke shape (plain; quick base "
        "configuration / thorough everywhere: + every way two same-typed field "
        "arguments can share their data, + scalars written as literals, + real "
        "fields of r_solver/r_tran type) x distributed_memory x "
        "COMPUTE_ANNEXED_DOFS x OpenMP variant (none, parallel do, parallel + do, "
        "parallel + do with reproducible reductions for the reductions) is "
        "generated, compiled and executed for function space {W0, W3} x "
        "OMP_NUM_THREADS {1,2,3} on every input = value pattern {all 36 value "
        "pairs of {-2..3} over the DoFs, distinct non-integer values per DoF} x "
        "every combination of scalar values {-2,0,3,1/2} (integers {-2,0,3}); "
        "one evaluation = one executed invoke on one input; it is non-trivial "
        "when at least one DoF (or the reduction result) has a defined "
        "documented value that was compared; distinct = distinct (built-in, "
        "shape, configuration, space, threads, input).  The loop bounds of every "
        "generated invoke (and of the redundant-computation variants) are "
        "judged against the documented DoF range.")
ASSUMPTIONS = [
    "the bundled LFRic stub infrastructure has no halo (owned == annexed == "
    "undf, global sum = identity): executed runs validate values, reductions "
    "and untouched arguments; DoF ranges are judged on the generated loop "
    "bounds with a model partition (Part B)",
    "real results are compared exactly with the correctly rounded value of the "
    "exact (rational) documented formula: on the value domain used every "
    "formula has at most one inexact operation; DoFs whose documented value is "
    "undefined (x/0, negative**real, 0**0) or irrational are executed but not "
    "judged",
    "setval_random is judged against its documented interval 0 <= x < 1 only",
    "the parsed algorithm (invoke_info) is shared between the configurations "
    "of one work item; a self-check item regenerates from a fresh parse and "
    "requires identical text",
]
CASE_TIMEOUT = 3000

SPACE_LIST = ("w0", "w3")
GROUP_SIZE = {"lean": 12, "extra": 16}


# ---------------------------------------------------------------------------
# the enumerated space
# ---------------------------------------------------------------------------
def _all_cases(tier):
    """[(set, case id, case)] in a fixed order."""
    out = []
    names = list(T.ENTRIES)
    for name in names:
        for case in F.enumerate_cases(name, tier, "lean"):
            out.append(("lean", case))
    for name in names:
        lean = [json.dumps(c, sort_keys=True)
                for c in F.enumerate_cases(name, tier, "lean")]
        for case in F.enumerate_cases(name, tier, "full"):
            if json.dumps(case, sort_keys=True) not in lean:
                out.append(("extra", case))
    return [(kind, f"c{num:04d}", case) for num, (kind, case) in enumerate(out)]


def _groups(tier):
    """[(set, group tag, [(cid, case)])]: reductions in groups of their own."""
    out = []
    for kind in ("lean", "extra"):
        mine = [(cid, c) for k, cid, c in _all_cases(tier) if k == kind]
        red = [x for x in mine if T.ENTRIES[x[1]["builtin"]].is_reduction]
        oth = [x for x in mine if not T.ENTRIES[x[1]["builtin"]].is_reduction]
        size = GROUP_SIZE[kind]
        num = 0
        for part in (red, oth):
            for start in range(0, len(part), size):
                out.append((kind, f"{kind}{num:02d}", part[start:start + size]))
                num += 1
    return out


OMP_RUN_QUICK = ((True, True), (False, False))


def _dm_values(tier, kind):
    if tier == "thorough" or kind == "lean":
        return [False, True]
    return [True]


def _plan(tier, kind, dm, has_reduction):
    """What is done for one group of cases and one distributed-memory
    setting: list of steps {annexed, variant, run} (run False = generate and
    judge the loop bounds only) and {annexed, redundant}."""
    plan = []
    if tier == "thorough":
        variants = ["none", "pdo", "pardo"] + (["pardo-reprod"] if has_reduction else [])
        for ann in (False, True):
            for var in variants:
                plan.append({"annexed": ann, "variant": var, "run": True})
            if dm and kind == "lean":
                for depth in REDUNDANT:
                    plan.append({"annexed": ann, "redundant": depth})
        return plan
    if kind == "lean":
        variants = ["none", "pdo", "pardo"] + (["pardo-reprod"] if has_reduction else [])
        for ann in (False, True):
            for var in variants:
                plan.append({"annexed": ann, "variant": var,
                             "run": var == "none" or (dm, ann) in OMP_RUN_QUICK})
            if dm:
                plan.append({"annexed": ann, "redundant": 1})
        return plan
    # quick, extra shapes: base configuration only
    return [{"annexed": False, "variant": "none", "run": True}]


def _threads(variant):
    return (1,) if variant == "none" else (1, 2, 3)


REDUNDANT = (1, 2, 0)        # depths tried (0 = no depth given = whole halo)


def _plan_names(tier, kind, has_reduction):
    out = []
    for dm in _dm_values(tier, kind):
        for step in _plan(tier, kind, dm, has_reduction):
            if "redundant" in step:
                name = _cfg_name(dm, step["annexed"],
                                 f"rc{step['redundant'] or 'max'}") + " (bounds only)"
            else:
                name = _cfg_name(dm, step["annexed"], step["variant"]) + \
                    ("" if step["run"] else " (bounds only)")
            out.append(name)
    return out


def bounds(tier):
    allc = _all_cases(tier)
    return {
        "builtins": len(T.ENTRIES),
        "invoke_shapes": {"lean": sum(1 for k, _, _ in allc if k == "lean"),
                          "extra": sum(1 for k, _, _ in allc if k == "extra")},
        "configurations": {"lean": _plan_names(tier, "lean", False),
                           "lean_reductions": _plan_names(tier, "lean", True),
                           "extra": _plan_names(tier, "extra", False)},
        "threads": {"none": [1], "openmp": [1, 2, 3]}, "spaces": list(SPACE_LIST),
        "field_values": "pattern 1: all pairs of {-2,-1,0,1,2,3}; pattern 2: "
                        "0.75*df-13.625 / 0.25*df+3 (integer: df-18 / 2*df+5)",
        "real_scalars": list(F.REAL_SCALARS), "integer_scalars": list(F.INT_SCALARS),
        "range_model": {f"dm{int(k[0])}-{k[1]}": v for k, v in R.MODEL.items()},
    }


def cases(tier):
    yield {"key": "S:selfcheck", "mode": "S"}
    yield {"key": "N:same-name-twice", "mode": "N"}
    for kind, tag, members in _groups(tier):
        for dm in _dm_values(tier, kind):
            yield {"key": f"A:{tag}:dm{int(dm)}", "mode": "A",
                   "set": kind, "tier": tier, "dm": dm,
                   "members": [[cid, case] for cid, case in members]}


# ---------------------------------------------------------------------------
# per-run state
# ---------------------------------------------------------------------------
_W = {}


def _remove(path, pid):
    if os.getpid() == pid:
        shutil.rmtree(path, ignore_errors=True)


def prepare(_tier):
    """Parent: cross-check the oracle table, build the stub infrastructure and
    the fixed part of the driver once, write the configuration files."""
    if "scratch" in _W:
        return
    from mc.runner import scratch_dir
    repo = os.environ.get("VERIF_REPO", "/repo")
    _W["cross"] = T.crosscheck(repo)
    T.selftest()
    path = scratch_dir("c20")
    atexit.register(_remove, path, os.getpid())
    _W["scratch"] = path
    _W["repo"] = repo
    _W["infra"] = os.path.join(path, "infra")
    F.build_infrastructure(repo, _W["infra"],
                           jobs=min(4, int(os.environ.get("VERIF_JOBS", "4"))))
    _W["util"] = F.build_util(_W["infra"], os.path.join(path, "util"))
    _W["cfg"] = P.write_configs(repo, os.path.join(path, "cfg"))


def init_worker(tier):
    prepare(tier)
    work = os.path.join(_W["scratch"], f"w{os.getpid()}")
    os.makedirs(work, exist_ok=True)
    os.chdir(work)
    _W["work"] = work
    _W["expected"] = {}
    import psyclone.domain.lfric.lfric_builtins as LB
    names = set(LB.BUILTIN_MAP_CAPITALISED)
    if names != set(T.ENTRIES):
        raise AssertionError(f"BUILTIN_MAP and the documented table differ: "
                             f"{sorted(names ^ set(T.ENTRIES))}")


# ---------------------------------------------------------------------------
# judging one run
# ---------------------------------------------------------------------------
def _cfg_name(dm, annexed, variant):
    return f"dm{int(dm)}-ann{int(annexed)}-{variant}"


def _expected(case, code, pat, scalars, ndof):
    key = (json.dumps(case, sort_keys=True), code, ndof)
    memo = _W.setdefault("expected", {})
    if key not in memo:
        memo[key] = F.expected(case, pat, scalars, ndof)
    return memo[key]


def _show_call(case):
    entry = T.ENTRIES[case["builtin"]]
    return f"{entry.name}({entry.signature.replace('*', '')})"


def _inputs_at(case, pat, scalars, dof):
    entry = T.ENTRIES[case["builtin"]]
    bits = []
    for arg, val in zip(entry.scalars_read, scalars):
        bits.append(f"{arg.name}={val}")
    for arg in entry.fields:
        if arg.written and not entry.reads_out:
            continue
        bits.append(f"{arg.name}(df)={F.initial(pat, case['sto'][arg.name], dof)}")
    return ", ".join(bits)


def judge_values(cid, case, flds, scas, ndof):
    """Compares everything the driver printed for one case with the documented
    values.  -> (verdicts [(kind, msg)], evals, nontrivial, dofs compared,
    dofs skipped)"""
    entry = T.ENTRIES[case["builtin"]]
    verdicts = []
    evals = nontrivial = compared = skipped = 0
    seen_kinds = set()
    for code, pat, scalars in F.case_inputs(case):
        exp = _expected(case, code, pat, scalars, ndof)
        evals += 1
        judged_here = 0
        skipped += exp["skipped"]
        out_sto = case["sto"][entry.out.name] if entry.out.is_field else None
        for sto in sorted(exp["sto"]):
            texts = flds.get((cid, code, sto))
            if texts is None or len(texts) != ndof:
                raise AssertionError(f"driver output for {cid}/{code}/{sto} "
                                     f"missing or of wrong length")
            is_int = sto[0] == "g"
            for dof, (want, text) in enumerate(zip(exp["sto"][sto], texts), 1):
                got = F.to_number(text, is_int)
                if exp["random"] == sto:
                    judged_here += 1
                    if not 0.0 <= got < 1.0 and "random" not in seen_kinds:
                        seen_kinds.add("random")
                        verdicts.append((
                            "random-outside-0-1",
                            f"{_show_call(case)}: DoF {dof} of the field holds "
                            f"{got!r} afterwards (documented: a pseudo-random "
                            f"number 0 <= x < 1; value before the call "
                            f"{float(want)!r})"))
                    continue
                if want is None:
                    continue
                judged_here += 1
                wantm = F.representable(want, is_int)
                if got == wantm:
                    continue
                kind = "wrong-value" if sto == out_sto else "other-argument-modified"
                if kind in seen_kinds:
                    continue
                seen_kinds.add(kind)
                if kind == "wrong-value":
                    verdicts.append((kind, (
                        f"{_show_call(case)} [{F.case_tag(case)}], pattern {pat}, "
                        f"DoF {dof}: {_inputs_at(case, pat, scalars, dof)}: "
                        f"documented '{entry.formula_text}' gives {want} "
                        f"(= {wantm!r}), the generated code stored {text}")))
                else:
                    verdicts.append((kind, (
                        f"{_show_call(case)} [{F.case_tag(case)}], pattern {pat}, "
                        f"DoF {dof} of storage {sto}, which the built-in only "
                        f"reads, changed from {wantm!r} to {text}")))
        if entry.is_reduction:
            text = scas.get((cid, code))
            if text is None:
                raise AssertionError(f"driver output for scalar {cid}/{code} missing")
            judged_here += 1
            got = F.to_number(text, False)
            wantm = F.representable(exp["scalar"], False)
            if got != wantm and "sum" not in seen_kinds:
                seen_kinds.add("sum")
                verdicts.append(("wrong-sum", (
                    f"{_show_call(case)} [{F.case_tag(case)}], pattern {pat}: "
                    f"documented '{entry.formula_text}' over all (owned) DoFs "
                    f"gives {exp['scalar']}, the generated code returned {text}")))
        compared += judged_here
        if judged_here:
            nontrivial += 1
    return verdicts, evals, nontrivial, compared, skipped


# ---------------------------------------------------------------------------
# generation + range check + build + run of one set of cases
# ---------------------------------------------------------------------------
class GroupFailure(Exception):
    def __init__(self, kind, detail, variant=None):
        super().__init__(f"{kind}: {detail[:400]}")
        self.kind = kind
        self.detail = detail
        self.variant = variant


def _judge_ranges(psy_text, members, dm, annexed, redundant, refused):
    """Range verdicts for every invoke of a generated PSy layer.
    -> ([(cid, kind, msg)], n judged, n refused as documented)"""
    subs = R.split_invokes(psy_text)
    out = []
    judged = ok_refused = 0
    for cid, case in members:
        entry = T.ENTRIES[case["builtin"]]
        name = f"invoke_{cid}"
        if name not in subs:
            raise R.RangeError(f"no subroutine {name} in the PSy layer")
        want = R.documented_last(dm, annexed, entry.is_reduction, redundant)
        if redundant is not None and name in refused:
            if want is None:
                ok_refused += 1
            else:
                out.append((cid, "redundant-computation-refused",
                            f"{entry.name}: Dynamo0p3RedundantComputationTrans "
                            f"refused: {refused[name][:200]}"))
            continue
        if want is None:
            out.append((cid, "reduction-computed-redundantly",
                        f"{entry.name}: Dynamo0p3RedundantComputationTrans was "
                        f"accepted for a reduction: the sum would include halo "
                        f"DoFs (documented: sum over owned DoFs)"))
            continue
        fields = [case["dummy"][a.name] for a in entry.fields]
        verdicts, _info = R.judge(subs[name], entry.name, fields,
                                  entry.is_reduction, "rs", dm, annexed,
                                  redundant)
        judged += 1
        for kind, msg in verdicts:
            out.append((cid, kind, f"{entry.name} [{F.case_tag(case)}]: {msg}"))
    return out, judged, ok_refused


def _psyclone_refusal(err):
    """A documented, clean refusal (an InternalError is not one)."""
    from psyclone.errors import GenerationError
    from psyclone.parse.utils import ParseError
    return isinstance(err, (GenerationError, ParseError))


def _new_result():
    return {"viol": [], "evals": 0, "nontrivial": 0, "states": 0,
            "classes": {}, "skipped": 0, "sample": None}


def run_members(members, dm, plan, workdir, single=False):
    """Generates, judges, compiles and runs one set of cases for one
    distributed-memory setting, step by step through `plan`.  With several
    members a problem that concerns the generated file as a whole (refusal,
    compile error, crash) raises GroupFailure; with `single` it becomes the
    verdict of that one case for that step and the other steps go on."""
    from psyclone.alg_gen import Alg
    res = _new_result()

    def count(name, num=1):
        res["classes"][name] = res["classes"].get(name, 0) + num

    def fail(kind, detail, cfg, step):
        if not single:
            raise GroupFailure(kind, detail, cfg)
        _cid, case = members[0]
        count(kind)
        if kind in ("generation-refused", "openmp-refused"):
            return          # a clean refusal by PSyclone is an allowed outcome
        res["viol"].append(_violation(
            "value", case, cfg, kind,
            f"{_show_call(case)} [{F.case_tag(case)}, {cfg}]: {kind}: "
            + detail[-1500:], _payload(case, dm, step)))

    os.makedirs(workdir, exist_ok=True)
    alg_path = os.path.join(workdir, "c20_alg.x90")
    with open(alg_path, "w", encoding="utf-8") as fout:
        fout.write(F.algorithm_text(members))
    P.load_config(_W["cfg"][False], False)
    try:
        ast, info = P.parse_algorithm(alg_path)
    except Exception as err:          # pylint: disable=broad-except
        if not _psyclone_refusal(err):
            raise
        fail("generation-refused", str(err), _cfg_name(dm, False, "none"),
             plan[0])
        return res
    alg_text = None
    by_id = dict(members)
    annexed_now = False
    runnable = []               # (step, cfg, variant, PSy-layer text)
    sample_loop = None
    for step in plan:
        annexed = step["annexed"]
        redundant = step.get("redundant")
        variant = step.get("variant", "none")
        cfg = _cfg_name(dm, annexed, variant if redundant is None
                        else f"rc{redundant or 'max'}")
        if annexed != annexed_now:
            P.load_config(_W["cfg"][annexed], annexed)
            annexed_now = annexed
        try:
            psy = P.create_psy(info, dm)
        except Exception as err:      # pylint: disable=broad-except
            if not _psyclone_refusal(err):
                raise
            fail("generation-refused", str(err), cfg, step)
            continue
        refused = {}
        for invoke in psy.invokes.invoke_list:
            if redundant is not None:
                why = P.apply_redundant(invoke.schedule, redundant)
            else:
                why = P.apply_openmp(invoke.schedule, variant)
            if why:
                refused[invoke.name] = why
        if refused and redundant is None:
            fail("openmp-refused", json.dumps(refused)[:600], cfg, step)
            continue
        if alg_text is None:
            alg_text = str(Alg(ast, psy).gen)
        psy_text = str(psy.gen)
        # ---- Part B on this very text
        rviol, judged, okref = _judge_ranges(psy_text, members, dm, annexed,
                                             redundant, refused)
        count("range-judged", judged)
        count("range-violations", len(rviol))
        if redundant is not None:
            count("redundant-computation-refused-for-reduction", okref)
        for cid, kind, msg in rviol:
            res["viol"].append(_violation("range", by_id[cid], cfg, kind, msg,
                                          _payload(by_id[cid], dm, step)))
        if redundant is None and step["run"]:
            runnable.append((step, cfg, variant, psy_text))
            if sample_loop is None:
                loop = R.dof_loops(
                    R.split_invokes(psy_text)[f"invoke_{members[0][0]}"])[0]
                sample_loop = (cfg, [loop["lower"], loop["upper"]])
    # ---- Part A: build and run.  A group: every runnable step in ONE
    # program; a single case: one program per step, so that a failure is
    # the verdict of that step only.
    batches = [[item] for item in runnable] if single else [runnable]
    for num, batch in enumerate(batches):
        if not batch:
            continue
        bdir = os.path.join(workdir, f"build{num}")
        openmp = any(variant != "none" for _, _, variant, _ in batch)
        exe, stage, out = F.compile_program(
            _W["infra"], _W["util"], bdir,
            [(alg_text, psy_text) for _, _, _, psy_text in batch], openmp)
        if exe is None:
            if stage in ("link", "main.f90"):
                raise AssertionError(f"{stage} failed:\n" + out[-2000:])
            fail(f"{stage.split('.')[0]}-does-not-compile", out, batch[0][1],
                 batch[0][0])
            continue
        crashed = False
        for space in SPACE_LIST:
            for nthr in (1, 2, 3):
                which = [k for k, (_, _, variant, _) in enumerate(batch, 1)
                         if nthr in _threads(variant)]
                if not which or crashed:
                    continue
                code, text = F.run_program(exe, space, nthr, which)
                undf, outputs, done = F.parse_output(text)
                if code != 0 or not done or sorted(outputs) != which:
                    last = max(outputs) if outputs else which[0]
                    fail("run-time-error",
                         f"exit code {code}, space {space}, {nthr} thread(s); "
                         f"output ends:\n"
                         + "\n".join(l for l in text.splitlines()
                                     if not l.startswith("FLD"))[-1500:],
                         batch[last - 1][1], batch[last - 1][0])
                    crashed = True
                    continue
                if undf is None or len(set(undf)) != 1 or undf[0] < F.MIN_NDOF:
                    raise AssertionError(f"unexpected UNDF line {undf}")
                for k in which:
                    step, cfg, variant, _ = batch[k - 1]
                    flds, scas = outputs[k]
                    for cid, case in members:
                        verd, evals, nontriv, compared, skipped = judge_values(
                            cid, case, flds, scas, undf[0])
                        res["evals"] += evals
                        res["nontrivial"] += nontriv
                        res["states"] += compared
                        res["skipped"] += skipped
                        count("executions-ok" if not verd
                              else "executions-wrong", evals)
                        for kind, msg in verd:
                            res["viol"].append(_violation(
                                "value", case, cfg, kind,
                                f"[{cfg}, space {space}, OMP_NUM_THREADS={nthr}]"
                                f" {msg}", _payload(case, dm, step)))
        shutil.rmtree(bdir, ignore_errors=True)
    if sample_loop is not None and res["evals"]:
        case = members[0][1]
        res["sample"] = {"builtin": case["builtin"], "shape": F.case_tag(case),
                         "config": sample_loop[0], "loop": sample_loop[1],
                         "inputs": len(F.case_inputs(case))}
    return res


def _payload(case, dm, step):
    return {"mode": "A", "case": case, "dm": dm, "step": step}


def _violation(part, case, cfg, kind, msg, payload):
    tag = F.case_tag(case)
    if kind == "reduction-computed-redundantly":
        cfg = "dm1-rc"      # one mechanism, whatever the depth / annexed flag
    sig = f"{part}:{case['builtin']}:{cfg}:{tag}:{kind}"
    return {"key": sig, "sig": sig, "msg": msg, "case": payload}


def _dedup(viol):
    seen = set()
    out = []
    for vio in viol:
        if vio["key"] not in seen:
            seen.add(vio["key"])
            out.append(vio)
    return out


def _merge_into(total, part):
    total["viol"] += part["viol"]
    for name in ("evals", "nontrivial", "states", "skipped"):
        total[name] += part[name]
    for cls, num in part["classes"].items():
        total["classes"][cls] = total["classes"].get(cls, 0) + num
    if total["sample"] is None:
        total["sample"] = part["sample"]


def run_robust(members, dm, plan, workdir):
    """run_members for the group; if the generated file as a whole fails
    (compile error, crash, refusal) every case is generated, built and run
    alone so that one bad case cannot mask the others."""
    try:
        return run_members(members, dm, plan, workdir, single=len(members) == 1)
    except GroupFailure:
        pass
    total = _new_result()
    total["classes"]["groups-rerun-case-by-case"] = 1
    for num, member in enumerate(members):
        sub = os.path.join(workdir, f"single{num}")
        _merge_into(total, run_members([member], dm, plan, sub, single=True))
        shutil.rmtree(sub, ignore_errors=True)
    return total


# ---------------------------------------------------------------------------
# runner interface
# ---------------------------------------------------------------------------
def _selfcheck():
    """The parsed algorithm is shared between the steps of a plan (parsed once
    under the COMPUTE_ANNEXED_DOFS=false configuration): regenerating from a
    fresh parse under a fresh configuration must give identical text."""
    members = []
    for name in ["inc_aX_plus_bY", "X_innerproduct_Y", "int_sign_X"]:
        for case in F.enumerate_cases(name, "quick", "lean"):
            members.append((f"c{len(members):04d}", case))
    workdir = os.path.join(_W["work"], "selfcheck")
    os.makedirs(workdir, exist_ok=True)
    path = os.path.join(workdir, "c20_alg.x90")
    with open(path, "w", encoding="utf-8") as fout:
        fout.write(F.algorithm_text(members))
    P.load_config(_W["cfg"][False], False)
    _ast, info = P.parse_algorithm(path)
    shared = {}
    for annexed, dm, variant in ((False, True, "pardo-reprod"),
                                 (False, False, "none"),
                                 (True, True, "none"),
                                 (True, False, "pardo-reprod")):
        P.load_config(_W["cfg"][annexed], annexed)
        psy = P.create_psy(info, dm)
        for invoke in psy.invokes.invoke_list:
            P.apply_openmp(invoke.schedule, variant)
        shared[(annexed, dm, variant)] = str(psy.gen)
    for (annexed, dm, variant), text in sorted(shared.items()):
        P.load_config(_W["cfg"][annexed], annexed)
        _alg, fresh, _ref, _sum = P.generate(path, dm, variant)
        if fresh != text:
            raise AssertionError(
                f"PSy layer from a shared parse differs from a fresh one "
                f"(annexed={annexed}, dm={dm}, {variant})")
    shutil.rmtree(workdir, ignore_errors=True)
    return len(shared)


def _same_name_twice():
    """X_plus_Y(f1, f1, f2): the same field NAME twice in one built-in call.
    PSyclone refuses that (GenerationError), which is an allowed outcome; the
    executed aliasing cases therefore pass the same data under two names.
    Returns the outcome classes."""
    classes = {}
    workdir = os.path.join(_W["work"], "samename")
    os.makedirs(workdir, exist_ok=True)
    P.load_config(_W["cfg"][False], False)
    for name, entry in T.ENTRIES.items():
        for part in F.partitions(len(entry.fields)):
            fams = F.field_families(entry, F.family_variants(entry, "quick")[-1])
            if len(set(part)) == len(part) or not F.legal_partition(entry, fams, part):
                continue
            case = F.build_case(entry, F.family_variants(entry, "quick")[-1],
                                part, None)
            case["dummy"] = dict(case["sto"])       # the SAME name, not a twin
            path = os.path.join(workdir, "c20_alg.x90")
            with open(path, "w", encoding="utf-8") as fout:
                fout.write(F.algorithm_text([("c0000", case)]))
            try:
                _ast, info = P.parse_algorithm(path)
                P.create_psy(info, True).gen      # pylint: disable=expression-not-assigned
                outcome = "same-name-twice-accepted-not-judged"
            except Exception as err:              # pylint: disable=broad-except
                if not _psyclone_refusal(err):
                    raise
                outcome = "same-name-twice-refused"
            classes[outcome] = classes.get(outcome, 0) + 1
    shutil.rmtree(workdir, ignore_errors=True)
    return classes


def run_case(case):
    if case["mode"] == "N":
        return {"evals": 0, "nontrivial": 0, "classes": _same_name_twice()}
    if case["mode"] == "S":
        num = _selfcheck()
        return {"evals": 0, "nontrivial": 0,
                "classes": {"selfcheck-regenerations-identical": num},
                "extra": {"table_crosscheck": _W["cross"]}}
    members = [(cid, cdict) for cid, cdict in case["members"]]
    has_red = any(T.ENTRIES[c["builtin"]].is_reduction for _, c in members)
    plan = _plan(case["tier"], case["set"], case["dm"], has_red)
    workdir = os.path.join(_W["work"], case["key"].replace(":", "_"))
    before = os.times()
    try:
        res = run_robust(members, case["dm"], plan, workdir)
    finally:
        shutil.rmtree(workdir, ignore_errors=True)
    if os.environ.get("VERIF_C20_TIMING"):       # development aid only
        import sys
        now = os.times()
        print(f"TIMING {case['key']} python={now.user + now.system - before.user - before.system:.1f}s "
              f"children={now.children_user + now.children_system - before.children_user - before.children_system:.1f}s",
              file=sys.stderr)
    out = {"evals": res["evals"], "nontrivial": res["nontrivial"],
           "states": res["states"], "transitions": res["evals"],
           "validated": res["evals"], "classes": res["classes"],
           "viol": _dedup(res["viol"]),
           "extra": {"dofs_not_judged_undefined_or_irrational": res["skipped"]}}
    if res["sample"]:
        out["sample"] = res["sample"]
    return out


def replay(case):
    """Re-generates, builds and runs the single invoke of a violation payload
    in its configuration (every space / thread count / input of that invoke)."""
    member = ("c0000", case["case"])
    workdir = os.path.join(_W["work"], "replay")
    step = dict(case["step"])
    if "redundant" not in step:
        step["run"] = True
    try:
        res = run_members([member], case["dm"], [step], workdir, single=True)
    finally:
        shutil.rmtree(workdir, ignore_errors=True)
    return {"evals": res["evals"], "classes": res["classes"],
            "viol": _dedup(res["viol"])}
