"""C14 The PSyIR tree stays well-formed under any sequence of edits.

Explicit-state breadth-first search over REAL PSyIR objects.  A "world" is a
seed tree (Loop, IfBlock, Call, ...) plus a pool of orphan sub-trees; every
node of the world gets a creation-order id.  A state is the history of
operations that reaches it; ``World.build(seed, pool, hist)`` constructs fresh
PSyIR objects and replays the history.  From every state at depth < D every
operation of the alphabet (addchild / insert / __setitem__ / __delitem__ / pop
/ remove / extend / clear / reverse / children-setter / pop_all_children /
detach / replace_with; indices -5..5; every node of the world as argument,
the target itself and its ancestors included) is executed on the real objects and judged:

* the operation raised  -> the fingerprint (every node's parent link and
  children list, by creation id) must be exactly what it was before;
* the operation returned -> the well-formedness invariant must hold on the
  whole world: every listed child has ``parent is node``, is listed exactly
  once by exactly one node, ``type(node)._validate_child(position, child)``
  holds for its actual position, and every node with a parent is listed
  by that parent.

Whether an operation is accepted or rejected is never judged.  States are
de-duplicated on the fingerprint; ill-formed states are reported and not
expanded (so one defect does not cascade into thousands of reports).  Worlds
without a pool are explored until the frontier is empty, i.e. for histories
of any length.
"""
import itertools
import operator
import sys

ID = "C14"
LEVEL = "model_checking"
EXHAUSTIVE = True
CASE_TIMEOUT = 1500
RULE = ("a work item is one world = (seed tree, set of orphan pool trees); inside it every "
        "history of operations up to the depth bound is explored breadth-first on freshly "
        "built real PSyIR objects, de-duplicated on the fingerprint (parent id + ordered "
        "child ids of every node, ids = creation order, plus Call argument names); an "
        "evaluation is one executed transition (state, operation); a transition is "
        "non-trivial when PSyclone rejects it (atomicity is then checked) or it changes the "
        "fingerprint (the invariant is then checked on the new tree); every expanded state "
        "is a distinct fingerprint of its world and every operation is tried exactly once "
        "per expanded state, so the counted non-trivial transitions are pairwise distinct")
ASSUMPTIONS = [
    "a child is 'of a kind valid at its position' iff the owning class's own "
    "_validate_child(position, child) says so (the per-class rule is the specification; "
    "the ChildrenList / Node editing machinery is what is judged)",
    "operation targets are the seed's top node n0 and the nodes at depth <= 2 below it, "
    "wherever n0 currently is (for detach and replace_with: every node of the world); "
    "arguments are every node of the world, orphan or not, the target itself and its "
    "ancestors included",
    "list arguments of extend() and of the children setter have length <= 2 and are "
    "drawn from the current parentless nodes and the target's own current children "
    "(including the same node twice)",
    "nodes created with a constructor parent= argument (dangling by design) and the "
    "list methods ChildrenList does not override (+=, *=, slices) are not in the alphabet; "
    "addchild(x, i) is a plain delegation to children.insert(i, x), which is what is run",
    "completeness of a node (e.g. a Loop having all four children) is not demanded: the "
    "property text only speaks about the children that are present",
]

INDICES = list(range(-5, 6))
TARGET_DEPTH = 2
RECURSION_LIMIT = 150
MAX_VIOL_PER_SIG = 2          # reported per work item; the rest is only counted

SEEDS = ["Loop", "LoopEmpty", "IfElse", "If", "Assignment", "Call",
         "BinaryOperation", "Range", "ArrayReference", "Schedule",
         "OMPParallel", "Routine"]
POOL = ["Literal", "Reference", "Schedule", "Assignment", "Loop", "Return",
        "Clause"]

# Per tier: list of (pool size, depth bound).
TIERS = {
    "quick": [(0, 8), (1, 3), (2, 2)],
    "thorough": [(0, 8), (1, 4), (2, 3), (3, 2)],
}

OP_KINDS = ["addchild", "insert", "setitem", "del", "pop", "remove", "extend",
            "assign", "clear", "reverse", "popall", "detach", "replace"]


def bounds(tier):
    return {"indices": [INDICES[0], INDICES[-1]], "target_depth": TARGET_DEPTH,
            "seeds": SEEDS, "pool_kinds": POOL,
            "pool_size_and_depth": [{"pool_size": s, "depth": d,
                                     "worlds": len(SEEDS) * sum(
                                         1 for _ in itertools.combinations(POOL, s))}
                                    for s, d in TIERS[tier]],
            "list_argument_max_len": 2, "operations": OP_KINDS}


def _wkey(seed, pool):
    return "+".join([seed] + list(pool))


def cases(tier):
    for size, depth in TIERS[tier]:
        for seed in SEEDS:
            for pool in itertools.combinations(POOL, size):
                yield {"key": _wkey(seed, pool), "seed": seed,
                       "pool": list(pool), "depth": depth}


# ---------------------------------------------------------------------------
# real objects
# ---------------------------------------------------------------------------
class _Harness(Exception):
    """A failure of this harness (never a verdict)."""


_NODES = None     # psyclone.psyir.nodes
_SYMS = None      # psyclone.psyir.symbols
_CID = operator.attrgetter("_c14")
_IS = operator.is_


def init_worker(_tier):
    global _NODES, _SYMS
    if _NODES is None:
        from psyclone.psyir import nodes, symbols
        _NODES, _SYMS = nodes, symbols
    # An operation that places a node underneath itself makes
    # Node.update_signal recurse until RecursionError.  With the default
    # limit that costs 15 ms per occurrence, with this one 0.1 ms; the
    # operations themselves need fewer than 20 frames on these trees.
    sys.setrecursionlimit(RECURSION_LIMIT)


def _lit(val):
    return _NODES.Literal(val, _SYMS.INTEGER_TYPE)


def _ref(name):
    return _NODES.Reference(_SYMS.DataSymbol(name, _SYMS.INTEGER_TYPE))


def _assign(name, val):
    return _NODES.Assignment.create(_ref(name), _lit(val))


def _loop(var, stop, body):
    return _NODES.Loop.create(_SYMS.DataSymbol(var, _SYMS.INTEGER_TYPE),
                              _lit("1"), _lit(stop), _lit("1"), body)


# Structurally equal siblings (Literal 1 / Literal 1, Return / Return) are
# deliberate: Node.__eq__ is structural and list.remove/index use it.
_SEED_BUILDERS = {
    "Loop": lambda: _loop("i", "10", [_NODES.Return()]),
    "LoopEmpty": lambda: _NODES.Loop(
        variable=_SYMS.DataSymbol("i", _SYMS.INTEGER_TYPE)),
    "IfElse": lambda: _NODES.IfBlock.create(_ref("c"), [_NODES.Return()],
                                            [_NODES.Return()]),
    "If": lambda: _NODES.IfBlock.create(_ref("c"), [_NODES.Return()]),
    "Assignment": lambda: _assign("a", "1"),
    "Call": lambda: _NODES.Call.create(_SYMS.RoutineSymbol("sub"),
                                       [_lit("1"), ("named", _ref("a"))]),
    "BinaryOperation": lambda: _NODES.BinaryOperation.create(
        _NODES.BinaryOperation.Operator.ADD, _ref("a"), _lit("1")),
    "Range": lambda: _NODES.Range.create(_lit("1"), _lit("10"), _lit("1")),
    "ArrayReference": lambda: _NODES.ArrayReference.create(
        _SYMS.DataSymbol("arr", _SYMS.ArrayType(_SYMS.INTEGER_TYPE, [10, 10])),
        [_lit("1"), _ref("i")]),
    "Schedule": lambda: _NODES.Schedule(children=[
        _assign("a", "1"), _NODES.Return(), _NODES.Return()]),
    "OMPParallel": lambda: _NODES.OMPParallelDirective.create(
        children=[_NODES.Return()]),
    "Routine": lambda: _NODES.Routine.create(
        "r", _SYMS.SymbolTable(), [_assign("a", "1"), _NODES.Return()]),
}
_POOL_BUILDERS = {
    "Literal": lambda: _lit("1"),
    "Reference": lambda: _ref("b"),
    "Schedule": lambda: _NODES.Schedule(),
    "Assignment": lambda: _assign("b", "3"),
    "Loop": lambda: _loop("j", "5", []),
    "Return": lambda: _NODES.Return(),
    "Clause": lambda: _NODES.OMPPrivateClause(),
}


class World:
    """Fresh real objects for (seed, pool) with creation-order ids."""

    def __init__(self, seed, pool):
        self.seed, self.pool = seed, tuple(pool)
        roots = [_SEED_BUILDERS[seed]()] + [_POOL_BUILDERS[k]() for k in pool]
        self.nodes = []
        for root in roots:
            self._number(root)
        self.names = [type(n).__name__ for n in self.nodes]
        self.calls = [n for n in self.nodes if isinstance(n, _NODES.Call)]

    def _number(self, node):
        node._c14 = len(self.nodes)   # harness-only attribute: the creation id
        self.nodes.append(node)
        for child in list(node.children):
            self._number(child)

    # -- observation ------------------------------------------------------
    def fingerprint(self):
        """Identity-normalised fingerprint of the whole world.

        For every node (in creation order): the creation id of its parent
        (-1 if none) and the ordered creation ids of its children; for Call
        nodes also the public argument_names (replace_with reads them).  No
        operation of the alphabet reads or writes anything else - node
        attributes such as literal values, symbols and operators are never
        touched, and no node is created or destroyed - so two states of the
        same world with equal fingerprints are indistinguishable to every
        later operation.  Nothing is dropped, so nothing needs justifying
        beyond that.  No id()/hash order is involved.
        """
        out = []
        for node in self.nodes:
            par = node.parent
            out.append((-1 if par is None else par._c14,
                        tuple(map(_CID, node.children))))
        for call in self.calls:
            out.append(tuple(call.argument_names))
        return tuple(out)

    def snapshot(self):
        """The same information as fingerprint(), as object references, for
        the fast `unchanged` test after a rejected operation."""
        return ([(node.parent, list(node.children)) for node in self.nodes],
                [list(call.argument_names) for call in self.calls])

    def unchanged(self, snap):
        """True iff fingerprint() equals what it was when `snap` was taken
        (identity comparisons only - never Node.__eq__)."""
        for node, (par, kids) in zip(self.nodes, snap[0]):
            if node.parent is not par:
                return False
            now = node.children
            if len(now) != len(kids) or not all(map(_IS, now, kids)):
                return False
        for call, names in zip(self.calls, snap[1]):
            if call.argument_names != names:
                return False
        return True

    def breakages(self):
        """Well-formedness invariant on the whole world.  Returns a sorted
        list of (kind, owner id, position, child id); empty = well-formed."""
        bad = []
        listed = {}
        for node in self.nodes:
            validate = type(node)._validate_child
            for pos, child in enumerate(node.children):
                cid = child._c14
                listed.setdefault(cid, []).append((node._c14, pos))
                if child.parent is not node:
                    bad.append(("child-has-other-parent", node._c14, pos, cid))
                if not validate(pos, child):
                    bad.append(("invalid-child", node._c14, pos, cid))
        for node in self.nodes:
            where = listed.get(node._c14, [])
            if len(where) > 1:
                bad.append(("listed-more-than-once", where[0][0], where[0][1],
                            node._c14))
            par = node.parent
            if par is not None and not any(c is node for c in par.children):
                bad.append(("parent-does-not-list-it", par._c14, -1, node._c14))
        return sorted(bad)

    # -- enumeration ------------------------------------------------------
    def targets(self):
        """Ids of the seed's top node and of the nodes at depth <=
        TARGET_DEPTH below it (breadth-first, by position; robust against
        nodes that are listed more than once)."""
        seen = {0}
        level = [self.nodes[0]]
        out = [0]
        for _ in range(TARGET_DEPTH):
            nxt = []
            for node in level:
                for child in node.children:
                    if child._c14 not in seen:
                        seen.add(child._c14)
                        nxt.append(child)
                        out.append(child._c14)
            level = nxt
        return out

    def operations(self):
        """Every operation of the alphabet enumerated in this (well-formed)
        state, in a deterministic order."""
        nodes = self.nodes
        others = list(range(len(nodes)))
        loose = [k for k in others if nodes[k].parent is None]
        out = []
        for tgt in self.targets():
            for arg in others:
                out.append(("addchild", tgt, arg))
                out.append(("remove", tgt, arg))
                for idx in INDICES:
                    out.append(("insert", tgt, idx, arg))
                    out.append(("setitem", tgt, idx, arg))
            out.append(("pop", tgt, None))
            for idx in INDICES:
                out.append(("pop", tgt, idx))
                out.append(("del", tgt, idx))
            out.append(("clear", tgt))
            out.append(("reverse", tgt))
            out.append(("popall", tgt))
            elems = loose + [c._c14 for c in nodes[tgt].children]
            lists = [[]] + [[a] for a in elems] + \
                [[a, b] for a in elems for b in elems]
            for lst in lists:
                out.append(("extend", tgt, lst))
                out.append(("assign", tgt, lst))
        for arg in others:
            out.append(("detach", arg))
        for arg in others:
            for new in others:
                out.append(("replace", arg, new))
        return out

    # -- execution --------------------------------------------------------
    def apply(self, oper):
        """Run one operation on the real objects.  Returns None when it
        returned normally, else the name of the exception class."""
        nodes = self.nodes
        name = oper[0]
        tgt = nodes[oper[1]]
        try:
            if name == "addchild":
                tgt.addchild(nodes[oper[2]])
            elif name == "insert":
                tgt.children.insert(oper[2], nodes[oper[3]])
            elif name == "setitem":
                tgt.children[oper[2]] = nodes[oper[3]]
            elif name == "del":
                del tgt.children[oper[2]]
            elif name == "pop":
                if oper[2] is None:
                    tgt.children.pop()
                else:
                    tgt.children.pop(oper[2])
            elif name == "remove":
                tgt.children.remove(nodes[oper[2]])
            elif name == "extend":
                tgt.children.extend([nodes[k] for k in oper[2]])
            elif name == "assign":
                tgt.children = [nodes[k] for k in oper[2]]
            elif name == "clear":
                tgt.children.clear()
            elif name == "reverse":
                tgt.children.reverse()
            elif name == "popall":
                tgt.pop_all_children()
            elif name == "detach":
                tgt.detach()
            elif name == "replace":
                tgt.replace_with(nodes[oper[2]])
            else:
                raise _Harness(f"unknown operation {oper!r}")
        except _Harness:
            raise
        except Exception as err:  # pylint: disable=broad-except
            return type(err).__name__
        return None

    @classmethod
    def build(cls, seed, pool, hist):
        """Fresh world with the history replayed.  The fingerprint is taken
        after every step exactly as during exploration (taking it calls
        Call.argument_names, which reconciles the Call's internal name list)."""
        world = cls(seed, pool)
        world.fingerprint()
        for oper in hist:
            world.apply(oper)
            world.fingerprint()
        return world

    # -- rendering --------------------------------------------------------
    def label(self, idx):
        return f"n{idx}:{self.names[idx]}"

    def show_op(self, oper):
        lab = self.label
        name = oper[0]
        if name == "addchild":
            return f"{lab(oper[1])}.addchild({lab(oper[2])})"
        if name == "insert":
            return f"{lab(oper[1])}.children.insert({oper[2]}, {lab(oper[3])})"
        if name == "setitem":
            return f"{lab(oper[1])}.children[{oper[2]}] = {lab(oper[3])}"
        if name == "del":
            return f"del {lab(oper[1])}.children[{oper[2]}]"
        if name == "pop":
            arg = "" if oper[2] is None else str(oper[2])
            return f"{lab(oper[1])}.children.pop({arg})"
        if name == "remove":
            return f"{lab(oper[1])}.children.remove({lab(oper[2])})"
        if name == "extend":
            return (f"{lab(oper[1])}.children.extend(["
                    f"{', '.join(lab(k) for k in oper[2])}])")
        if name == "assign":
            return (f"{lab(oper[1])}.children = ["
                    f"{', '.join(lab(k) for k in oper[2])}]")
        if name == "clear":
            return f"{lab(oper[1])}.children.clear()"
        if name == "reverse":
            return f"{lab(oper[1])}.children.reverse()"
        if name == "popall":
            return f"{lab(oper[1])}.pop_all_children()"
        if name == "detach":
            return f"{lab(oper[1])}.detach()"
        return f"{lab(oper[1])}.replace_with({lab(oper[2])})"

    def show_tree(self, fprint=None):
        """Text form of a fingerprint: every parentless node with its listed
        descendants, e.g. n0:Loop[n1:Literal, ...]; dangling parent links are
        appended in braces."""
        fprint = self.fingerprint() if fprint is None else fprint
        count = len(self.nodes)

        def sub(idx, stack):
            kids = fprint[idx][1]
            if not kids:
                return self.label(idx)
            if idx in stack:
                return self.label(idx) + "[...]"
            inner = ", ".join(sub(k, stack + (idx,)) for k in kids)
            return f"{self.label(idx)}[{inner}]"
        tops = [k for k in range(count) if fprint[k][0] == -1]
        text = "; ".join(sub(k, ()) for k in tops)
        reach = set()
        todo = list(tops)
        while todo:
            cur = todo.pop()
            if cur not in reach:
                reach.add(cur)
                todo.extend(fprint[cur][1])
        loops = [k for k in range(count) if k not in reach]
        if loops:
            # nodes that are their own ancestors: show the cycle once
            text += ("; " if text else "") + "CYCLE " + sub(loops[0], ())
        odd = [f"{self.label(k)}.parent={self.label(fprint[k][0])}"
               for k in range(count)
               if fprint[k][0] != -1 and k not in fprint[fprint[k][0]][1]]
        if odd:
            text += " {but " + ", ".join(odd) + "}"
        return text


# ---------------------------------------------------------------------------
# judging one transition
# ---------------------------------------------------------------------------
def _shape(oper, length):
    """Shape class of the operation's index / list argument; `length` is the
    number of children of the target before the operation."""
    name = oper[0]
    if name in ("insert", "setitem", "del", "pop"):
        idx = oper[2]
        if idx is None:
            return "()"
        if idx < 0:
            return "(neg)"
        if idx > length or (idx == length and name != "insert"):
            return "(past-end)"
        return "(in-range)"
    if name in ("extend", "assign"):
        lst = oper[2]
        if len(lst) == 2 and lst[0] == lst[1]:
            return "([x,x])"
    return ""


def _has_cycle(world, fprint):
    """True iff some node is its own ancestor in the fingerprint."""
    for start in range(len(world.nodes)):
        cur = fprint[start][0]
        for _ in range(len(world.nodes)):
            if cur == -1:
                break
            if cur == start:
                return True
            cur = fprint[cur][0]
        else:
            return True
    return False


def judge(world, before, length, oper, raised, after):
    """(sig, msg) if the transition before --oper--> after violates the
    property, else None.  `before`/`after` are fingerprints."""
    if raised is not None:
        if raised == "RecursionError" and not _has_cycle(world, after):
            raise _Harness(f"{world.show_op(oper)}: RecursionError without a cycle "
                           f"(RECURSION_LIMIT too low for the code under test?)")
        if after != before:
            return (f"{oper[0]}:raised-{raised}-but-tree-changed",
                    f"{world.show_op(oper)} raised {raised} but did not leave the "
                    f"tree as it was. Before: {world.show_tree(before)} ; after: "
                    f"{world.show_tree(after)}")
        return None
    if after == before:
        return None          # `before` is a well-formed state
    bad = world.breakages()
    if not bad:
        return None
    head = f"{oper[0]}{_shape(oper, length)}"
    kinds = "+".join(sorted({b[0] for b in bad}))
    detail = "; ".join(
        f"{k} (child {world.label(c)} of {world.label(o)}"
        + (f" at position {p}" if p >= 0 else "") + ")"
        for k, o, p, c in bad[:4])
    return (f"{head}:{kinds}",
            f"{world.show_op(oper)} was accepted and left an ill-formed tree: "
            f"{detail}. Before: {world.show_tree(before)} ; after: "
            f"{world.show_tree(after)}")


# ---------------------------------------------------------------------------
# exploration of one world
# ---------------------------------------------------------------------------
def _op_key(oper):
    return ",".join("-" if v is None else
                    ("[" + ".".join(map(str, v)) + "]"
                     if isinstance(v, (list, tuple)) else str(v)) for v in oper)


def explore(seed, pool, depth):
    pool = tuple(pool)
    wkey = _wkey(seed, pool)
    world = World(seed, pool)
    start = world.fingerprint()
    if world.breakages():
        raise _Harness(f"seed world {wkey} is not well-formed")
    seen = {start}
    frontier = [((), start)]
    stats = {"states": 1, "transitions": 0, "nontrivial": 0, "expanded": 0}
    by_depth = {"0": 1}
    classes = {}
    outcomes = {}
    viol = []
    per_sig = {}
    sample = None

    for level in range(depth):
        nxt = []
        for hist, fprint in frontier:
            world = World.build(seed, pool, hist)
            if world.fingerprint() != fprint:
                raise _Harness(f"replaying {hist!r} in {wkey} is not deterministic")
            snap = world.snapshot()
            stats["expanded"] += 1
            for oper in world.operations():
                length = len(world.nodes[oper[1]].children)
                raised = world.apply(oper)
                stats["transitions"] += 1
                if raised is not None and world.unchanged(snap):
                    # rejected and atomic: by far the most frequent outcome
                    stats["nontrivial"] += 1
                    cls = f"rejected:{raised}"
                    classes[cls] = classes.get(cls, 0) + 1
                    okey = oper[0] + ":rejected"
                    outcomes[okey] = outcomes.get(okey, 0) + 1
                    continue
                after = world.fingerprint()
                verdict = judge(world, fprint, length, oper, raised, after)
                if verdict:
                    cls = "VIOLATION:" + ("not-atomic" if raised else "ill-formed")
                    stats["nontrivial"] += 1
                    okey = oper[0] + (":rejected" if raised else ":accepted-changed")
                    outcomes[okey] = outcomes.get(okey, 0) + 1
                    sig, msg = verdict
                    per_sig[sig] = per_sig.get(sig, 0) + 1
                    if per_sig[sig] <= MAX_VIOL_PER_SIG:
                        steps = list(hist) + [oper]
                        viol.append({
                            "key": f"{wkey}:" + ";".join(_op_key(o) for o in steps),
                            "sig": sig, "msg": msg,
                            "case": {"seed": seed, "pool": list(pool),
                                     "hist": [list(o) for o in hist],
                                     "op": list(oper)}})
                elif raised is not None:
                    raise _Harness("unchanged() and fingerprint() disagree")
                elif after == fprint:
                    cls = "accepted:no-change"
                    okey = oper[0] + ":accepted-no-change"
                    outcomes[okey] = outcomes.get(okey, 0) + 1
                else:
                    cls = "accepted:changed"
                    stats["nontrivial"] += 1
                    okey = oper[0] + ":accepted-changed"
                    outcomes[okey] = outcomes.get(okey, 0) + 1
                    if after not in seen:
                        seen.add(after)
                        stats["states"] += 1
                        dkey = str(level + 1)
                        by_depth[dkey] = by_depth.get(dkey, 0) + 1
                        nxt.append((hist + (oper,), after))
                        if level == depth - 1 and (
                                sample is None or stats["states"] % 61 == 0):
                            sample = {"world": wkey,
                                      "history": [world.show_op(o)
                                                  for o in hist + (oper,)],
                                      "state": world.show_tree(after)}
                classes[cls] = classes.get(cls, 0) + 1
                if after != fprint:
                    # never continue on objects an operation has changed
                    world = World.build(seed, pool, hist)
                    snap = world.snapshot()
        frontier = nxt
    # States of the last level are not expanded; their invariant was
    # evaluated when they were first reached (judge() above).  An empty
    # frontier means every reachable well-formed state has been expanded:
    # the world is then covered for histories of ANY length.
    stats["closed"] = 0 if frontier else 1
    return {"stats": stats, "by_depth": by_depth, "classes": classes,
            "outcomes": outcomes, "viol": viol, "per_sig": per_sig,
            "sample": sample}


def run_case(case):
    got = explore(case["seed"], case["pool"], case["depth"])
    stats = got["stats"]
    res = {"evals": stats["transitions"], "nontrivial": stats["nontrivial"],
           "states": stats["states"], "transitions": stats["transitions"],
           "validated": stats["transitions"], "classes": got["classes"],
           "viol": got["viol"],
           "extra": {"expanded_states": stats["expanded"],
                     "worlds_explored_to_fixed_point": stats["closed"],
                     "states_by_depth": got["by_depth"],
                     "operation_outcomes": got["outcomes"],
                     "violating_transitions_by_sig": got["per_sig"]}}
    if got["sample"]:
        res["sample"] = got["sample"]
    return res


def finish(_tier, totals):
    """Vacuity guard: every kind of operation must have been accepted with
    an effect somewhere (and every kind that can be refused, refused);
    violating transitions count as well."""
    outcomes = totals["extra"].get("operation_outcomes", {})
    for kind in OP_KINDS:
        if not outcomes.get(kind + ":accepted-changed"):
            raise _Harness(f"operation kind {kind} was never accepted")
        if kind not in ("clear", "popall") and \
                not outcomes.get(kind + ":rejected"):
            raise _Harness(f"operation kind {kind} was never rejected")
    return {}


def replay(case):
    """Re-execute one violating transition on fresh real objects."""
    init_worker("quick")
    seed, pool = case["seed"], tuple(case["pool"])
    hist = [tuple(o) for o in case["hist"]]
    oper = tuple(case["op"])
    world = World.build(seed, pool, hist)
    before = world.fingerprint()
    if world.breakages():
        raise _Harness("the replayed history does not give a well-formed state")
    length = len(world.nodes[oper[1]].children)
    raised = world.apply(oper)
    after = world.fingerprint()
    verdict = judge(world, before, length, oper, raised, after)
    out = {"world": _wkey(seed, pool),
           "history": [world.show_op(o) for o in hist],
           "operation": world.show_op(oper),
           "raised": raised,
           "before": world.show_tree(before),
           "after": world.show_tree(after),
           "viol": []}
    if verdict:
        out["viol"].append({"sig": verdict[0], "msg": verdict[1]})
    return out
