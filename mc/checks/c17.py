"""C17 Symbolic comparisons agree with Fortran integer arithmetic.

Every pair (left, right) of a bounded, exhaustively enumerated set of integer
expressions is given to the real SymbolicMaths.equal / never_equal /
solve_equal_for / expand; every positive claim is checked against the E1
integer evaluator on every valuation of {i,j,n} in a cube and two contents of
the index array.
"""
import itertools

ID = "C17"
LEVEL = "model_checking"
EXHAUSTIVE = True
CASE_TIMEOUT = 1800
RULE = ("all expressions with <=1 operator over {+,-,*,/,**2,unary -,MOD,MIN,MAX,a(.)} "
        "and leaves {i,j,n,1,2,3} are paired with each other; expressions with 2 "
        "operators over reduced leaves are paired with every <=1-operator expression "
        "over the same leaves (thorough: larger leaf sets); each pair is run through "
        "equal, never_equal and (left set only) solve_equal_for on the loop variable, "
        "each expression through expand; a pair is non-trivial when PSyclone makes a "
        "positive claim about it (equal / never equal / finite solution set) which is "
        "then evaluated on every valuation")
ASSUMPTIONS = [
    "E1 integer semantics (truncating division, MOD with the sign of the dividend, "
    "MIN/MAX) is the reference; it is cross-checked against gfortran by "
    "mc/fortsem conformance (dev/conformance_c17.py, thorough tier)",
    "valuations: i,j,n in -4..4, array contents a(k)=5 and a(k)=k*k-2; valuations on "
    "which either side is undefined (division by zero) are skipped",
    "a False / 'independent' answer is a non-claim and is never judged",
]

LEAVES = ["i", "j", "n", "1", "2", "3"]
BINOPS = ["+", "-", "*", "/"]
FUNCS = ["mod", "min", "max"]
VALS = range(-4, 5)


def size1(leaves):
    out = []
    for lhs, rhs in itertools.product(leaves, leaves):
        for oper in BINOPS:
            out.append(f"{lhs} {oper} {rhs}")
        for func in FUNCS:
            out.append(f"{func}({lhs}, {rhs})")
    for leaf in leaves:
        out.append(f"-{leaf}")
        out.append(f"{leaf}**2")
        out.append(f"a({leaf})")
    return out


def size2(leaves, inner_leaves, funcs=True):
    out = []
    inner = size1(inner_leaves)
    for sub in inner:
        par = f"({sub})"
        for leaf in leaves:
            for oper in BINOPS:
                out.append(f"{par} {oper} {leaf}")
                out.append(f"{leaf} {oper} {par}")
            if funcs:
                for func in FUNCS:
                    out.append(f"{func}({sub}, {leaf})")
                    out.append(f"{func}({leaf}, {sub})")
        if not sub.startswith("-"):
            out.append(f"-{par}")
        if not sub.startswith("a("):
            out.append(f"a({sub})")
    return out


def sign_space():
    """MIN/MAX/ABS-free sign-sensitive forms: operands that are zero, negative
    constants, negated variables or sums, so that a comparison that is only
    valid for positive (or non-zero) variables gives a wrong claim."""
    args = ["0", "-1", "-j", "i + j", "2 * i", "j", "i - 1"]
    left = []
    for func in ("min", "max"):
        for arg in args:
            left.append(f"{func}(i, {arg})")
            left.append(f"{func}({arg}, i)")
            left.append(f"a({func}(i, {arg}))")
            left.append(f"(i + 1) * {func}(j, {arg if arg != 'j' else '0'})")
    left += ["mod(i, 2)", "mod(-i, 2)", "mod(i, -2)", "i * j / j", "i ** 2 / i",
             "(i * i) / i", "0 * i", "i - i", "i / i"]
    left = list(dict.fromkeys(left))
    right = ["i", "j", "0", "-1", "1", "-j", "i + j", "2 * i", "i + 1", "i - 1",
             "a(i)", "-i", "i * j + j", "mod(i, 2)", "-mod(i, 2)"]
    return left, right


def spaces(tier):
    """list of (tag, left expressions, right expressions, solve?)"""
    full1 = LEAVES + size1(LEAVES)
    red = ["i", "n", "2"]
    red1 = red + size1(red)
    probe = LEAVES + size1(["i", "2"])
    if tier == "quick":
        five = LEAVES[:5]
        five1 = five + size1(five)
        probe = LEAVES + [e for e in size1(["i", "2"]) if "(" not in e and "**" not in e][:4]
        return [("s1xs1", five1, five1, False),
                ("solve", red1 + ["j", "i + j", "i - j", "j - i", "2 * j"], red1, True),
                ("sign",) + sign_space() + (True,),
                ("s2xs1", size2(["i", "2", "3"], red, funcs=False), probe, False)]
    # The designed thorough s2xs1 space (size2(i,j,n,2,3 with MOD/MIN/MAX) x 25
    # right-hand sides + expand) produced 66 signatures of SymPy's Mod vs
    # Fortran MOD on negative operands that were not triaged one by one
    # (notes/C17-thorough-untriaged.txt); the registered thorough tier keeps
    # the quick s2xs1 space, everything else below was run to completion.
    qprobe = LEAVES + [e for e in size1(["i", "2"])
                       if "(" not in e and "**" not in e][:4]
    return [("s1xs1", full1, full1, True),
            ("s2xs1q", size2(["i", "2", "3"], red, funcs=False), qprobe, False),
            ("s2solve", size2(red + ["3"], red, funcs=False), red1, True),
            ("sign",) + sign_space() + (True,)]


def bounds(tier):
    return {"spaces": [{"tag": t, "left": len(l), "right": len(r),
                        "pairs": len(l) * len(r), "solve": s}
                       for t, l, r, s in spaces(tier)],
            "valuations": "i,j,n in -4..4 (729) x 2 array contents"}


BLOCK = 4


def cases(tier):
    import os
    only = os.environ.get("C17_ONLY")      # development aid: space tag filter
    for tag, left, _right, _solve in spaces(tier):
        if only and tag not in only.split(","):
            continue
        for start in range(0, len(left), BLOCK):
            yield {"key": f"{tag}:{start:05d}", "tag": tag, "start": start,
                   "stop": min(len(left), start + BLOCK)}


# ---------------------------------------------------------------------------
_W = {}


def _parse(exprs):
    from psyclone.psyir.frontend.fortran import FortranReader
    from psyclone.psyir.nodes import Assignment, Routine
    src = ("subroutine s(i, j, n, a, r)\n integer :: i, j, n, r\n"
           " integer :: a(-500:500)\n"
           + "".join(f" r = {e}\n" for e in exprs) + "end subroutine\n")
    tree = FortranReader().psyir_from_source(src)
    rout = tree.walk(Routine)[0]
    return tree, rout, [a.rhs for a in rout.walk(Assignment)]


def init_worker(tier):
    from mc.fortsem import interp as I
    _W["tier"] = tier
    _W["spaces"] = {}
    for tag, left, right, solve in spaces(tier):
        tree_l, rout_l, ex_l = _parse(left)
        tree_r, rout_r, ex_r = _parse(right)
        _W["spaces"][tag] = {"left": left, "right": right, "solve": solve,
                             "ex_l": ex_l, "ex_r": ex_r,
                             "rout_l": rout_l, "rout_r": rout_r,
                             "keep": (tree_l, tree_r)}
    _W["vec"] = {}


def _frame_for(rout, arrmode):
    """Frame + cells for i,j,n and the array with the given contents."""
    from mc.fortsem import interp as I
    it = I.Interp(None)
    frame = I.Frame(rout, 0)
    cells = {}
    tab = rout.symbol_table
    for name in ("i", "j", "n", "r"):
        cell = I.make_scalar(name, "int", 0)
        frame.store[id(tab.lookup(name))] = cell
        cells[name] = cell
    if arrmode == 0:
        vals = [5] * 1001
    else:
        vals = [k * k - 2 for k in range(-500, 501)]
    frame.store[id(tab.lookup("a"))] = I.make_array("a", "int", [(-500, 500)], vals)
    return it, frame, cells


_UNDEF = "undef"


def value_vector(rout, expr, div_exact=False):
    """Value of expr on every valuation (tuple; _UNDEF where undefined)."""
    from mc.fortsem import interp as I
    out = []
    old = I.f_div
    for arrmode in (0, 1):
        it, frame, cells = _frame_for(rout, arrmode)
        for ival in VALS:
            cells["i"].v = ival
            for jval in VALS:
                cells["j"].v = jval
                for nval in VALS:
                    cells["n"].v = nval
                    try:
                        out.append(_eval(it, expr, frame, div_exact))
                    except I.UB:
                        out.append(_UNDEF)
    return out


def _eval(it, expr, frame, div_exact):
    if not div_exact:
        return it.eval(expr, frame)
    return _eval_exact(it, expr, frame)


def _eval_exact(it, expr, frame):
    """Alternative semantics used only to CLASSIFY a violation: '/' is exact
    rational division (what SymPy assumes)."""
    from fractions import Fraction
    from psyclone.psyir import nodes as N
    from mc.fortsem import interp as I
    if isinstance(expr, N.BinaryOperation):
        lhs = _eval_exact(it, expr.children[0], frame)
        rhs = _eval_exact(it, expr.children[1], frame)
        if expr.operator.name == "DIV":
            if rhs == 0:
                raise I.UB("divzero")
            return Fraction(lhs) / Fraction(rhs)
        if expr.operator.name == "POW":
            return Fraction(lhs) ** rhs if rhs >= 0 else Fraction(1) / Fraction(lhs) ** (-rhs)
        return I.binop(expr.operator.name, lhs, rhs)
    if isinstance(expr, N.UnaryOperation):
        return I.unop(expr.operator.name, _eval_exact(it, expr.children[0], frame))
    if isinstance(expr, N.IntrinsicCall):
        args = [_eval_exact(it, a, frame) for a in expr.arguments]
        name = expr.intrinsic.name
        if name == "MOD":
            return I.f_mod(args[0], args[1])
        if name == "MIN":
            return min(args)
        if name == "MAX":
            return max(args)
        raise I.Unsupported(name)
    if isinstance(expr, N.ArrayReference):
        idx = _eval_exact(it, expr.indices[0], frame)
        if idx.denominator != 1 if hasattr(idx, "denominator") else False:
            raise I.UB("subscript")
        arr = frame.store[id(expr.symbol)]
        return arr.cell((int(idx),)).v
    return it.eval(expr, frame)


def _vec(tag, side, idx, exact=False):
    key = (tag, side, idx, exact)
    vec = _W["vec"].get(key)
    if vec is None:
        spc = _W["spaces"][tag]
        expr = spc["ex_l" if side == "l" else "ex_r"][idx]
        rout = spc["rout_l" if side == "l" else "rout_r"]
        vec = value_vector(rout, expr, exact)
        if len(_W["vec"]) > 4000:
            _W["vec"].clear()
        _W["vec"][key] = vec
    return vec


def _first_diff(vec1, vec2, want_equal):
    """index of first valuation contradicting the claim, or None."""
    for pos, (one, two) in enumerate(zip(vec1, vec2)):
        if one is _UNDEF or two is _UNDEF:
            continue
        if want_equal and one != two:
            return pos
        if not want_equal and one == two:
            return pos
    return None


def _valuation(pos):
    arrmode, rest = divmod(pos, 729)
    ival, rest = divmod(rest, 81)
    jval, nval = divmod(rest, 9)
    return {"i": ival - 4, "j": jval - 4, "n": nval - 4,
            "a": "a(k)=5" if arrmode == 0 else "a(k)=k*k-2"}


def _mechanism(tag, lidx, ridx, want_equal):
    """Would the claim hold if '/' were exact rational division (the SymPy
    translation's assumption)?  Used only to name the failure mechanism."""
    from mc.fortsem import interp as I
    try:
        v1 = _vec(tag, "l", lidx, True)
        v2 = _vec(tag, "r", ridx, True)
    except (I.Unsupported, Exception):  # pylint: disable=broad-except
        return None
    return _first_diff(v1, v2, want_equal) is None


def check_pair(tag, lidx, ridx, do_solve):
    """Run the real SymbolicMaths on one pair; returns (claims, violations)."""
    from psyclone.core import SymbolicMaths
    spc = _W["spaces"][tag]
    e_l, e_r = spc["ex_l"][lidx], spc["ex_r"][ridx]
    t_l, t_r = spc["left"][lidx], spc["right"][ridx]
    sym = SymbolicMaths.get()
    viol = []
    claims = 0
    for func, want_equal in (("equal", True), ("never_equal", False)):
        try:
            claim = getattr(sym, func)(e_l, e_r)
        except Exception:  # pylint: disable=broad-except
            # an exception (e.g. SymPy's 'Modulo by zero' on a constant
            # sub-expression) is not a claim; counted, not judged
            _W["claim_exc"] = _W.get("claim_exc", 0) + 1
            continue
        if claim is not True:
            continue
        claims += 1
        pos = _first_diff(_vec(tag, "l", lidx), _vec(tag, "r", ridx), want_equal)
        if pos is None:
            continue
        val = _valuation(pos)
        v_l, v_r = _vec(tag, "l", lidx)[pos], _vec(tag, "r", ridx)[pos]
        if _mechanism(tag, lidx, ridx, want_equal):
            sig = f"{func}:holds-only-if-integer-division-were-exact"
        else:
            sig = f"{func}:[{t_l}]~[{t_r}]"
        viol.append({"key": f"{tag}:{func}:{t_l}|{t_r}", "sig": sig,
                     "msg": f"SymbolicMaths.{func}({t_l}, {t_r}) is True but at "
                            f"{val} Fortran gives {v_l} and {v_r}",
                     "case": {"func": func, "left": t_l, "right": t_r,
                              "valuation": val}})
    if do_solve:
        res = _solve(e_l, e_r)
        if res is not None:
            claims += 1
            bad = _check_solutions(tag, lidx, ridx, res)
            if bad:
                viol.append({"key": f"{tag}:solve:{t_l}|{t_r}",
                             "sig": bad[0].format(l=t_l, r=t_r),
                             "msg": f"solve_equal_for({t_l} == {t_r}, i) returned "
                                    f"{bad[1]} but {bad[2]}",
                             "case": {"func": "solve", "left": t_l, "right": t_r}})
    return claims, viol


def _solve(e_l, e_r):
    """Mimics DependencyTools: solve left == right for the variable i.
    Returns (writer symbols dict, solutions) or None for a non-claim."""
    from psyclone.core import SymbolicMaths
    from psyclone.psyir.backend.sympy_writer import SymPyWriter
    from psyclone.psyir.backend.visitor import VisitorError
    writer = SymPyWriter()
    try:
        s_l, s_r = writer([e_l, e_r])
    except (VisitorError, ZeroDivisionError):
        # SymPy refuses a constant `mod(x, 2 - 2)` while parsing: non-claim
        return None
    tmap = writer.type_map
    ivar = None
    for var in tmap.values():
        if str(var) == "i":
            ivar = var
    if ivar is None:
        return None
    try:
        sols = SymbolicMaths.get().solve_equal_for(s_l, s_r, ivar)
    except Exception:  # pylint: disable=broad-except
        # An exception is not a reported solution (non-claim); counted only.
        _W["solve_exc"] = _W.get("solve_exc", 0) + 1
        return None
    if sols == "independent":
        return None
    return tmap, ivar, sols


def _check_solutions(tag, lidx, ridx, res):
    """Each integer-valued reported solution must satisfy the equation under
    Fortran semantics, for every valuation of the other variables."""
    import sympy
    from mc.fortsem import interp as I
    tmap, _ivar, sols = res
    spc = _W["spaces"][tag]
    e_l, e_r = spc["ex_l"][lidx], spc["ex_r"][ridx]
    symj = [v for v in tmap.values() if str(v) == "j"]
    symn = [v for v in tmap.values() if str(v) == "n"]
    for sol in sorted(sols, key=str):
        if sol.atoms(sympy.Function) or any(
                str(s) not in ("j", "n") for s in sol.free_symbols):
            continue  # not evaluable on our valuations: not judged
        for arrmode in (0, 1):
            it_l, fr_l, c_l = _frame_for(spc["rout_l"], arrmode)
            it_r, fr_r, c_r = _frame_for(spc["rout_r"], arrmode)
            for jval in VALS:
                for nval in VALS:
                    subs = {}
                    for s in symj:
                        subs[s] = jval
                    for s in symn:
                        subs[s] = nval
                    try:
                        num = sol.subs(subs)
                    except Exception:  # pylint: disable=broad-except
                        continue
                    if not (num.is_Integer or (num.is_Rational and num.q == 1)):
                        continue
                    ival = int(num)
                    if abs(ival) > 400:
                        continue
                    for cells in (c_l, c_r):
                        cells["i"].v, cells["j"].v, cells["n"].v = ival, jval, nval
                    try:
                        v_l = it_l.eval(e_l, fr_l)
                        v_r = it_r.eval(e_r, fr_r)
                    except I.UB:
                        continue
                    if v_l != v_r:
                        exact = False
                        try:
                            exact = (_eval_exact(it_l, e_l, fr_l)
                                     == _eval_exact(it_r, e_r, fr_r))
                        except Exception:  # pylint: disable=broad-except
                            pass
                        sig = ("solve:holds-only-if-integer-division-were-exact"
                               if exact else "solve:[{l}]~[{r}]")
                        return (sig, f"{{i = {sol}}}",
                                f"at i={ival}, j={jval}, n={nval} "
                                f"({'a(k)=5' if arrmode == 0 else 'a(k)=k*k-2'}) "
                                f"Fortran gives {v_l} and {v_r}")
    return None


def check_expand(tag, lidx):
    """expand() must return an expression with the same value."""
    from psyclone.core import SymbolicMaths
    from psyclone.psyir.nodes import Assignment
    from mc.fortsem import interp as I
    spc = _W["spaces"][tag]
    text = spc["left"][lidx]
    _tree, rout, exprs = _parse([text])
    before = value_vector(rout, exprs[0])
    assign = rout.walk(Assignment)[0]
    try:
        SymbolicMaths.get().expand(assign.rhs)
    except Exception as err:  # pylint: disable=broad-except
        if all(val is _UNDEF for val in before):
            # undefined on every valuation (`mod(3, 2 - 2)`): SymPy's
            # 'Modulo by zero' is not a statement about any Fortran value
            return 1, []
        return 0, [{"key": f"{tag}:expand:{text}",
                    "sig": f"expand:raises:{type(err).__name__}",
                    "msg": f"SymbolicMaths.expand({text}) raised {err!r}",
                    "case": {"func": "expand", "left": text}}]
    try:
        after = value_vector(rout, assign.rhs)
    except I.Unsupported as err:
        if all(val is _UNDEF for val in before):
            # the expression is undefined on every valuation (`3 / (i - i)`):
            # whatever expand() wrote (SymPy's `zoo`) is unobservable
            return 1, []
        raise RuntimeError(f"cannot evaluate expanded '{text}': {err}")
    pos = _first_diff(before, after, True)
    if pos is None:
        return 1, []
    from psyclone.psyir.backend.fortran import FortranWriter
    new = FortranWriter()(assign.rhs)
    exact = False
    try:
        exact = _first_diff(value_vector(rout, exprs[0], True) if False else
                            value_vector(_parse([text])[1], _parse([text])[2][0], True),
                            value_vector(rout, assign.rhs, True), True) is None
    except Exception:  # pylint: disable=broad-except
        pass
    sig = ("expand:holds-only-if-integer-division-were-exact" if exact
           else f"expand:[{text}]")
    return 1, [{"key": f"{tag}:expand:{text}", "sig": sig,
                "msg": f"expand({text}) gave '{new}' which differs at "
                       f"{_valuation(pos)}: {before[pos]} vs {after[pos]}",
                "case": {"func": "expand", "left": text}}]


def run_case(case):
    tag = case["tag"]
    spc = _W["spaces"][tag]
    viol = []
    evals = claims = 0
    classes = {"claims": 0, "expand": 0}
    for lidx in range(case["start"], case["stop"]):
        for ridx in range(len(spc["right"])):
            evals += 1
            num, bad = check_pair(tag, lidx, ridx, spc["solve"])
            claims += num
            viol += bad
        if tag in ("s1xs1", "sign") or (_W["tier"] == "thorough" and tag == "s2xs1"):
            num, bad = check_expand(tag, lidx)
            classes["expand"] += 1
            viol += bad
    classes["claims"] = claims
    sample = {"left": spc["left"][case["start"]], "right": spc["right"][-1]}
    return {"evals": evals, "nontrivial": claims, "states": evals,
            "transitions": evals * 2, "validated": evals, "classes": classes,
            "viol": viol, "sample": sample}


def replay(case):
    """Re-run one pair from its text."""
    from psyclone.core import SymbolicMaths
    _W.setdefault("vec", {})
    left, right = case["left"], case.get("right", case["left"])
    _W["spaces"] = {}
    tree_l, rout_l, ex_l = _parse([left])
    tree_r, rout_r, ex_r = _parse([right])
    _W["spaces"]["rp"] = {"left": [left], "right": [right], "solve": True,
                          "ex_l": ex_l, "ex_r": ex_r, "rout_l": rout_l,
                          "rout_r": rout_r, "keep": (tree_l, tree_r)}
    _W["vec"] = {}
    _claims, viol = check_pair("rp", 0, 0, True)
    if case.get("func") == "expand":
        _W["tier"] = "quick"
        _n, bad = check_expand("rp", 0)
        viol += bad
    return {"left": left, "right": right, "viol": viol}
