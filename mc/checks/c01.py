"""C01 Reading and re-writing Fortran preserves program behaviour.

Translation validation over an exhaustive bounded corpus: every generated
program is read by the real FortranReader and written by the real
FortranWriter (no transformation); the original and the re-written text are
both compiled with gfortran (same flags) and executed; every program runs all
of its enumerated inputs and prints every variable after each one; the outputs
must be identical input by input.
"""
import os
import shutil

from mc import c01_gfo, c01_rw, runner
from mc.gen import fprog

ID = "C01"
LEVEL = "translation_validation"
EXHAUSTIVE = True
CASE_TIMEOUT = 14400
RULE = ("programs = every statement template of the grammar in mc/gen/fprog.py "
        "(DO, IF, SELECT CASE, WHERE, array assignment, intrinsics, expressions, "
        "calls with named/optional arguments, verbatim statements, ALLOCATE, RETURN; "
        "one variant per lowering decision of fparser2.py) alone on every host it "
        "supports (main program with literal/named bounds, module subroutine with "
        "assumed-shape dummies, the same with lower-bounded assumed-shape dummies), "
        "core containers x core templates nested, core x core sequences (thorough: + "
        "mini-core containers x every template, every pair with a probe member in "
        "both orders, triples and nested+one over the mini core); each program "
        "enumerates the full product of the input domains it uses (iv 0..2 data variant, n 0..3, isel -1..4, l F/T, ch a/b/c); "
        "a program is non-trivial when PSyclone produced text for it and both "
        "versions were executed; distinct = distinct program key")
ASSUMPTIONS = [
    "gfortran 12 (-O0 -std=f2008 -fimplicit-none -fcheck=bounds "
    "-ffree-line-length-none) is the reference implementation of Fortran; original "
    "and re-written program are compiled with identical flags",
    "for batching, module tmod / program tprog are renamed mechanically (tmod_k, "
    "subroutine tprog_k) in both texts after PSyclone has run",
    "all values are exactly representable; outputs are compared as text",
    "an original that does not compile, fails at run time (bounds) or does not "
    "print all its cases is a generator bug = harness error, never a violation",
    "clean refusals (PSyclone error classes other than InternalError, "
    "NotImplementedError, fparser syntax errors) are counted, not failed",
]

BLOCK = 24


def bounds(tier):
    classes = {}
    for cls, _spec in fprog.statement_specs(tier):
        classes[cls] = classes.get(cls, 0) + 1
    return {"statement_templates": len(fprog.ORDER),
            "core_templates": len(fprog._flag("c")) - (
                len(fprog.QUICK_CORE_DROPPED) if tier == "quick" else 0),
            "mini_core": len(fprog._flag("k")),
            "programs_per_class": classes,
            "max_sequence": 2 if tier == "quick" else 3, "max_nesting": 2,
            "inputs": {k: list(v[2]) for k, v in fprog.INPUTS.items()},
            "gfortran_flags": c01_gfo.FLAGS}


def cases(tier):
    # development aid only (mutant runs): VERIF_C01_CLASSES=s1,n2core restricts
    # the enumeration to the named size classes; registered runs never set it
    only = [c for c in os.environ.get("VERIF_C01_CLASSES", "").split(",") if c]
    by_cls = {}
    for cls, spec in fprog.statement_specs(tier):
        if only and cls not in only:
            continue
        by_cls.setdefault(cls, []).append(fprog.prog_key(spec))
    for cls, keys in by_cls.items():
        for start in range(0, len(keys), BLOCK):
            yield {"key": f"{cls}:{start // BLOCK:04d}",
                   "progs": keys[start:start + BLOCK]}


_SCRATCH = None
_COUNT = [0]


def init_worker(_tier):
    global _SCRATCH
    _SCRATCH = runner.scratch_dir("c01")
    os.chdir(_SCRATCH)
    c01_rw.init()
    import atexit
    atexit.register(shutil.rmtree, _SCRATCH, True)


# ---------------------------------------------------------------------------
def compare(prog, out_o, out_r):
    """-> (kind, msg) or None; also the number of cases compared."""
    cases_o = c01_gfo.split_cases(out_o)
    cases_r = c01_gfo.split_cases(out_r)
    for idx, (head, lines) in enumerate(cases_o):
        if idx >= len(cases_r):
            return ("wrong-output:missing-cases",
                    f"the re-written program printed {len(cases_r)} of "
                    f"{len(cases_o)} cases; first missing: {head}")
        head_r, lines_r = cases_r[idx]
        if head_r != head:
            return ("wrong-output:case-header",
                    f"case {idx}: expected header '{head}', got '{head_r}'")
        if lines != lines_r:
            for pos in range(max(len(lines), len(lines_r))):
                exp = lines[pos] if pos < len(lines) else "<nothing>"
                got = lines_r[pos] if pos < len(lines_r) else "<nothing>"
                if exp != got:
                    label = (exp.split() or got.split() or ["?"])[0]
                    return (f"wrong-output:{label}",
                            f"input '{head}': original prints '{exp.strip()}', "
                            f"re-written prints '{got.strip()}'")
    if len(cases_r) > len(cases_o):
        return ("wrong-output:extra-cases", "the re-written program printed more")
    return None


def verdicts(progs):
    """Runs the whole oracle on a list of built programs.
    -> {key: dict(cls, kind, msg, ncmp, rewritten)}"""
    out = {}
    texts_o, texts_r = {}, {}
    for num, prog in enumerate(progs):
        status, text, info = c01_rw.read_write(prog["source"])
        res = {"cls": None, "kind": None, "msg": "", "ncmp": 0, "rewritten": text}
        out[prog["key"]] = res
        if status == "refusal":
            res["cls"] = f"refusal:{info['type']}"
            continue
        if status == "internal":
            res["cls"] = "violation"
            res["kind"] = f"internal:{info['type']}@{info['where']}"
            res["msg"] = (f"{info['stage']} raised {info['type']}: {info['msg']}")
            continue
        unit_o = c01_gfo.unitize(prog["source"], num)
        if unit_o is None:
            raise RuntimeError(f"cannot unitize original {prog['key']}")
        unit_r = c01_gfo.unitize(text, num)
        texts_o[num] = unit_o
        if unit_r is None:
            res["cls"] = "violation"
            res["kind"] = "nocompile:program-statement-lost"
            res["msg"] = "the written text has no 'program tprog' / 'end program'"
            continue
        texts_r[num] = unit_r
    if not texts_o:
        return out
    _COUNT[0] += 1
    work = os.path.join(_SCRATCH, f"b{_COUNT[0]}")
    os.makedirs(work, exist_ok=True)
    try:
        bat_o = c01_gfo.Batch(work, "o")
        bat_o.build(texts_o)
        if bat_o.errors:
            num = sorted(bat_o.errors)[0]
            raise RuntimeError(
                f"generator bug: original {progs[num]['key']} does not compile: "
                f"{bat_o.errors[num][:3]}\n{progs[num]['source']}")
        run_o = bat_o.run(sorted(texts_o))
        for num, (status, stdout, detail) in run_o.items():
            ncase = sum(1 for head, _l in c01_gfo.split_cases(stdout)
                        if head.startswith("CASE"))
            if status != "ok" or ncase != progs[num]["ncases"]:
                raise RuntimeError(
                    f"generator bug: original {progs[num]['key']} {status} "
                    f"{detail} ({ncase}/{progs[num]['ncases']} cases)\n"
                    f"{progs[num]['source']}")
        bat_r = c01_gfo.Batch(work, "r")
        bat_r.build(texts_r)
        run_r = bat_r.run([n for n in sorted(texts_r) if n in bat_r.exe])
        for num in sorted(texts_r):
            prog = progs[num]
            res = out[prog["key"]]
            if num in bat_r.errors:
                first = bat_r.errors[num][0] if bat_r.errors[num] else "?"
                res["cls"] = "violation"
                res["kind"] = "nocompile:" + c01_gfo.slug(first)
                res["msg"] = ("the re-written program does not compile: "
                              + " | ".join(bat_r.errors[num][:3]))
                continue
            status, stdout, detail = run_r[num]
            res["ncmp"] = prog["ncases"]
            diff = compare(prog, run_o[num][1], stdout)
            if status == "timeout":
                res["cls"] = "violation"
                res["kind"] = "runtime:cpu-limit"
                res["msg"] = ("the re-written program does not terminate ("
                              + detail + ")")
            elif status != "ok":
                res["cls"] = "violation"
                res["kind"] = "runtime:" + c01_gfo.slug(detail)
                res["msg"] = (f"the re-written program fails at run time: {detail}"
                              + (f"; {diff[1]}" if diff else ""))
            elif diff:
                res["cls"] = "violation"
                res["kind"], res["msg"] = diff
            else:
                res["cls"] = "equal"
    finally:
        shutil.rmtree(work, ignore_errors=True)
    return out


_SINGLES = {}


def _component_specs(spec):
    names = []
    for item in spec["items"]:
        names += [n for n in item if n]
    if len(names) <= 1:
        return []
    comps = []
    for name in names:
        host = spec["host"]
        if host not in fprog._hosts(name):
            host = fprog._hosts(name)[0]
        comp = {"host": host, "items": [[name, None]]}
        if comp not in comps:
            comps.append(comp)
    return comps


def judge_block(keys):
    progs = [fprog.build(fprog.parse_key(key)) for key in keys]
    res = verdicts(progs)
    # attribution: which single template shows the same failure on its own?
    needed = []
    for prog in progs:
        if res[prog["key"]]["cls"] == "violation":
            for comp in _component_specs(prog["spec"]):
                ckey = fprog.prog_key(comp)
                if ckey not in _SINGLES and ckey not in [fprog.prog_key(n) for n in needed]:
                    needed.append(comp)
    if needed:
        cprogs = [fprog.build(comp) for comp in needed]
        for ckey, cres in verdicts(cprogs).items():
            _SINGLES[ckey] = cres["kind"]
    for prog in progs:
        one = res[prog["key"]]
        if one["cls"] != "violation":
            continue
        culprit = None
        comps = _component_specs(prog["spec"])
        if not comps:
            culprit = prog["spec"]["items"][0][0]
        for comp in comps:
            if _SINGLES.get(fprog.prog_key(comp)) == one["kind"]:
                culprit = comp["items"][0][0]
                break
        if culprit is None:
            culprit = "+".join(fprog.item_key(it) for it in prog["spec"]["items"])
        one["culprit"] = culprit
    return progs, res


def _violation(prog, one):
    sig = f"{one['culprit']}:{one['kind']}"
    msg = (f"program {prog['key']}: {one['msg']}\n--- original:\n{prog['source']}"
           + (f"--- re-written:\n{one['rewritten']}" if one["rewritten"] else ""))
    return {"key": prog["key"], "sig": sig, "msg": msg, "group": one["culprit"],
            "case": {"prog": prog["key"], "source": prog["source"]}}


def run_case(case):
    progs, res = judge_block(case["progs"])
    classes = {}
    viol = []
    compared = 0
    ncmp = 0
    sample = None
    refusals = []
    for prog in progs:
        one = res[prog["key"]]
        cls = one["cls"]
        if cls == "violation":
            cls = "violation:" + one["kind"].split(":")[0]
            viol.append(_violation(prog, one))
        classes[cls] = classes.get(cls, 0) + 1
        if one["ncmp"]:
            compared += 1
            ncmp += one["ncmp"]
        if cls.startswith("refusal") and case["key"].startswith("s1:"):
            refusals.append(prog["key"] + " " + cls)
        if sample is None and one["cls"] == "equal":
            sample = {"program": prog["key"], "inputs": prog["inputs"],
                      "cases_compared": one["ncmp"],
                      "source": prog["source"]}
    count = len(progs)
    out = {"evals": count, "nontrivial": compared, "classes": classes,
           "viol": viol,
           "extra": {"programs": compared, "disagreements_checked": ncmp}}
    if refusals:
        out["extra"]["refused_single_programs"] = refusals
    if sample:
        out["sample"] = sample
    return out


def _remove_dead_scratch(tag):
    """Pool workers are terminated without running their exit handlers: the
    parent removes the scratch directories of processes that no longer exist."""
    import glob
    import shutil as _shutil
    base = os.path.dirname(runner.scratch_dir(tag + "probe"))
    _shutil.rmtree(os.path.join(base, f"verif.{tag}probe.{os.getpid()}"), True)
    for path in glob.glob(os.path.join(base, f"verif.{tag}.*")):
        try:
            pid = int(path.rsplit(".", 1)[1])
            os.kill(pid, 0)
        except (ValueError, ProcessLookupError):
            _shutil.rmtree(path, True)
        except PermissionError:
            pass


def finish(_tier, _totals):
    _remove_dead_scratch("c01")
    return {}


def replay(case):
    progs, res = judge_block([case["prog"]])
    one = res[progs[0]["key"]]
    out = {"verdict": one["cls"], "kind": one["kind"], "viol": []}
    if one["cls"] == "violation":
        out["viol"].append(_violation(progs[0], one))
    return out
