"""C06 Array-syntax and intrinsic lowering preserve semantics.

Every statement of an enumerated corpus (array assignments with overlapping /
shifted / strided sections and different lower bounds, whole-array references,
constant-index accesses, ABS/SIGN/MIN/MAX/DOT_PRODUCT/MATMUL and
SUM/PRODUCT/MINVAL/MAXVAL calls in several embeddings) x every lowering
transformation x every matching target node is applied by the real PSyclone
code; each accepted result is executed by E1 on every enumerated input and
compared with the original.
"""
import itertools

ID = "C06"
LEVEL = "model_checking"
EXHAUSTIVE = True
CASE_TIMEOUT = 1800
RULE = ("programs = one or two statements from the array-assignment grammar "
        "(L in sections of a,q with full/shifted/strided/reversed/constant-index "
        "dims; R in same-array shifted (overlap), other arrays with other lower "
        "bounds, scalars, elementwise expressions) and the intrinsic grammar "
        "(ABS,SIGN,MIN,MAX 2-3 args real/integer, DOT_PRODUCT, MATMUL mat-vec/"
        "mat-mat, SUM/PRODUCT/MINVAL/MAXVAL whole/section/dim/mask) embedded as "
        "scalar assignment, array element expression, IF condition, loop body; "
        "attempts = every lowering transformation on every matching node; inputs "
        "n=0..3 x 4 scalar pairs (36 pairs for scalar-intrinsic programs); "
        "non-trivial = accepted attempt (executed on all admissible inputs)")
ASSUMPTIONS = [
    "E1 implements Fortran array-assignment semantics (RHS evaluated completely "
    "before any element is assigned) and the intrinsics exactly",
    "inputs exclude signed zeros/NaN by construction (exact rationals)",
    "an input on which the original is undefined (shape mismatch, out of bounds, "
    "MAXVAL of an empty extent) is skipped",
]

HEADER = """subroutine s(n, m, k, t, u, a, b, c, q, r, v, w, mm, nn, z, iv)
  integer, intent(in) :: n
  integer, intent(in) :: m
  integer, intent(inout) :: k
  real, intent(inout) :: t
  real, intent(inout) :: u
  real, intent(inout) :: a(0:m)
  real, intent(inout) :: b(0:m)
  real, intent(inout) :: c(1:5)
  real, intent(inout) :: q(0:m,0:m)
  real, intent(inout) :: r(1:5,2:6)
  real, intent(inout) :: v(3)
  real, intent(inout) :: w(0:2)
  real, intent(inout) :: mm(3,3)
  real, intent(inout) :: nn(0:2,3)
  real, intent(inout) :: z(3,3)
  integer, intent(inout) :: iv(0:m)
  integer :: i
  integer :: j
"""
FOOTER = "end subroutine s\n"


def indent(text, pre="  "):
    return "".join(pre + line + "\n" for line in text.split("\n"))


def array_statements(rich):
    out = []
    lhs = ["a(1:n)", "a(:)", "a(2:n)", "a(0:n - 1)", "a(1:n:2)", "a(n:1:-1)", "a"]
    rhs = ["a(0:n - 1)", "a(2:n + 1)", "a(1:n)", "a(n:1:-1)", "b(1:n)", "b(:)", "b",
           "c(1:n)", "c(n:1:-1)", "t", "b(1:n) + c(1:n)", "2.0 * a(0:n - 1) + b(1:n)",
           "a(1:n) + a(0:n - 1)", "b(1:n:2)", "b(2:n)", "a(1:n - 1)", "abs(b(1:n))",
           "max(b(1:n), t)", "b(iv(1):iv(2))"]
    for left, right in itertools.product(lhs, rhs):
        out.append((f"{left}={right}", f"{left} = {right}"))
    lhs2 = ["q(:, :)", "q(1:n, 1:n)", "q(1:n, 2)", "q(2, 1:n)", "q", "q(0:n - 1, 1:n)",
            "r(1:n, 2:n + 1)", "q(1:n, k)"]
    rhs2 = ["q(1:n, 1:n)", "q(0:n - 1, 1:n)", "q(1:n, 0:n - 1)", "r(1:n, 2:n + 1)",
            "q(1:n, 2)", "q(2, 1:n)", "q(1:n, 1)", "a(1:n)", "t", "q(:, :) + 1.0",
            "r(1:n, 3)", "q(2:n + 1, 1:n)"]
    for left, right in itertools.product(lhs2, rhs2):
        out.append((f"{left}={right}", f"{left} = {right}"))
    # constant-index accesses
    for stmt in ["a(1) = 0.0", "a(k) = b(k) + 1.0", "a(1) = a(0) + b(2)",
                 "q(1, 2) = q(2, 1) + 1.0", "q(k, 1:n) = a(1:n)", "a(k) = a(k + 1)",
                 "q(1, k) = t", "a(n) = b(1)"]:
        out.append((stmt, stmt))
    return out


def intrinsic_exprs(rich):
    """(key, expression text, result kind: 'r'eal / 'i'nteger / array shape tag)"""
    out = []
    scal = [("abs(u)", "r"), ("abs(t - u)", "r"), ("sign(t, u)", "r"), ("sign(u, t)", "r"),
            ("sign(2.0, u)", "r"), ("min(t, u)", "r"), ("max(t, u)", "r"),
            ("min(t, u, 1.0)", "r"), ("max(t, u, 1.0)", "r"), ("max(t, 2.0)", "r"),
            ("min(abs(t), abs(u))", "r"), ("abs(k)", "i"), ("min(k, n)", "i"),
            ("max(k, n, 2)", "i"), ("sign(k, n - 2)", "i"), ("abs(a(k))", "r"),
            ("max(a(1), b(1))", "r"), ("sign(a(k), t)", "r")]
    for text, kind in scal:
        out.append((text, text, kind))
    red = ["sum(a)", "sum(a(1:n))", "sum(q)", "sum(q(1:n, 1:n))", "product(v)",
           "product(a(1:n))", "maxval(a)", "maxval(a(1:n))", "minval(b(1:n))",
           "minval(w)", "maxval(q)", "sum(a, mask=a > 2.0)", "sum(a(1:n), mask=b(1:n) > 12.0)",
           "maxval(a, mask=a < 3.0)", "sum(r)", "sum(c)", "minval(q(1:n, 2))",
           "sum(w)", "product(w)", "sum(a(1:n:2))", "sum(abs(a))", "sum(a + b)"]
    for text in red:
        out.append((text, text, "r"))
    out.append(("dot_product(v, w)", "dot_product(v, w)", "r"))
    out.append(("dot_product(a(1:n), b(1:n))", "dot_product(a(1:n), b(1:n))", "r"))
    out.append(("dot_product(mm(:, 1), v)", "dot_product(mm(:, 1), v)", "r"))
    out.append(("dot_product(w, w)", "dot_product(w, w)", "r"))
    return out


def array_intrinsic_statements():
    return [
        ("v=matmul(mm,w)", "v = matmul(mm, w)"),
        ("v=matmul(nn,v)?", "w = matmul(nn, v)"),
        ("z=matmul(mm,nn)", "z = matmul(mm, nn)"),
        ("z=matmul(nn,mm)", "z = matmul(nn, mm)"),
        ("v=matmul(mm,v)", "v = matmul(mm, v)"),
        # slices of higher-rank arrays as result and as vector operand
        ("z(:,2)=matmul(mm,z(:,3))", "z(:, 2) = matmul(mm, z(:, 3))"),
        ("z(:,k)=matmul(mm,z(:,3))", "z(:, k) = matmul(mm, z(:, 3))"),
        ("z(:,2)=matmul(mm,z(:,2))?", "z(:, 3) = matmul(mm, mm(:, 2))"),
        ("v=matmul(mm,z(:,2))", "v = matmul(mm, z(:, 2))"),
        ("z(:,1)=matmul(mm,v)", "z(:, 1) = matmul(mm, v)"),
        ("z(:,1)=matmul(mm,mm(:,1))", "z(:, 1) = matmul(mm, mm(:, 1))"),
        ("a=sum(q,dim=2)", "a = sum(q, dim=2)"),
        ("a=sum(q,dim=1)", "a(0:m) = sum(q, dim=1)"),
        ("v=sum(mm,dim=1)", "v = sum(mm, dim=1)"),
        ("v=maxval(mm,dim=2)", "v = maxval(mm, dim=2)"),
        ("v=minval(nn,dim=1)", "v = minval(nn, dim=1)"),
        ("v=product(mm,dim=2)", "v = product(mm, dim=2)"),
        ("v=sum(mm,dim=1,mask)", "v = sum(mm, dim=1, mask=mm > 3.0)"),
    ]


def corpus(tier):
    rich = tier == "thorough"
    out = []
    for key, stmt in array_statements(rich):
        out.append((f"AA:{key}", stmt, "array"))
    for key, stmt in array_intrinsic_statements():
        out.append((f"AI:{key}", stmt, "array"))
    for key, expr, kind in intrinsic_exprs(rich):
        tgt = "t" if kind == "r" else "k"
        scalar = expr.split("(")[0] in ("abs", "sign", "min", "max")
        tag = "scalar" if scalar else "array"
        out.append((f"IS:{key}", f"{tgt} = {expr}", tag))
        out.append((f"IE:{key}", f"a(1) = {expr} + b(1)", tag))
        out.append((f"IC:{key}", f"if ({expr} > 1) then\n  u = 0.0\nend if", tag))
        out.append((f"IL:{key}", f"do i = 1, n\n  b(i) = {expr} * i\nend do", tag))
        if rich:
            out.append((f"IW:{key}", f"do i = 1, n\n  if (b(i) > {expr}) then\n"
                                     f"    b(i) = {expr}\n  end if\nend do", tag))
            out.append((f"IN:{key}", f"{tgt} = 2 * ({expr}) - {expr}", tag))
    if rich:
        # two array statements in sequence (the second sees the first's result)
        sel = [s for s in array_statements(True) if s[0].startswith(("a(1:n)=", "a(2:n)="))]
        for (k1, s1), (k2, s2) in itertools.product(sel[:12], sel[:12]):
            out.append((f"A2:{k1};{k2}", s1 + "\n" + s2, "array"))
    return out


_CORPUS = {}


def _corpus(tier):
    if tier not in _CORPUS:
        _CORPUS[tier] = corpus(tier)
    return _CORPUS[tier]


BLOCK = 4


def bounds(tier):
    return {"programs": len(_corpus(tier)),
            "inputs": "n=0..3 x (t,u) in 4 pairs; scalar-intrinsic programs: n=2 x 36 pairs"}


def cases(tier):
    total = len(_corpus(tier))
    for start in range(0, total, BLOCK):
        yield {"key": f"blk{start:06d}", "start": start,
               "stop": min(total, start + BLOCK)}


_TIER = "quick"


def init_worker(tier):
    global _TIER
    _TIER = tier
    _corpus(tier)


def make_args(nval, tval, uval, kval=1):
    from fractions import Fraction as F
    from mc.fortsem import interp as I
    mval = nval + 1
    rng = range(0, mval + 1)
    return [
        I.make_scalar("n", "int", nval),
        I.make_scalar("m", "int", mval),
        I.make_scalar("k", "int", kval),
        I.make_scalar("t", "real", F(tval)),
        I.make_scalar("u", "real", F(uval)),
        I.make_array("a", "real", [(0, mval)], [F(2 * i + 1, 2) for i in rng]),
        I.make_array("b", "real", [(0, mval)], [F(10 + 2 * i) for i in rng]),
        I.make_array("c", "real", [(1, 5)], [F(-4 * i - 1, 4) for i in range(5)]),
        I.make_array("q", "real", [(0, mval), (0, mval)],
                     [F(800 + 80 * i + 8 * j + 1, 8) for j in rng for i in rng]),
        I.make_array("r", "real", [(1, 5), (2, 6)],
                     [F(-(16 * i + 2 * j + 1), 2) for j in range(5) for i in range(5)]),
        I.make_array("v", "real", [(1, 3)], [F(3), F(-1, 2), F(2)]),
        I.make_array("w", "real", [(0, 2)], [F(-2), F(5), F(1, 4)]),
        I.make_array("mm", "real", [(1, 3), (1, 3)],
                     [F(x) for x in (1, 4, -2, 0, 3, 5, 7, -1, 2)]),
        I.make_array("nn", "real", [(0, 2), (1, 3)],
                     [F(x, 2) for x in (3, 1, -4, 2, 2, 9, -6, 5, 1)]),
        I.make_array("z", "real", [(1, 3), (1, 3)], [F(50 + x) for x in range(9)]),
        I.make_array("iv", "int", [(0, mval)], [1 + (i % 2) for i in rng]),
    ]


PAIRS4 = [(-2, 3), (3, -2), (0, -1), (1, 1)]
VALS6 = [-2, -1, 0, 1, 2, 3]


def inputs_for(tag):
    out = []
    if tag == "scalar":
        for tval, uval in itertools.product(VALS6, VALS6):
            for kval in (1, 2):
                out.append((f"n=2,t={tval},u={uval},k={kval}",
                            (lambda t=tval, u=uval, k=kval: make_args(2, t, u, k))))
        return out
    for nval in range(0, 4):
        for tval, uval in PAIRS4:
            out.append((f"n={nval},t={tval},u={uval}",
                        (lambda n=nval, t=tval, u=uval: make_args(n, t, u))))
    return out


def _real_scalar_args(call):
    """True if every argument of the intrinsic call is a REAL scalar
    according to a syntactic reading of the corpus (scalars t,u; elements of
    the real arrays; real literals; nested ABS/SIGN/MIN/MAX of those)."""
    from psyclone.psyir import nodes as N
    from psyclone.psyir.symbols import ScalarType, ArrayType

    def real_scalar(node):
        if isinstance(node, N.Literal):
            return node.datatype.intrinsic == ScalarType.Intrinsic.REAL
        if isinstance(node, N.ArrayReference):
            if any(isinstance(i, N.Range) for i in node.indices):
                return False
            dtype = node.symbol.datatype
            return isinstance(dtype, ArrayType) and \
                dtype.intrinsic == ScalarType.Intrinsic.REAL
        if isinstance(node, N.IntrinsicCall):
            return node.intrinsic.name in ("ABS", "SIGN", "MIN", "MAX") and \
                all(real_scalar(a) for a in node.arguments)
        if isinstance(node, N.Reference):
            dtype = node.symbol.datatype
            return isinstance(dtype, ScalarType) and \
                dtype.intrinsic == ScalarType.Intrinsic.REAL
        if isinstance(node, N.BinaryOperation):
            return node.operator.name in ("ADD", "SUB", "MUL") and \
                all(real_scalar(c) for c in node.children)
        if isinstance(node, N.UnaryOperation):
            return real_scalar(node.children[0])
        return False
    return all(real_scalar(arg) for arg in call.arguments)


def attempts_for(tree):
    from psyclone.psyir import nodes as N
    from psyclone.psyir import transformations as T
    from mc.fortsem.transcheck import Attempt, nth
    out = []
    for idx, assign in enumerate(tree.walk(N.Assignment)):
        out.append(Attempt(f"ArrayAssignment2LoopsTrans@A{idx}",
                           T.ArrayAssignment2LoopsTrans, nth(N.Assignment, idx)))
        out.append(Attempt(f"AllArrayAccess2LoopTrans@A{idx}",
                           T.AllArrayAccess2LoopTrans, nth(N.Assignment, idx)))
    refs = tree.walk(N.Reference)
    for idx, ref in enumerate(refs):
        if type(ref) is N.Reference and ref.symbol.is_array \
                if hasattr(ref.symbol, "is_array") else False:
            out.append(Attempt(f"Reference2ArrayRangeTrans@R{idx}",
                               T.Reference2ArrayRangeTrans, nth(N.Reference, idx)))
    # constant-index accesses: every index child of every ArrayReference on a LHS
    for idx, aref in enumerate(tree.walk(N.ArrayReference)):
        for pos, index in enumerate(aref.indices):
            if isinstance(index, N.Range):
                continue

            def locate(tree2, idx=idx, pos=pos):
                return (tree2.walk(N.ArrayReference)[idx].indices[pos],)
            out.append(Attempt(f"ArrayAccess2LoopTrans@AR{idx}.{pos}",
                               T.ArrayAccess2LoopTrans, locate))
    intr = {
        "ABS": T.Abs2CodeTrans, "SIGN": T.Sign2CodeTrans, "MIN": T.Min2CodeTrans,
        "MAX": T.Max2CodeTrans, "DOT_PRODUCT": T.DotProduct2CodeTrans,
        "MATMUL": T.Matmul2CodeTrans, "SUM": T.Sum2LoopTrans,
        "PRODUCT": T.Product2LoopTrans, "MINVAL": T.Minval2LoopTrans,
        "MAXVAL": T.Maxval2LoopTrans,
    }
    for idx, call in enumerate(tree.walk(N.IntrinsicCall)):
        name = call.intrinsic.name
        if name in ("ABS", "SIGN", "MIN", "MAX") and not _real_scalar_args(call):
            # outside the documented domain (real scalars) of these
            # transformations: not attempted, not judged
            continue
        if name in intr:
            out.append(Attempt(f"{intr[name].__name__}@I{idx}", intr[name],
                               nth(N.IntrinsicCall, idx)))
    return out


def run_case(case):
    from mc.fortsem import transcheck
    progs = _corpus(_TIER)
    results = []
    for key, body, tag in progs[case["start"]:case["stop"]]:
        src = HEADER + indent(body) + FOOTER
        results.append(transcheck.check_program(
            key, src, attempts_for, inputs_for(tag)))
    return transcheck.merge_results(results)


def replay(case):
    from mc.fortsem import transcheck
    label = case["label"]
    tag = "scalar" if "k=" in case.get("inputs", "") else "array"
    return transcheck.check_program(
        case["key"], case["src"],
        lambda tree: [a for a in attempts_for(tree) if a.label == label],
        inputs_for(tag))
